class Packet:

    def __init__(self, _initialize_fields=True, **defaults):
        assert _initialize_fields in (True, False)
        if _initialize_fields:
            for field_name, field, _, _ in self.__class__.get_fields():
                field.init(self, defaults)
                try:
                    descriptor_name = field.descriptor_name
                    default_value = defaults[descriptor_name]
                    setattr(self, descriptor_name, default_value)
                except AttributeError:
                    pass
                except KeyError:
                    pass

    def __eq__(self, other):
        if not isinstance(other, self.__class__):
            return False

        missing = object()
        for name, f, pack, _ in self.get_fields():
            mine = getattr(self, name, missing)
            theirs = getattr(other, name, missing)
            if mine is missing and theirs is missing:
                continue  # placeholder (positioning, Em): holds no value

            if mine is missing or theirs is missing or mine != theirs:
                return False

        return True

    def __repr__(self):
        msg = [f'{self.__class__.__name__}:']
        for name, f, _, _ in self.get_fields():
            if hasattr(self, name):
                msg.append(f'  {name}: {getattr(self, name)}')

        return '\n'.join(msg)
