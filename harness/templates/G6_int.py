class Int:
    @exec_once
    def _compile(self, position, fields, bisturi_conf):
        slots = Field._compile_impl(self, position, fields, bisturi_conf)

        if self.endianness is None:
            self.endianness = bisturi_conf.get('endianness', 'big')

        self.is_bigendian = (self.endianness in ('big', 'network')) or \
                            (self.endianness == 'local' and sys.byteorder == 'big')

        if HOLE_i_has_struct:
            code = {1: 'B', 2: 'H', 4: 'I', 8: 'Q'}[self.byte_count]
            if self.is_signed:
                code = code.lower()

            self.struct_code = code
            fmt = (">" if self.is_bigendian else "<") + code
            self.struct_obj = struct.Struct(fmt)

            self.pack, self.unpack = self._pack_fixed_and_primitive_size, \
                                        self._unpack_fixed_and_primitive_size

        else:
            self.struct_code = None
            self.base = HOLE_i_base

            self.pack, self.unpack = self._pack_fixed_size, \
                                        self._unpack_fixed_size

        return slots

    def _unpack_fixed_and_primitive_size(self, pkt, raw, offset=0, **k):
        next_offset = HOLE_i_next1
        integer = self.struct_obj.unpack(raw[offset:next_offset])[0]
        setattr(pkt, self.field_name, integer)

        return next_offset

    def _pack_fixed_and_primitive_size(self, pkt, fragments, **k):
        integer = getattr(pkt, self.field_name)
        raw = self.struct_obj.pack(integer)
        fragments.append(raw)

        return fragments

    def _unpack_fixed_size(self, pkt, raw, offset=0, **k):
        next_offset = HOLE_i_next2
        raw_data = raw[offset:next_offset]
        if HOLE_i_short:
            raise Exception(HOLE_i_msg)

        try:
            num = int.from_bytes(
                raw_data,
                byteorder='big' if self.is_bigendian else 'little',
                signed=self.is_signed
            )

        except AttributeError:
            if not self.is_bigendian:
                raw_data = raw_data[::-1]

            hexbytes = raw_data.encode('hex')
            num = int(hexbytes, 16)

            if self.is_signed and ord(raw_data[0]) > 127:
                num = -(self.base - num)

        setattr(pkt, self.field_name, num)
        return next_offset

    def _pack_fixed_size(self, pkt, fragments, **k):
        integer = getattr(pkt, self.field_name)

        try:
            data = integer.to_bytes(
                self.byte_count,
                byteorder='big' if self.is_bigendian else 'little',
                signed=self.is_signed
            )

        except AttributeError:
            num = (self.base + integer) if integer < 0 else integer

            xcode = "%%0%(count)ix" % {'count': self.byte_count * 2}
            data = (xcode % num).decode('hex')

            if not self.is_bigendian:
                data = data[::-1]

        fragments.append(data)
        return fragments
