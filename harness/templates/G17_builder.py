# template of kernel G17_builder: bisturi/packet_builder.py (written by harness/mktemplate.py; docstrings and comments do not count)
def _trace(pargs=[], pattrs=[], presult=False):
    def decorator(method):
        def wrapper(self, *args, **kargs):
            global __trace_indent

            who = getattr(self, '__name__', self.__class__.__name__)
            indent = " " * __trace_indent
            print(
                "{i}{who} {method}".format(
                    i=indent, who=who, method=method.__name__
                )
            )

            if pargs:
                print("{i}Args:".format(i=indent))
                for p in pargs:
                    try:
                        val = args[p]
                    except:
                        val = kargs[p]

                    print(
                        "{i}{arg}: {val}".format(
                            i=indent, arg=p, val=pprint.pformat(val)
                        )
                    )

            __trace_indent += 1
            try:
                result = method(self, *args, **kargs)
            finally:
                __trace_indent -= 1

            if pattrs:
                print("{i}Attrs post-call:".format(i=indent))
                for p in pattrs:
                    val = getattr(self, p)
                    print(
                        "{i}{arg}: {val}".format(
                            i=indent, arg=p, val=pprint.pformat(val)
                        )
                    )

            if presult:
                print(
                    "{i}Result: {val}".format(
                        i=indent, val=pprint.pformat(val)
                    )
                )

            return result

        if __trace_enabled:
            return wrapper
        else:
            return method

    return decorator

class PacketClassBuilder:
    def __init__(self, metacls, name, bases, attrs):
        self.metacls = metacls
        self.name = name
        self.bases = bases
        self.attrs = attrs

    def bisturi_configuration_default(self):
        return {}

    @_trace(pattrs=['bisturi_conf'])
    def make_configuration(self):
        defaults = self.bisturi_configuration_default()
        self.bisturi_conf = self.attrs.get('__bisturi__', defaults)

    def create_field_name_from_subpacket_name(self, subpacket_name):
        '''Helper method to transform names like CamelCase into camel_case'''
        name = subpacket_name[0].lower() + subpacket_name[1:]
        return "".join((c if c.islower() else "_" + c.lower()) for c in name)

    @_trace(pattrs=['fields_in_class', 'original_fields_in_class'])
    def collect_the_fields_from_class_definition(self):
        ''' Collect the fields of the packet and make new Ref fields
            from Packets "fields".

            Take something like this:

            class A(Packet):
                a = 1
                b = Int(2)
                c = Int(2)
                d = B       # B is a Packet subclass
                e = B()

            and collect [
                b->Int(2), c->Int(2),
                d->Ref(B), e->Ref(B()),
                ]
        '''
        from bisturi.packet import Packet
        from bisturi.field import Field
        from bisturi.field import Ref
        import inspect

        def make_a_field(name_and_field):
            name, field = name_and_field
            if isinstance(field, Field):
                return name, field  # return as it

            is_a_pkt_instance = isinstance(field, Packet)
            is_a_pkt_class = (
                inspect.isclass(field) and issubclass(field, Packet)
            )
            if is_a_pkt_class or is_a_pkt_instance:
                # make a Ref field from it
                newfield = Ref(prototype=field)
                newname = name

                return newname, newfield

            # anything else it is not a field so it should be filtered
            # out
            return None

        # Since Python 3.6 self.attrs (coming from the Metaclass
        # __new__) will be already ordered following the order in the
        # Packet class definition
        names_and_field = map(make_a_field, self.attrs.items())

        # Filter out non-field like objects (marked as None by the
        # previous step)
        names_and_field = filter(None, names_and_field)

        # Save the values from the iterator
        self.fields_in_class = list(names_and_field)

        # Preserve a copy because self.fields_in_class may be modified
        # later
        self.original_fields_in_class = list(self.fields_in_class)

    @_trace(pattrs=['fields'])
    def ask_to_each_field_to_describe_itself(self):
        ''' Ask to each field to describe itself. This should return for each
            field a list of names and fields which represent that original field.
            In most cases one field is described by only one field (itself) but
            there are cases where multiple field are needed.

            class A(Packet):
                a = Int(1)
                b = Int(2).at(0)

            The original list of fields should be [a->Int(1), b->Int(2)]
            but after the description of both fields we have a new list of fields:
                [a->Int(1), _shift_b_->Move(0), b->Int(2)]

            How each field is describe will depend of each field instance.
            See the method _describe_yourself of each Field subclass.
        '''
        self.fields = sum([field._describe_yourself(name, self.bisturi_conf) \
                            for name, field in self.fields_in_class], [])

    @_trace(pattrs=['slots'])
    def compile_fields_and_create_slots(self):
        ''' Compile each field, allowing them to optimize their pack/unpack
            methods.
            Also collect them and create the necessary slots to optimize the
            memory usage, then extend the slot list with the slots given by
            the user.
        '''
        def compile_field(position, name_and_field):
            _, field = name_and_field
            return field._compile(position, self.fields, self.bisturi_conf)

        additional_slots = self.bisturi_conf.get('additional_slots', [])
        self.slots = sum(
            map(compile_field, *zip(*enumerate(self.fields))), additional_slots
        )

    @_trace(pattrs=['slots'])
    def compile_descriptors_and_extend_slots(self):
        ''' Compile each field's descriptor if any and add their slots to the
            slot list.
        '''
        def has_descriptor(field):
            return field.descriptor is not None and hasattr(
                field.descriptor, '_compile'
            )

        self.slots += sum(
            (
                field.descriptor._compile(
                    name, field.descriptor_name, self.bisturi_conf
                ) for name, field in self.fields if has_descriptor(field)
            ), []
        )

    @_trace()
    def lookup_pack_unpack_methods(self):
        ''' The list of fields is transformed in a list of tuples with the
            pack/unpack methods of each field ready to be called avoiding a
            further lookup.

            Take this [a->Int(1), b->Int(2)] into
                [(a, Int(1), a.pack, a.unpack),
                 (b, Int(2), b.pack, b.unpack),
                 ]
        '''
        self.fields = [
            (name, field, field.pack, field.unpack)
            for name, field in self.fields
        ]

    @_trace(pattrs=['attrs'])
    def remove_fields_from_class_definition(self):
        ''' Remove from the class definition any field.
            Take this:
                class A(Packet):
                    a = 1
                    b = Int(2)

            and transform it into:
                class A(Packet):
                    a = 1
        '''
        for name, _ in self.original_fields_in_class:
            del self.attrs[name]

    @_trace(pattrs=['attrs', 'slots'])
    def add_descriptors_to_class_definition(self):
        ''' Add to the class definition any field's descriptor.
            It will replace a field by its descriptor.
            Take this:
                class A(Packet):
                    a = 1
                    b = Int(2).describe(Foo)

            and transform it into:
                class A(Packet):
                    a = 1
                    b = Foo()
        '''
        for name, field in self.fields:
            if field.descriptor:
                self.attrs[field.descriptor_name] = field.descriptor
                self.slots.remove(field.descriptor_name)

    @_trace()
    def collect_sync_methods_from_field_descriptors(self):
        self.sync_before_pack_methods = []
        self.sync_after_unpack_methods = []
        for name, field in self.fields:
            if field.descriptor:
                try:
                    self.sync_before_pack_methods.append(
                        field.descriptor.sync_before_pack
                    )
                except AttributeError:
                    pass

                try:
                    self.sync_after_unpack_methods.append(
                        field.descriptor.sync_after_unpack
                    )
                except AttributeError:
                    pass

    @_trace(pattrs=['metacls', 'name', 'bases', 'attrs', 'cls'])
    def create_class(self):
        ''' Create the class with the correct attributes and slots.
            If it is necessary, the original attributes (fields) can be access
            via the dictionary __bisturi__, key original_fields_in_class.
        '''
        self.bisturi_conf['original_fields_in_class'
                          ] = self.original_fields_in_class

        self.attrs['__slots__'] = self.slots
        self.attrs['__bisturi__'] = self.bisturi_conf

        self.cls = type.__new__(
            self.metacls, self.name, self.bases, self.attrs
        )

    @_trace()
    def add_get_fields_class_method(self):
        @classmethod
        def get_fields(cls):
            return self.fields

        self.cls.get_fields = get_fields

    @_trace()
    def add_sync_descriptor_class_methods(self):
        @classmethod
        def get_sync_before_pack_methods(cls):
            return self.sync_before_pack_methods

        @classmethod
        def get_sync_after_unpack_methods(cls):
            return self.sync_after_unpack_methods

        self.cls.get_sync_before_pack_methods = get_sync_before_pack_methods
        self.cls.get_sync_after_unpack_methods = get_sync_after_unpack_methods

    @_trace(pattrs=['am_in_debug_mode'])
    def check_if_we_are_in_debug_mode(self):
        ''' A class creation is in debug mode if one of its fields is
            a breakpoint (Bkpt).
        '''
        from bisturi.field import Bkpt
        self.am_in_debug_mode = any(
            (isinstance(field, Bkpt) for _, field in self.fields)
        )

    @_trace()
    def create_optimized_code(self):
        ''' Generate the optimized code for the pack and unpack methods and
            replace the original version for the optimized ones.

            The generation can be disabled partially with the configuration
            flags generate_for_pack/generate_for_unpack.
            And it is totally disabled if the class is in debug mode
            (see check_if_we_are_in_debug_mode)
        '''
        generate_by_default = True if not self.am_in_debug_mode else False

        generate_for_pack = self.cls.__bisturi__.get(
            'generate_for_pack', generate_by_default
        )
        generate_for_unpack = self.cls.__bisturi__.get(
            'generate_for_unpack', generate_by_default
        )

        vectorize = self.cls.__bisturi__.get('vectorize', True)
        annotate = self.cls.__bisturi__.get('annotate', True)

        bisturi.codegen.CodeGenerator(
            [
                (i, name_f[0], name_f[1])
                for i, name_f in enumerate(self.fields)
            ],
            self.cls,
            generate_for_pack,
            generate_for_unpack,
            sourcecode_by_field_name=self.sourcecode_by_field_name,
            vectorize=vectorize,
            annotate=annotate
        ).generate_code()

    @_trace()
    def get_packet_class(self):
        return self.cls

    @_trace()
    def create_collect_and_describe_the_field_list(self):
        ''' Given a class definition create any extra field necessary,
            then collect all of them and at last ask to each field to
            describe itself returning a final list of fields.
        '''
        self.collect_the_fields_from_class_definition()
        self.ask_to_each_field_to_describe_itself()

    @_trace()
    def compile_fields_and_descriptors_and_create_slots(self):
        ''' Each field and each descriptor is compiled, optimized and
            added to the list of slots.
        '''
        self.compile_fields_and_create_slots()
        self.compile_descriptors_and_extend_slots()

    @_trace()
    def collect_fields_sourcecode(self):
        import inspect, textwrap
        try:
            sourcelines, _ = inspect.getsourcelines(self.cls)
        except TypeError:
            self.sourcecode_by_field_name = {}
            return

        fields_names = [name for name, f in self.original_fields_in_class
                        ] + ["@@@@@@@@@@@@@@"]

        tmp = []
        last_field_name = None
        self.sourcecode_by_field_name = {}
        for name in fields_names:
            while sourcelines:
                line = sourcelines.pop(0)
                if line.strip().startswith(name
                                           ) or line.strip().startswith('#'):
                    tmp = textwrap.dedent(''.join(tmp))
                    tmp = textwrap.indent(tmp, '# ')
                    self.sourcecode_by_field_name[last_field_name] = tmp
                    tmp = [line]
                    last_field_name = name
                    break

                tmp.append(line)

        tmp = textwrap.dedent(''.join(tmp))
        tmp = textwrap.indent(tmp, '# ')
        self.sourcecode_by_field_name[last_field_name] = tmp

    @_trace()
    def create_packet_class_and_add_its_special_methods(self):
        self.create_class()
        self.collect_fields_sourcecode()
        self.add_get_fields_class_method()
        self.add_sync_descriptor_class_methods()

    @_trace()
    def remove_fields_from_and_add_descriptors_to_class_definition(self):
        self.remove_fields_from_class_definition()
        self.add_descriptors_to_class_definition()

    @_trace()
    def optimize_methods(self):
        self.check_if_we_are_in_debug_mode()
        self.lookup_pack_unpack_methods()
        self.create_optimized_code()

class PacketSpecializationClassBuilder:
    def __init__(self, metacls, name, bases, attrs):
        from bisturi.packet import Packet

        self.super_class = attrs['__bisturi__']['specialization_of']
        assert isinstance(self.super_class, Packet)

        original_fields_in_superclass = self.super_class.__bisturi__[
            'original_fields_in_class']
        specialized_fields = self.specialize_fields(
            attrs, original_fields_in_superclass
        )

        PacketClassBuilder.__init__(
            self, metacls, name, bases, specialized_attrs
        )

    def bisturi_configuration_default(self):
        return copy.deepcopy(self.super_class.__bisturi__)

    def specialize_fields(
        self, specialization_attrs, original_fields_in_superclass
    ):
        specialized_fields = copy.deepcopy(original_fields_in_superclass)
        for attrname, attrvalue in specialization_attrs:
            if isinstance(
                attrvalue, Field
            ) and attrname not in original_fields_in_superclass:
                raise Exception(
                    "You cannot add new fields like '%s'." % attrname
                )

            if isinstance(
                attrvalue, (
                    int,
                    bytes,
                )
            ) and attrname in original_fields_in_superclass:
                specialized_fields[
                    attrname
                ].default = attrvalue  # TODO the default or a constant??

            if isinstance(
                attrvalue, Field
            ) and attrname in original_fields_in_superclass:
                # TODO remove?
                #attrvalue.ctime = original_fields_in_superclass[
                #    attrname
                #].ctime  # override the creation time to keep the same order
                specialized_fields[attrname] = attrvalue

        return specialized_fields

class MetaPacket:
    def __new__(metacls, name, bases, attrs):
        if name == 'Packet' and bases == (object, ):
            attrs['__slots__'] = []
            return type.__new__(
                metacls, name, bases, attrs
            )  # Packet base class

        specialization_of = attrs.get('__bisturi__',
                                      {}).get('specialization_of', None)
        if specialization_of:
            builder = PacketSpecializationClassBuilder(
                metacls, name, bases, attrs
            )

        else:
            builder = PacketClassBuilder(metacls, name, bases, attrs)

        builder.make_configuration()

        builder.create_collect_and_describe_the_field_list()
        builder.compile_fields_and_descriptors_and_create_slots()

        builder.collect_sync_methods_from_field_descriptors()

        builder.remove_fields_from_and_add_descriptors_to_class_definition()
        builder.create_packet_class_and_add_its_special_methods()

        builder.optimize_methods()

        cls = builder.get_packet_class()
        return cls

