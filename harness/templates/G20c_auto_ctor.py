# template of kernel G20c_auto_ctor: bisturi/descriptor.py (written by harness/mktemplate.py; docstrings and comments do not count)
class Auto:
    def __init__(self, func):
        self.func = func

    def _compile(self, field_name, descriptor_name, bisturi_conf):
        self.iam_enabled_attr_name = "_is_descriptor_%s_enabled" % descriptor_name
        return [self.iam_enabled_attr_name]

