class Auto:
    def __get__(self, instance, owner):
        if instance is None:
            return self

        iam_enabled = getattr(instance, self.iam_enabled_attr_name, True)
        if iam_enabled:
            return self.func(instance)
        else:
            real_value = getattr(instance, self.real_field_name)
            return real_value

    def __set__(self, instance, val):
        setattr(instance, self.iam_enabled_attr_name, False)
        setattr(instance, self.real_field_name, val)

    def __delete__(self, instance):
        setattr(instance, self.iam_enabled_attr_name, True)

    def sync_before_pack(self, instance):
        val = self.__get__(instance, type(instance))
        setattr(instance, self.real_field_name, val)


class AutoLength:
    def __init__(self, length_of):
        self.length_of = length_of
        Auto.__init__(self, self.calculate_length)

    def calculate_length(self, instance):
        return len(getattr(instance, self.length_of))
