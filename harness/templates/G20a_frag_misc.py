# template of kernel G20a_frag_misc: bisturi/fragments.py (written by harness/mktemplate.py; docstrings and comments do not count)
class Fragments:
    def __init__(self, fill=b'.'):
        self.fragments = {}
        self.begin_of_fragments = []
        self.current_offset = 0
        self.fill = fill

    def __repr__(self):
        return pprint.pformat(sorted(self.fragments.items()))

    def __eq__(self, other):
        if isinstance(other, bytes):
            return self.tobytes() == other
        else:
            return self.tobytes() == other.tobytes()

