# template of kernel G20e_structural_regexp: bisturi/structural_fields.py (written by harness/mktemplate.py; docstrings and comments do not count)
class Sequence:
    def pack_regexp(self, pkt, fragments, **k):
        value = getattr(pkt, self.field_name)
        is_literal = not isinstance(value, Any)

        if is_literal:
            self.pack(pkt, fragments, **k)
        else:
            f = FragmentsOfRegexps()
            try:
                self.prototype_field.pack_regexp(pkt, f, **k)
                subregexp = f.assemble_regexp()
            except:
                subregexp = b".*"

            # TODO, fix this (fix the self.get_how_many_elements stuff)
            # (A)*
            fragments.append(b'(' + subregexp + b')*', is_literal=False)
            raise NotImplementedError("Not supported yet")
            if self.get_how_many_elements is None:
                fragments.append(b'(' + subregexp + b')*', is_literal=False)
            else:
                fragments.append(
                    b'(' + subregexp +
                    ("){%i}" % self.get_how_many_elements).encode('ascii'),
                    is_literal=False
                )

        return fragments

class Optional:
    def pack_regexp(self, pkt, fragments, **k):
        value = getattr(pkt, self.field_name)
        is_literal = not isinstance(value, Any)

        if is_literal:
            self.pack(pkt, fragments, **k)
        else:
            f = FragmentsOfRegexps()
            try:
                self.prototype_field.pack_regexp(pkt, f, **k)
                subregexp = f.assemble_regexp()
            except:
                subregexp = b".*"

            # (A)?
            fragments.append(b'(' + subregexp + b')?', is_literal=False)

        return fragments

