class Fragments:
    def append(self, string):
        self.insert(self.current_offset, string)

    def extend(self, iterable):
        for string in iterable:
            self.insert(self.current_offset, string)

    def insert(self, position, string):
        L = len(string)
        if HOLE_ins_is_empty:
            self.fragments.setdefault(position, string)
            self.current_offset = position
            return

        i = HOLE_ins_index
        if self.begin_of_fragments:
            b1 = self.begin_of_fragments[i]
            e1 = HOLE_ins_end1

            if HOLE_ins_hits_prev:
                raise Exception(HOLE_msg1)

            if HOLE_ins_has_next:
                b2 = self.begin_of_fragments[HOLE_ins_next_index]

                if HOLE_ins_hits_next:
                    e2 = HOLE_ins_end2
                    raise Exception(HOLE_msg2)

        self.begin_of_fragments.insert(HOLE_ins_slot, position)

        self.fragments[position] = string
        self.current_offset = HOLE_ins_new_cur

    def tobytes(self):
        begin = 0
        result = []
        for offset, s in sorted(self.fragments.items()):
            result.append(self.fill * HOLE_tb_gap)
            result.append(s)
            begin = HOLE_tb_next

        return b''.join(result)
