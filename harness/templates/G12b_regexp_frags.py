class FragmentRegEx:

    def __init__(self, regexp, length):
        self.length = length if length else 1
        self.regexp = regexp

    def __len__(self):
        return self.length

class FragmentsOfRegexps:

    def __init__(self, *args, **kargs):
        Fragments.__init__(self, *args, **kargs)
        self.regexp_by_position = {}

    def append(self, string, is_literal=True):
        assert isinstance(string, bytes)
        self.insert(self.current_offset, string, is_literal)

    def extend(self, iterable, is_literal=True):
        for string in iterable:
            assert isinstance(string, bytes)
            self.insert(self.current_offset, string, is_literal)

    def insert(self, position, string, is_literal=True):
        assert isinstance(string, bytes)
        if is_literal:
            regexp = re.escape(string)

        else:
            regexp = string
            string = b"x"

        Fragments.insert(self, position, string)

        if string or position not in self.regexp_by_position:
            self.regexp_by_position[position] = regexp

    def assemble_regexp(self):
        begin = 0
        result = []
        for p, regexp in sorted(self.regexp_by_position.items()):
            offset, string = p, self.fragments[p]

            hole_length = (offset - begin)
            if hole_length > 0:
                result.append(("(?:.{%i})" % hole_length).encode('ascii'))

            result.append(regexp)
            begin = max(begin, offset + len(string))

        return b''.join(result)
