class PacketError:

    def __init__(
        self, was_error_found_in_unpacking_phase, field_name,
        packet_class_name, offset, original_error_message
    ):
        Exception.__init__(self, "")
        self.original_traceback = "".join(
            traceback.format_exception(*sys.exc_info())[2:]
        )

        self.was_error_found_in_unpacking_phase = was_error_found_in_unpacking_phase
        self.fields_stack = [(offset, field_name, packet_class_name)]
        self.original_error_message = original_error_message

    def add_parent_field_and_packet(
        self, offset, field_name, packet_class_name
    ):
        self.fields_stack.append((offset, field_name, packet_class_name))

    def __str__(self):
        phase = "unpacking" if self.was_error_found_in_unpacking_phase else "packing"

        stack_details = []
        for offset, field_name, packet_class_name in reversed(
            self.fields_stack
        ):
            offset_and_pkt_class = "    %08x %s" % (offset, packet_class_name)
            first_part_len = len(offset_and_pkt_class)

            space = " " * max(44 - first_part_len, 1)

            line = "%s%s.%s" % (offset_and_pkt_class, space, field_name)
            stack_details.append(line)

        stack_details = "\n".join(stack_details)

        closer_field_offset, closer_field_name, closer_packet_class_name = self.fields_stack[
            0]
        msg = "Error when %s the field '%s' of packet %s at %08x: %s\nPacket stack details: \n%s\nField's exception:\n%s" % (
            phase, closer_field_name, closer_packet_class_name,
            closer_field_offset, self.original_error_message, stack_details,
            self.original_traceback
        )

        return msg

class Packet:

    @classmethod
    def unpack(cls, raw, offset=0, silent=False):
        if not isinstance(raw, bytes):
            raise ValueError(
                "The raw parameter must be 'bytes', not '%s'." % type(raw)
            )

        pkt = cls(_initialize_fields=False)
        try:
            pkt.unpack_impl(raw, offset, root=pkt)
            return pkt
        except PacketError as e:
            e.packet = pkt
            if silent:
                return None
            else:
                raise e from None
        except:
            if silent:
                return None
            else:
                raise

    def unpack_impl(self, raw, offset, **k):
        k['innermost-pkt-pos'] = offset
        try:
            for name, f, _, unpack in self.get_fields():
                offset = unpack(pkt=self, raw=raw, offset=offset, **k)
        except PacketError as e:
            e.add_parent_field_and_packet(
                offset, name, self.__class__.__name__
            )
            raise
        except Exception as e:
            raise PacketError(
                True, name, self.__class__.__name__, offset, str(e)
            ) from None

        [sync(self) for sync in self.get_sync_after_unpack_methods()]
        return offset

    def pack(self):
        fragments = Fragments()
        try:
            fragments = self.pack_impl(fragments, root=self)
            return fragments.tobytes()
        except PacketError as e:
            e.packet = self
            raise e from None

    def pack_impl(self, fragments, **k):
        k['innermost-pkt-pos'] = fragments.current_offset

        try:
            # the hooks of the described fields run first; a failing hook is
            # reported as a failure of the field it belongs to
            for sync in self.get_sync_before_pack_methods():
                name = getattr(
                    getattr(sync, '__self__', None), 'real_field_name', None
                )
                sync(self)

            for name, f, pack, _ in self.get_fields():
                pack(pkt=self, fragments=fragments, **k)
        except PacketError as e:
            e.add_parent_field_and_packet(
                fragments.current_offset, name, self.__class__.__name__
            )
            raise
        except Exception as e:
            raise PacketError(
                False, name, self.__class__.__name__, fragments.current_offset,
                str(e)
            ) from None

        return fragments

    def assert_consistency(self, dont_raise=False):
        try:
            self.__class__.unpack(self.pack())
            return True
        except:
            if dont_raise:
                return False
            raise
