# template of kernel G18_conditions: bisturi/structural_fields.py (written by harness/mktemplate.py; docstrings and comments do not count)
def normalize_raw_condition_into_a_callable(raw_condition):
    if callable(raw_condition):
        return raw_condition

    if isinstance(raw_condition, Field):
        raw_condition = convert_a_field_raw_condition_into_a_boolean_unary_expression(
            raw_condition
        )

    if isinstance(raw_condition, (UnaryExpr, BinaryExpr, NaryExpr)):
        raw_condition = compile_expr_into_callable(raw_condition)

    if callable(raw_condition):
        return raw_condition

    else:
        raise ValueError(
            "The argument condition must be a callable, a field or an expression of fields but is '%s'"
            % (repr(raw_condition))
        )

def convert_a_field_raw_condition_into_a_boolean_unary_expression(a_field):
    assert isinstance(a_field, Field)

    # the order is important here, ask first for nonzero only then for len.
    # otherwise if 'a_field' is an Optional field and the Optional field's value
    # resolves to None, None doesn't have a __len__ method.
    # Of course, None doesn't have a __nonzero__ methods neither but
    # we use 'operator.truth' as the implementation of __nonzero__
    # and operator.truth(None) is well defined.
    truth_methods = ('__nonzero__', '__len__')

    for method in truth_methods:
        if hasattr(a_field, method):
            return getattr(a_field, method)()

    raise Exception(
        "The field instance '%s' cannot be converted to a boolean value (it isn't an int nor a iterable)"
        % repr(a_field)
    )

def normalize_count_condition_into_a_callable(count_raw_condition):
    if callable(count_raw_condition):
        return count_raw_condition

    if isinstance(count_raw_condition, int):
        return lambda **k: count_raw_condition

    if isinstance(count_raw_condition, Field):
        field_name = count_raw_condition.field_name

        # aka int(count_raw_condition)
        count_raw_condition = lambda pkt, **k: getattr(pkt, field_name)

    if isinstance(count_raw_condition, (UnaryExpr, BinaryExpr, NaryExpr)):
        count_raw_condition = compile_expr_into_callable(count_raw_condition)

    if callable(count_raw_condition):
        return count_raw_condition

    else:
        raise ValueError(
            "The 'count' condition must be a callable, a field or an expression of fields but is '%s'"
            % (repr(count_raw_condition))
        )

class Sequence:
    def repeated(self, *args, **kargs):
        r''' Nop, you cannot repeat a sequence (repeat twice):

             >>> from bisturi.packet import Packet
             >>> from bisturi.field  import Int, Data, Ref

             >>> class Buggy(Packet):
             ...    i = Int(1).repeated(2).repeated(4)
             Traceback (most recent call last):
             <...>
             SyntaxError: You cannot repeat a sequence (more than one 'repeated' call is not allowed)<...>

             If you need this kind of 'list of list' behaviour you can do this:

             >>> class ListOfInts(Packet):
             ...    i = Int(1).repeated(2)

             >>> class NonBuggy(Packet):
             ...    i = Ref(ListOfInts).repeated(4)

             >>> raw = b'ABCDEFGH'
             >>> pkt = NonBuggy.unpack(raw)

             >>> [l_ints.i for l_ints in pkt.i]
             [[65, 66], [67, 68], [69, 70], [71, 72]]

             >>> pkt.pack() == raw
             True

             '''
        raise SyntaxError(
            "You cannot repeat a sequence (more than one 'repeated' call is not allowed): something like Int(1).repeated(...).repeated(...). "
            "See the documentation of Sequence.repeated for more info."
        )

    def when(self, *args, **kargs):
        r''' You cannot call 'when' of Sequence. Instead you can use the 'when'
             parameter of the Field.repeated method:

             >>> from bisturi.packet import Packet
             >>> from bisturi.field  import Int, Data, Ref

             >>> class Buggy(Packet):
             ...    t = Int(1)
             ...    i = Int(1).repeated(2).when(t)
             Traceback (most recent call last):
             <...>
             SyntaxError: You cannot call 'when' of Sequence<...>

             Instead you should do something like:

             >>> class NonBuggy(Packet):
             ...    t = Int(1)
             ...    i = Int(1).repeated(2, when=t)

             '''
        raise SyntaxError(
            "You cannot call 'when' of Sequence: something like Int(1).repeated(...).when(...). "
            "Instead you need to use the 'when' parameter of 'repeated': Int(1).repeated(..., when=...)."
        )

class Optional:
    def repeated(self, *args, **kargs):
        r''' Nop, you cannot repeat an optional argument:

             >>> from bisturi.packet import Packet
             >>> from bisturi.field  import Int, Data, Ref

             >>> class Buggy(Packet):
             ...    t = Int(1)
             ...    i = Int(1).when(t == 0).repeated(4)
             Traceback (most recent call last):
             <...>
             SyntaxError: You cannot repeat an optional argument<...>

             Instead you should do something like:

             >>> class NonBuggy(Packet):
             ...    t = Int(1)
             ...    i = Int(1).repeated(4, when = t == 0 )

             '''
        raise SyntaxError(
            "You cannot repeat an optional argument: something like Int(1).when(...).repeated(...). "
            "Instead you can pass the when condition to the 'repeated' method like Int(1).repeated(..., when=...). "
            "See the arguments of Field.repeated for more info."
        )

    def when(self, *args, **kargs):
        r''' This is an optional field already, you cannot chain 'when' conditions:

             >>> from bisturi.packet import Packet
             >>> from bisturi.field  import Int, Data, Ref

             >>> class Buggy(Packet):
             ...    t = Int(1)
             ...    i = Int(1).when(t > 0).when(t < 10)
             Traceback (most recent call last):
             <...>
             SyntaxError: You cannot make optional an already optional field<...>

             Instead you should do something like:

             >>> class NonBuggy(Packet):
             ...    t = Int(1)
             ...    i = Int(1).when((t > 0) & (t < 10))

             '''
        raise SyntaxError(
            "You cannot make optional an already optional field: something like Int(1).when(...).when(...). "
            "Instead you need to find a single condition that represent those two conditions into a single 'when' call."
        )

