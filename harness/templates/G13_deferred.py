def if_true_then_else(condition, possible_values):
    value_if_true, value_if_false = possible_values
    return value_if_true if bool(condition) else value_if_false

def chooses(index, options):
    return options[index]

def compile_expr(root_expr, ops=None, level=0, verbose=False):
    from bisturi.field import Field
    next_level = level + 1

    if ops is None:
        ops = Operations()

    if not isinstance(root_expr, (UnaryExpr, BinaryExpr, NaryExpr, Field)):
        # the identity function.
        # example: 42 -> [42]
        cb = lambda pkt, *vargs, **kargs: root_expr
        ops.append(0, cb, level, 'literal-value ' + repr(root_expr))

    elif isinstance(root_expr, NaryExpr):
        # root_expr is "op(x, list)" or "op(x, mapping)",
        # compile x then each element of list/mapping and append
        # a single element representing the whole list/mapping
        # and then the op
        #
        # example: foo(x, [y, z]) -> [x, (y, z), foo]
        # example: foo(x, {k1=y, k2=z}) -> [x, {k1=y, k2=z}, foo]
        left, arglist, argmapping, op = root_expr

        compile_expr(left, ops, level=next_level)

        assert arglist or argmapping
        assert not (arglist and argmapping)

        if arglist:
            n = len(arglist)
            for value in arglist:
                compile_expr(value, ops, level=next_level)

            cb = lambda *vargs: vargs
            ops.append(n, cb, level, 'arg-list')

        else:
            n = len(argmapping)
            keys, values = zip(*argmapping.items())
            for value in values:
                compile_expr(value, ops, level=next_level)

            cb = lambda *vargs: dict(zip(keys, vargs))
            ops.append(n, cb, level, 'arg-mapping')

        ops.append(2, op, level)

    elif isinstance(root_expr, BinaryExpr):
        # root_expr is "op(x, y)", compile x and y and append then op
        # example: x + y -> [x, y, +]
        l, r, op = root_expr
        compile_expr(l, ops, level=next_level)
        compile_expr(r, ops, level=next_level)
        ops.append(2, op, level)

    elif isinstance(root_expr, UnaryExpr):
        # root_expr is "op(x)", compile x and append then op
        # example: -x  -> [x, -]
        a, op = root_expr
        compile_expr(a, ops, level=next_level)
        ops.append(1, op, level)

    elif isinstance(root_expr, Field):
        if hasattr(root_expr, 'field_name'):
            field_name = root_expr.field_name
            cb = lambda pkt, *vargs, **kargs: getattr(pkt, field_name)
            ops.append(0, cb, level, 'field-lookup ' + repr(root_expr))
        else:
            cb = lambda pkt, *vargs, **kargs: root_expr
            ops.append(0, cb, level, 'literal-field-value ' + repr(root_expr))
    else:
        raise Exception("Invalid argument of type %s" % repr(type(root_expr)))

    return ops

def exec_compiled_expr(pkt, args, ops, *vargs, **kargs):
    args = list(args)

    for arg_count, op in ops:
        if arg_count == 0:
            result = op(pkt, *vargs, **kargs)
        else:
            result = op(*reversed(args[:arg_count]))
            del args[:arg_count]

        args.insert(0, result)

    assert len(args) == 1
    return args[0]

def compile_expr_into_callable(root_expr):
    ops = compile_expr(root_expr).as_list()
    args = []
    return lambda pkt, *vargs, **kargs: exec_compiled_expr(
        pkt, args, ops, *vargs, **kargs
    )

def _defer_method(
    target,
    methodname,
    op,
    is_binary,
    is_nary=False,
    swap_binary_arguments=False
):
    ''' Creates a method definition and set it to the given target
        (possible a class).

        The definition will be save under the given methodname.

        The method, once called, it will return a:
          - UnaryExpr if is_binary == False and is_nary == False
          - BinaryExpr if is_binary == True
          - NaryExpr if is_binary == False and is_nary == True

        All of these xxExpr are representation of the given operator
        (a unary, binary or nary operator).

        The idea is that calling x + 1 *does not* do the real addition.
        Instead, x + 1 returns a BinaryExpr between x and 1 with the
        addition as its associated operation.

        In this way we can defer the operation.
    '''
    if is_binary:
        if swap_binary_arguments:
            setattr(target, methodname, lambda A, B: BinaryExpr(B, A, op))
        else:
            setattr(target, methodname, lambda A, B: BinaryExpr(A, B, op))
    else:
        if is_nary:

            def nary(A, *B, **C):
                assert B or C
                assert not (B and C)

                is_keyword_call = bool(C)

                # nary supports different ways to call it:
                #   - keyword-arguments-only: nary(k1=v1, k2=v2)
                #   - dictionary: nary({k1: v1, k2: v2})
                #   - list/tuple: nary([v1, v2])
                #   - positional-arguments-only: nary(v1, v2)
                # the following code tries to see which way was chosen
                if not C and len(B) == 1:
                    if isinstance(B[0], dict):  # nary({k1: v1, k2: v2})
                        C = B[0]
                        B = []
                    elif isinstance(B[0], (list, tuple)):  # nary([v1, v2])
                        B = B[0]
                        C = {}

                    else:
                        raise Exception(
                            "Invalid argument for nary expression '%s'. Valid arguments can be a single list or dict (like nary([a, b]) or nary({k1: a, k2: b})), a list of arguments (like nary(a, b)) or a keyword arguments call (like nary(k1=a, k2=b))."
                            % methodname
                        )

                elif C:  # nary(k1=v1, k2=v2)

                    def _encode_to_ascii_or_fail(obj):
                        if not isinstance(obj, str):
                            return obj  # as is

                        try:
                            return obj.encode('ascii')
                        except:
                            raise Exception(
                                "Invalid argument for nary expression '%s'. Your are using a keyword arguments call (like nary(k1=a, k2=b)) where the keywords aren't valid ascii names (chars between 0 and 128)."
                                % methodname
                            )

                    C = {_encode_to_ascii_or_fail(k): v for k, v in C.items()}

                # else  --> nary(v1, v2)

                # after the processing of above we should have:
                #   - A being the first argument of the nary operation
                #   - B being the next N arguments as a list
                #   - C being the next M arguments as a dictionary
                # the nary operation may operate over A and B or A and C
                # but never over A and B and C
                assert B or C
                assert not (B and C)
                return NaryExpr(A, B, C, op)

            setattr(target, methodname, nary)
        else:
            setattr(target, methodname, lambda A: UnaryExpr(A, op))
