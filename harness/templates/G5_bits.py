class Bits:
    def __init__(self, bit_count, default=0):
        Field.__init__(self)
        self.default = default
        self.mask = HOLE_b_init_mask
        self.bit_count = bit_count

        self.iam_first = self.iam_last = False

    @exec_once
    def _compile(self, position, fields, bisturi_conf):
        slots = Field._compile_impl(self, position, fields, bisturi_conf)

        if position == 0 or not isinstance(fields[position - 1][1], Bits):
            self.iam_first = True

        if position == len(fields) - 1 or not isinstance(
            fields[position + 1][1], Bits
        ):
            self.iam_last = True

        if self.iam_last:
            cumshift = 0
            I = Int()
            self.members = []
            for n, f in reversed(fields[:position + 1]):
                if not isinstance(f, Bits):
                    break

                f.shift = cumshift
                f.mask = HOLE_b_mask
                f.I = I

                self.members.append((n, f.bit_count))

                cumshift += HOLE_b_cum
                del f.bit_count

            self.members.reverse()
            name_of_members, bit_sequence = zip(*self.members)

            if not HOLE_b_boundary_ok:
                raise Bits.ByteBoundaryError(HOLE_b_msg)

            I.byte_count = HOLE_b_bytes
            fname = "_bits__" + "_".join(name_of_members)
            I.field_name = fname
            I._compile(position=-1, fields=[], bisturi_conf={})

            slots.append(fname)
        return slots

    def unpack(self, pkt, raw, offset=0, **k):
        if self.iam_first:
            offset = self.I.unpack(pkt, raw, offset, **k)

        I = getattr(pkt, self.I.field_name)

        setattr(pkt, self.field_name, HOLE_b_get)
        return offset

    def pack(self, pkt, fragments, **k):
        I = getattr(pkt, self.I.field_name)
        setattr(
            pkt, self.I.field_name,
            HOLE_b_put
        )

        if self.iam_last:
            return self.I.pack(pkt, fragments=fragments, **k)
        else:
            return fragments
