class Field:

    def init(self, packet, defaults):
        ''' Initialize the field based on the default.
            This must set a 'field_name' attribute in the packet.'''
        try:
            obj = defaults[self.field_name]
        except KeyError:
            obj = copy.deepcopy(self.default)

        setattr(packet, self.field_name, obj)

class Int:

    def init(self, packet, defaults):
        setattr(
            packet, self.field_name,
            defaults.get(self.field_name, self.default)
        )

class Data:

    def init(self, packet, defaults):
        setattr(
            packet, self.field_name,
            defaults.get(self.field_name, self.default)
        )

class Ref:

    def _lets_find_a_nice_default(self, prototype, default):
        if callable(prototype) or isinstance(
            prototype, (UnaryExpr, BinaryExpr, NaryExpr)
        ):
            if default is None:
                raise ValueError(
                    "If your are using an expression of fields or a callable as the prototype of Ref I need a default object."
                )

            self.default = default

        elif isinstance(prototype, Packet):
            if default is not None:
                raise ValueError(
                    "We don't need a default object, we will be using the prototype object instead."
                )

            self.default = copy.deepcopy(prototype)

        else:
            assert False

    def init(self, packet, defaults):
        # we use our prototype to get a valid default if the prototype is not a
        # callable in the other case, we use self.default.
        prototype = self.prototype
        if isinstance(prototype, Prototype):
            if self.field_name not in defaults:
                defaults[self.field_name] = prototype.clone()

            Field.init(self, packet, defaults)

        else:
            assert callable(self.prototype)
            default = self.default
            if isinstance(default, Prototype):
                if self.field_name not in defaults:
                    defaults[self.field_name] = default.clone()

            Field.init(self, packet, defaults)

class Bits:

    def init(self, packet, defaults):
        if self.iam_first:
            setattr(packet, self.I.field_name, 0)

        setattr(
            packet, self.field_name,
            defaults.get(self.field_name, self.default)
        )

class Em:

    def init(self, packet, defaults):
        pass
