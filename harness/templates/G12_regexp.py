class Int:

    def pack_regexp(self, pkt, fragments, **k):
        value = getattr(pkt, self.field_name)
        is_literal = not isinstance(value, Any)

        if is_literal:
            self.pack(pkt, fragments, **k)
        else:
            fragments.append(
                (".{%i}" % self.byte_count).encode('ascii'), is_literal=False
            )

        return fragments

class Data:

    def pack_regexp(self, pkt, fragments, **k):
        value = getattr(pkt, self.field_name)
        is_literal = not isinstance(value, Any)

        if is_literal:
            self.pack(pkt, fragments, **k)

        else:
            custom_regexp = (
                value.regexp.pattern if value.regexp is not None else b".*"
            )
            if self.byte_count is not None:
                if isinstance(self.byte_count, int):
                    byte_count = self.byte_count

                elif isinstance(self.byte_count, Field):
                    byte_count = getattr(pkt, self.byte_count.field_name)

                elif callable(self.byte_count):
                    try:
                        byte_count = self.byte_count(pkt=pkt, **k)
                    except Exception as e:
                        byte_count = None

                    # the callable may have looked at a field which is not
                    # fixed in this pattern (an Any compares equal to
                    # everything): its result says nothing about the size
                    if any(
                        isinstance(getattr(pkt, name, None), Any)
                        for name, _, _, _ in pkt.get_fields()
                        if name != self.field_name
                    ):
                        byte_count = None

                if isinstance(byte_count, Any):
                    byte_count = None

                if byte_count is not None:
                    # TODO ignoring the custom regexp!!
                    fragments.append(
                        (".{%i}" % byte_count).encode('ascii'),
                        is_literal=False
                    )
                else:
                    fragments.append(custom_regexp, is_literal=False)

            else:
                endswith = (
                    re.escape(self.until_marker)
                    if isinstance(self.until_marker, bytes) else
                    b"(?:" + self.until_marker.pattern + b")"
                )
                if self.include_delimiter and value.regexp is not None:
                    # the value holds its delimiter: the conditions of the
                    # placeholder already speak about it
                    fragments.append(custom_regexp, is_literal=False)
                else:
                    fragments.append(
                        custom_regexp + endswith, is_literal=False
                    )

        return fragments

class Bits:

    def pack_regexp(self, pkt, fragments, **k):
        if self.iam_last:
            bits = []
            for name, bit_count in self.members:
                is_literal = not isinstance(getattr(pkt, name), Any)

                if is_literal:
                    b = bin(getattr(pkt, name))[2:]
                    zeros = bit_count - len(b)

                    bits.append("0" * zeros)
                    bits.append(b)
                else:
                    bits.append("x" * bit_count)

            bits = "".join(bits)
            bytes_ = [
                bits[0 + (i * 8):8 + (i * 8)] for i in range(len(bits) // 8)
            ]

            for byte in bytes_:
                if byte == "x" * 8:
                    # xxxx xxxx pattern (all dont care)
                    fragments.append(b".{1}", is_literal=False)
                else:
                    first_dont_care = byte.find("x")
                    if first_dont_care == -1:
                        # 0000 0000 pattern (all fixed)
                        char = bytes([int(byte, 2)])
                        fragments.append(char, is_literal=True)

                    elif byte[first_dont_care:] == "x" * len(
                        byte[first_dont_care:]
                    ):
                        # 00xx xxxx pattern (lower dont care)
                        dont_care_bits = len(byte[first_dont_care:])

                        lower_bin = byte[:first_dont_care] + (
                            "0" * dont_care_bits
                        )
                        higher_bin = byte[:first_dont_care] + (
                            "1" * dont_care_bits
                        )
                        lower_char = bytes([int(lower_bin, 2)])
                        higher_char = bytes([int(higher_bin, 2)])

                        lower_literal = re.escape(lower_char)
                        higher_literal = re.escape(higher_char)

                        # [lower-higher]
                        fragments.append(b'[' + \
                                          lower_literal + \
                                          b'-' + \
                                          higher_literal + \
                                          b']', is_literal=False)

                    else:
                        # 00xx x0x0 pattern (mixed pattern)
                        all_patterns = range(256)
                        fixed_pattern = int(byte.replace("x", "0"), 2)
                        dont_care_mask = int(
                            byte.replace("1", "0").replace("x", "1"), 2
                        )

                        mixed_patterns = sorted(
                                            set((p & dont_care_mask) | \
                                            fixed_pattern for p in all_patterns))

                        # [ABCD....]
                        literal_patterns = (re.escape(bytes([p])) \
                                                        for p in mixed_patterns)
                        fragments.append(b'[' + \
                                         b''.join(literal_patterns) + \
                                         b']', is_literal=False)

        return fragments
