class Move:
    def __init__(self, move_arg, reference, is_alignment):
        Field.__init__(self)
        self.move_arg = move_arg
        self.reference = reference
        self.is_alignment = is_alignment
        self.default = b''

    def init(self, packet, defaults):
        pass

    def unpack(self, pkt, raw, offset=0, **k):
        if isinstance(self.move_arg, Field):
            move_value = getattr(pkt, self.move_arg.field_name)

        elif isinstance(self.move_arg, int):
            move_value = self.move_arg

        else:
            assert callable(self.move_arg)
            move_value = self.move_arg(pkt=pkt, raw=raw, offset=offset, **k)

        if self.is_alignment:
            if self.reference == 'begins':
                start = HOLE_u_start_begins
            elif self.reference == 'current-offset':
                start = HOLE_u_start_cur
            elif self.reference == 'innermost-pkt':
                start = HOLE_u_start_inner
            else:
                raise Exception()

            offset = HOLE_u_align
        else:
            if self.reference == 'begins':
                offset = HOLE_u_jump_begins
            elif self.reference == 'current-offset':
                offset = HOLE_u_jump_cur
            elif self.reference == 'innermost-pkt':
                offset = HOLE_u_jump_inner
            else:
                raise Exception()

        if HOLE_u_neg:
            raise Exception(HOLE_u_msg)

        return offset

    def pack(self, pkt, fragments, **k):
        if isinstance(self.move_arg, Field):
            move_value = getattr(pkt, self.move_arg.field_name)

        elif isinstance(self.move_arg, int):
            move_value = self.move_arg

        else:
            assert callable(self.move_arg)
            move_value = self.move_arg(pkt=pkt, fragments=fragments, **k)

        assert isinstance(self.is_alignment, bool)
        offset = fragments.current_offset
        if self.is_alignment:
            if self.reference == 'begins':
                start = HOLE_p_start_begins
            elif self.reference == 'current-offset':
                start = HOLE_p_start_cur
            elif self.reference == 'innermost-pkt':
                start = HOLE_p_start_inner
            else:
                raise Exception()

            offset += HOLE_p_align
        else:
            if self.reference == 'begins':
                offset = HOLE_p_jump_begins
            elif self.reference == 'current-offset':
                offset += HOLE_p_jump_cur
            elif self.reference == 'innermost-pkt':
                offset = HOLE_p_jump_inner
            else:
                raise Exception()

        if HOLE_p_neg:
            raise Exception(HOLE_p_msg)

        fragments.current_offset = offset
        return fragments
