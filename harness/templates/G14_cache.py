class CodeGenerator:
    def generate_code(self):
        HOLE_STMTS_build

        # From which file we got the packet class?
        try:
            pkt_definition_fpath = inspect.getfile(self.pkt_class)
        except TypeError:
            # For builtins packet classes (like the ones created in a
            # interactive shell session) will not have a file associated
            # Assume current workign directory as the location for the code
            # generated
            pkt_definition_fpath = './__main__.py'

        pkt_definition_fpath = os.path.abspath(pkt_definition_fpath)

        # We will write the generated code in the same folder
        # that the file above was found, so get its path
        folder = os.path.dirname(pkt_definition_fpath)

        # But put the code in a subfolder named __pkts__
        folder = os.path.join(folder, '__pkts__')

        # Get also the name of the filename (without the extension)
        pkt_definition_module = os.path.splitext(
            os.path.basename(pkt_definition_fpath)
        )[0]

        # Create the new module name based on the original module name
        # and packet class name
        module_name = "%s_%s" % (
            pkt_definition_module, self.pkt_class.__name__
        )

        # Full path for the new module
        module_pathname = os.path.join(folder, module_name + ".py")

        def is_ours(module):
            # a module is good only if it carries our cookie and the code:
            # a file torn by an older version may have the first but not
            # the second
            return bool(module) and getattr(
                module, 'BISTURI_PACKET_COOKIE_AT_END', None
            ) == cookie and (
                not self.generate_for_pack or hasattr(module, 'pack_impl')
            ) and (
                not self.generate_for_unpack or hasattr(module, 'unpack_impl')
            )

        # Try to import it first, if exists
        module = None
        if os.path.exists(module_pathname):
            try:
                # always a fresh module: nothing of a previous load must
                # survive in its namespace
                sys.modules.pop(module_name, None)
                module = SourceFileLoader(module_name,
                                          module_pathname).load_module()
            except Exception:
                # a truncated, broken or foreign file is as good as no file
                module = None

        # If no previously written module exists or its cooke does not match
        # ours, recreate the file and reload it
        if not is_ours(module):
            # Delete the compiled file (.pyc)
            if module and hasattr(module, '__cached__'):
                module_compiled_filename = module.__cached__
            else:
                module_compiled_filename = module_name + ".pyc"

            try:
                os.remove(module_compiled_filename)
            except OSError:
                # not there, or removed by somebody else in the meantime
                pass

            # creates folder to host our generated code
            os.makedirs(folder, exist_ok=True)

            # write the module aside and rename it into place so nobody
            # can ever see (and load) a half written file
            # the cookie goes last: a file that has it is a complete file
            source = import_code + pack_code + unpack_code + cookie_code
            tmp_pathname = "%s.%i.tmp" % (module_pathname, os.getpid())
            with open(tmp_pathname, 'w') as module_file:
                module_file.write(source)

            os.replace(tmp_pathname, module_pathname)

            # load it (again); somebody else may have replaced the file in
            # the meantime with the code of another packet class so we trust
            # in it only if it carries our cookie
            try:
                sys.modules.pop(module_name, None)
                module = SourceFileLoader(module_name,
                                          module_pathname).load_module()
            except Exception:
                module = None

            if not is_ours(module):
                module = types.ModuleType(module_name)
                exec(
                    compile(source, module_pathname, 'exec'), module.__dict__
                )

        from bisturi.packet import Packet
        if self.generate_for_pack and (
            self.pkt_class.pack_impl == Packet.pack_impl
        ):
            self.pkt_class.pack_impl = module.pack_impl

        if self.generate_for_unpack and (
            self.pkt_class.unpack_impl == Packet.unpack_impl
        ):
            self.pkt_class.unpack_impl = module.unpack_impl
