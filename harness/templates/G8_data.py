class Data:
    def pack(self, pkt, fragments, **k):
        r = getattr(pkt, self.field_name) + self.delimiter_to_be_included
        fragments.append(r)
        return fragments

    def _unpack_fixed_size(self, pkt, raw, offset=0, **k):
        byte_count = self.byte_count
        next_offset = HOLE_d_next1

        chunk = raw[offset:next_offset]
        if HOLE_d_short1:
            raise Exception(HOLE_d_msg1)

        setattr(pkt, self.field_name, chunk)
        return next_offset

    def _unpack_variable_size_field(self, pkt, raw, offset=0, **k):
        byte_count = getattr(pkt, self.byte_count.field_name)
        next_offset = HOLE_d_next2

        chunk = raw[offset:next_offset]
        if HOLE_d_short2:
            raise Exception(HOLE_d_msg2)

        setattr(pkt, self.field_name, chunk)
        return next_offset

    def _unpack_variable_size_callable(self, pkt, raw, offset=0, **k):
        byte_count = self.byte_count(pkt=pkt, raw=raw, offset=offset, **k)
        next_offset = HOLE_d_next3

        chunk = raw[offset:next_offset]
        if HOLE_d_short3:
            raise Exception(HOLE_d_msg3)

        setattr(pkt, self.field_name, chunk)
        return next_offset

    def _unpack_with_string_marker(self, pkt, raw, offset=0, **k):
        until_marker = self.until_marker

        if self._search_buffer_length:
            max_next_offset_allowed = HOLE_d_win_end1
            search_buffer = raw[offset:max_next_offset_allowed]
        else:
            search_buffer = raw[offset:]

        count = search_buffer.find(until_marker)
        assert HOLE_d_found

        extra_count = 0
        if self.include_delimiter:
            count += HOLE_d_incl_add
        else:
            self.delimiter_to_be_included = until_marker
            if self.consume_delimiter:
                extra_count = HOLE_d_extra

        next_offset = HOLE_d_next4
        setattr(pkt, self.field_name, raw[offset:next_offset])

        return HOLE_d_ret4

    def _unpack_with_regexp_marker(self, pkt, raw, offset=0, **k):
        until_marker = self.until_marker

        if self._search_buffer_length:
            max_next_offset_allowed = HOLE_d_win_end2
            search_buffer = raw[offset:max_next_offset_allowed]
        else:
            search_buffer = raw[offset:]

        extra_count = 0
        if until_marker.pattern == b"$":
            count = HOLE_d_eos_count
        else:
            match = until_marker.search(
                search_buffer, 0
            )
            if match:
                if self.include_delimiter:
                    count = match.end()
                else:
                    count = match.start()
                    if self.consume_delimiter:
                        extra_count = HOLE_d_rx_extra
                    self.delimiter_to_be_included = match.group()
            else:
                assert False

        next_offset = HOLE_d_next5
        setattr(pkt, self.field_name, raw[offset:next_offset])

        return HOLE_d_ret5
