class Ref:

    def __init__(self, prototype, default=None, embed=False):
        Field.__init__(self)

        self.default = default

        if isinstance(prototype, type):
            # get an object, this allows write Ref(PacketClass)
            # instead of Ref(PacketClass())
            prototype = prototype()

        if not isinstance(prototype, Packet) and not callable(prototype) and \
                not isinstance(prototype, (UnaryExpr, BinaryExpr, NaryExpr)):
            raise ValueError(
                "The prototype of a Ref field must be a packet (class or instance), an expression of fields or a callable that should return a Field or a Packet."
            )

        self._lets_find_a_nice_default(prototype, default)

        if embed and not isinstance(prototype, Packet):
            raise ValueError(
                "The prototype must be a Packet if you want to embed it."
            )

        self.prototype = prototype
        self.embed = embed

    def _describe_yourself(self, field_name, bisturi_conf):
        desc = Field._describe_yourself(self, field_name, bisturi_conf)
        if self.embed:
            desc.extend(
                [(fname, f) for fname, f, _, _ in self.prototype.get_fields()]
            )

        return desc

    @exec_once
    def _compile(self, position, fields, bisturi_conf):
        slots = Field._compile_impl(self, position, fields, bisturi_conf)

        self.position = position

        prototype = self.prototype
        if isinstance(prototype, Packet):
            self.unpack = self._unpack_referencing_a_packet
            self.pack = self._pack_referencing_a_packet
            self.prototype = prototype.as_prototype()
            self.proto_class = prototype.__class__

        else:
            assert callable(prototype) or isinstance(
                prototype, (UnaryExpr, BinaryExpr, NaryExpr)
            )
            from bisturi.structural_fields import normalize_raw_condition_into_a_callable
            self.prototype = normalize_raw_condition_into_a_callable(prototype)
            prototype = self.prototype

            if isinstance(self.default, Prototype):
                self.default = self.default.as_prototype()

            self.unpack = self._unpack_using_callable
            self.pack = self._pack_with_callable

        if self.embed:
            assert isinstance(prototype, Packet)
            self.pack = self.pack_noop
            self.unpack = self.unpack_noop

        assert not isinstance(self.prototype, Packet)
        assert isinstance(self.prototype,
                          Prototype) or callable(self.prototype)
        return slots

    def _unpack_using_callable(self, pkt, raw, offset=0, **k):
        referenced = self.prototype(pkt=pkt, raw=raw, offset=offset, **k)

        if isinstance(referenced, Field):
            referenced.field_name = self.field_name
            referenced._compile(
                position=self.position, fields=[], bisturi_conf={}
            )
            referenced.init(pkt, {})

            return referenced.unpack(pkt=pkt, raw=raw, offset=offset, **k)

        assert isinstance(referenced, Packet)

        # the callable may hand out the same instance every time (a deferred
        # expression like chooses({..: Pkt()}) always does): every parse
        # fills its own copy
        referenced = referenced.as_prototype().clone()

        setattr(pkt, self.field_name, referenced)
        return referenced.unpack_impl(raw, offset, **k)

    def _pack_with_callable(self, pkt, fragments, **k):
        # this can be a Packet or can be anything (but not a Field: it could be
        # a 'int' for example but not a 'Int')
        obj = getattr(pkt, self.field_name)
        if isinstance(obj, Packet):
            return obj.pack_impl(fragments=fragments, **k)

        # we try to know how to pack this value
        assert callable(self.prototype)
        # TODO add more parameters, like raw=partial_raw
        referenced = self.prototype(
            pkt=pkt, fragments=fragments, packing=True, **k
        )

        if isinstance(referenced, Field):
            referenced.field_name = self.field_name
            referenced._compile(
                position=self.position, fields=[], bisturi_conf={}
            )
            #referenced.init(pkt, {})

            return referenced.pack(pkt, fragments, **k)

        # well, we are in a dead end: the 'obj' object IS NOT a Packet,
        # it is a "primitive" value however, the 'referenced' object IS
        # a Packet and we cannot do anything else
        raise NotImplementedError(
            "I have a value to pack of type '%s' and because it is not a Packet instance I don't know how to pack it. The prototype of this Ref field is a callable so I called it hoping to receive a Field instance to show me how to pack the value but instead I received a '%s' so I'm stuck."
            % (type(obj), type(referenced))
        )

    def _unpack_referencing_a_packet(self, pkt, **k):
        p = self.proto_class(_initialize_fields=False)
        setattr(pkt, self.field_name, p)
        return p.unpack_impl(**k)

    def _pack_referencing_a_packet(self, pkt, fragments, **k):
        return getattr(pkt,
                       self.field_name).pack_impl(fragments=fragments, **k)

class Field:

    def _describe_yourself(self, field_name, bisturi_conf):
        ''' Given a name and a configuration, set the name of this field
            and return the list of tuples that describe this field.
            Each tuple contains the name of the field and the value of the
            field.

            The most simple case is a description that consists in a list of one
            tuple
                [(my name, myself)]
            but it is possible that a field requires more than one tuple to
            describe.
            For example, Int(1).at(x) requires two tuples one about the movement
            (at) and the other about the int itself like:
                [(my move's name, Move(x)), (my name, myself)]
            '''
        from bisturi.structural_fields import Move

        self.field_name = field_name
        if self.move_arg is None and 'align' in bisturi_conf:
            self.aligned(to=bisturi_conf['align'])

        if self.descriptor:
            self.descriptor_name = field_name

            # The original field name will be used by the descriptor. We (field)
            # use a hidden field name instead
            self.field_name = "_described_%s" % field_name
            field_name = self.field_name

            # Notify to the descriptor both attribute names
            self.descriptor.descriptor_name = self.descriptor_name
            self.descriptor.real_field_name = self.field_name

        if self.move_arg is None:
            return [(field_name, self)]

        else:
            m = Move(self.move_arg, self.reference, self.is_alignment)
            m.field_name = "_shift_to_%s" % field_name
            return [(m.field_name, m), (field_name, self)]

    @exec_once
    def _compile(self, position, fields, bisturi_conf):
        ''' Realize all the optimizations available and return a list of names
            which will be the __slots__ of the packet class. This is the time
            to realize all the optimizations in terms of speed and memory as
            you can. '''
        # Don't call this from a subclass. Call _compile_impl directly.
        return self._compile_impl(position, fields, bisturi_conf)

    def _compile_impl(self, position, fields, bisturi_conf):
        slots = [self.field_name]
        if self.descriptor:
            slots.append(self.descriptor_name)

        return slots

    def repeated(
        self, count=None, until=None, when=None, default=None, aligned=None
    ):
        r''' The sequence can be set to a fixed amount of elements with the
            'count' parameter which can be a number, a field, an expression of
            fields or even an arbitrary callable.
            In any case the parameter must be resolved to a positive integer.

            On the other hand, the sequence can set an 'until' condition.
            In this case the sequence will stop only when the until condition
            gives a true value.

            The 'count' and the 'until' parameter are exclusive: one and only
            one of them must be set.

            The 'when' condition can be used to make the whole sequence
            optional. If the when condition is not met, the sequence will be
            resolved to an empty list.

            >>> from bisturi.packet import Packet
            >>> from bisturi.field  import Int, Data, Ref

            >>> class Bag(Packet):
            ...     num = Int(1)
            ...     objects = Int(1).repeated(num)

            >>> class Box(Packet):
            ...     bags = Ref(Bag).repeated(until=lambda pkt, **k: pkt.bags[-1].num == 0)

            >>> pkt = Box(bags=[Bag(num=1, objects=[2]), Bag()])
            >>> len(pkt.bags)
            2
            >>> [(bag.num, bag.objects) for bag in pkt.bags]
            [(1, [2]), (0, [])]

            >>> pkt.pack() == b'\x01\x02\x00'
            True

            >>> raw = b'\x02\x01\x02\x01\x04\x00'
            >>> pkt = Box.unpack(raw)

            >>> len(pkt.bags)
            3
            >>> [(bag.num, bag.objects) for bag in pkt.bags]
            [(2, [1, 2]), (1, [4]), (0, [])]

            >>> pkt.pack() == raw
            True

            The 'aligned' parameter control how the elements of the sequence are
            packed (aligned) one each other.

            >>> class Room(Packet):
            ...     tight = Ref(Box).repeated(2, default=[Box(bags=[Bag()]), Box(bags=[Bag()])])
            ...     no_so_tight = Ref(Box).repeated(2, aligned=6, default=[Box(bags=[Bag()]), Box(bags=[Bag()])])

            >>> pkt = Room()
            >>> [sum((bag.objects for bag in box.bags), []) for box in pkt.tight]
            [[], []]
            >>> [sum((bag.objects for bag in box.bags), []) for box in pkt.no_so_tight]
            [[], []]

            >>> pkt.pack() == b'\x00\x00....\x00.....\x00'
            True

            >>> raw = b'\x01A\x00\x02BC\x00.....\x01A\x00...\x02BC\x00'
            >>> pkt = Room.unpack(raw)

            >>> [sum((bag.objects for bag in box.bags), []) for box in pkt.tight]
            [[65], [66, 67]]
            >>> [sum((bag.objects for bag in box.bags), []) for box in pkt.no_so_tight]
            [[65], [66, 67]]

            >>> pkt.pack() == raw
            True

            '''
        from bisturi.structural_fields import Sequence
        return Sequence(
            prototype=self,
            count=count,
            until=until,
            when=when,
            default=default,
            aligned=aligned
        )

    def when(self, condition, default=None):
        r''' A field can be set as optional based on a 'when' condition.
             This one can be a field, an expression of fields or an arbitrary
             callable that resolves to a boolean value: True if the field must
             be parsed or False otherwise.

             If a field is not parsed, None is used as the value for that field.

             The 'when' condition has no effect neither in a default packet nor
             during the packing phase.

             >>> from bisturi.packet import Packet
             >>> from bisturi.field  import Int, Data, Ref

             >>> class Example(Packet):
             ...     type = Int(1)
             ...     nonzero_msg = Data(2).when(type)
             ...     typeone_msg = Data(2).when(type == 1)

             >>> pkt = Example(nonzero_msg=b'X') # notice how all the fields are set...
             >>> (pkt.type, pkt.nonzero_msg, pkt.typeone_msg) # the when is ignored
             (0, b'X', None)

             >>> pkt.nonzero_msg = b'AB'
             >>> pkt.typeone_msg = b'CD'
             >>> pkt.pack() == b'\x00ABCD' # the when is ignored here too
             True

             >>> raw = b'\x00AB'
             >>> pkt = Example.unpack(raw) # here when is honored (both field...
             >>> (pkt.type, pkt.nonzero_msg, pkt.typeone_msg) # aren't parsed)
             (0, None, None)

             >>> pkt.pack() == b'\x00'
             True

             >>> raw = b'\x02AB'
             >>> pkt = Example.unpack(raw)
             >>> (pkt.type, pkt.nonzero_msg, pkt.typeone_msg)
             (2, b'AB', None)

             >>> raw = b'\x01ABCD'
             >>> pkt = Example.unpack(raw)
             >>> (pkt.type, pkt.nonzero_msg, pkt.typeone_msg)
             (1, b'AB', b'CD')

             >>> pkt.pack() == raw
             True

             '''

        from bisturi.structural_fields import Optional
        return Optional(prototype=self, when=condition, default=default)

    def at(self, position, reference='innermost-pkt'):
        assert reference in ('innermost-pkt', 'begins', 'current-offset')
        self.move_arg = position
        self.reference = reference
        self.is_alignment = False
        return self

    def shift(self, position):
        self.move_arg = position
        self.reference = 'current-offset'
        self.is_alignment = False
        return self

    def aligned(self, to, reference='begins'):
        assert reference in ('innermost-pkt', 'begins', 'current-offset')
        self.move_arg = to
        self.reference = reference
        self.is_alignment = True
        return self

    def describe(self, descriptor):
        self.descriptor = descriptor
        return self

class Em:

    @exec_once
    def _compile(self, position, fields, bisturi_conf):
        return []

    def unpack(self, pkt, raw, offset=0, **k):
        return offset

    def pack(self, pkt, fragments, **k):
        fragments.append(b"")
        return fragments
