class Optional:

    def __init__(self, prototype, when, default=None):
        Field.__init__(self)
        assert isinstance(prototype, Field)

        self.default = default

        self.prototype_field = prototype
        self.tmp = when

    @exec_once
    def _compile(self, position, fields, bisturi_conf):
        slots = Field._compile_impl(self, position, fields, bisturi_conf)
        self.opt_elem_field_name = "_opt_elem__" + self.field_name
        self.prototype_field.field_name = self.opt_elem_field_name
        self.prototype_field._compile(
            position=-1, fields=[], bisturi_conf=bisturi_conf
        )

        when = self.tmp
        del self.tmp

        self.when = normalize_raw_condition_into_a_callable(when)
        return slots + [self.opt_elem_field_name]

    def unpack(self, pkt, raw, offset=0, **k):
        proceed = self.when(pkt=pkt, raw=raw, offset=offset, **k)

        opt_elem_field_name = self.opt_elem_field_name
        obj = None
        if proceed:
            offset = self.prototype_field.unpack(
                pkt=pkt, raw=raw, offset=offset, **k
            )

            obj = getattr(pkt, opt_elem_field_name)

        setattr(pkt, self.field_name, obj)
        return offset

    def pack(self, pkt, fragments, **k):
        obj = getattr(pkt, self.field_name)
        opt_elem_field_name = self.opt_elem_field_name
        if obj is not None:
            setattr(pkt, opt_elem_field_name, obj)
            return self.prototype_field.pack(pkt, fragments, **k)

        else:
            return fragments

class Sequence:

    def __init__(
        self,
        prototype,
        count=None,
        until=None,
        when=None,
        default=None,
        aligned=None
    ):
        Field.__init__(self)
        assert isinstance(prototype, Field)

        if (count is None
            and until is None) or (count is not None and until is not None):
            raise ValueError(
                "A sequence of fields (see the Field.repeated method) must have a count "
                "of how many a field is repeated or a until condition to repeat "
                "the field as long as the condition is false. "
                "You must set one and only one of them."
            )

        self.default = default if default is not None else []

        self.prototype_field = prototype
        self.aligned_to = aligned

        self.tmp = (count, until, when)

    @exec_once
    def _compile(self, position, fields, bisturi_conf):
        from bisturi.structural_fields import normalize_raw_condition_into_a_callable, \
                                      normalize_count_condition_into_a_callable

        slots = Field._compile_impl(self, position, fields, bisturi_conf)
        if self.aligned_to is None:
            self.aligned_to = bisturi_conf.get('align', 1)

        # XXX we are propagating the 'align' attribute (in bisturi_conf) to
        # the prototype packet. This is valid ...but inelegant
        # This happen in others fields like Optional and Ref
        self.seq_elem_field_name = "_seq_elem__" + self.field_name
        self.prototype_field.field_name = self.seq_elem_field_name
        self.prototype_field._compile(
            position=-1, fields=[], bisturi_conf=bisturi_conf
        )

        count, until, when = self.tmp

        self.when = None if when is None else normalize_raw_condition_into_a_callable(
            when
        )

        if count is None:
            self.get_how_many_elements = None
            self.until_condition = normalize_raw_condition_into_a_callable(
                until
            )
        else:
            self.get_how_many_elements = normalize_count_condition_into_a_callable(
                count
            )
            self.until_condition = None

        return slots + [self.seq_elem_field_name]
