# template of kernel G19_field_ctor: bisturi/field.py (written by harness/mktemplate.py; docstrings and comments do not count)
def exec_once(m):
    ''' Allow the execution of the method only once and save its result.
        The next calls will always return the same result,
        ignoring the parameters.
        '''
    def wrapper(self, *args, **kargs):
        try:
            return getattr(self, "_%s_cached_result" % m.__name__)
        except AttributeError as e:
            r = m(self, *args, **kargs)
            setattr(self, "_%s_cached_result" % m.__name__, r)
            return r

    return wrapper

class Field:
    def __init__(self):
        self.is_fixed = False
        self.struct_code = None
        self.is_bigendian = True

        self.move_arg = None
        self.reference = None
        self.is_alignment = None

        self.descriptor = None
        self.descriptor_name = None

    def unpack(self, pkt, raw, offset, **k):
        raise NotImplementedError()

    def pack(self, pkt, fragments, **k):
        raise NotImplementedError()

    def unpack_noop(self, pkt, raw, offset, **k):
        ''' No-operation unpack function. Do nothing during the
            unpacking stage. '''
        return offset

    def pack_noop(self, pkt, fragments, **k):
        ''' No-operation pack function. Do nothing during the packing stage. '''
        return fragments

class Int:
    def __init__(self, byte_count=4, signed=False, endianness=None, default=0):
        Field.__init__(self)
        self.default = default
        self.byte_count = byte_count
        self.endianness = endianness
        self.is_signed = signed
        self.is_fixed = True

    def unpack(self, pkt, raw, offset=0, **k):
        raise NotImplementedError(
            "This method should be implemented during the 'compilation' phase."
        )

    def pack(self, pkt, fragments, **k):
        raise NotImplementedError(
            "This method should be implemented during the 'compilation' phase."
        )

class Data:
    def __init__(
        self,
        byte_count=None,
        until_marker=None,
        include_delimiter=False,
        consume_delimiter=True,
        default=b''
    ):
        Field.__init__(self)
        assert (byte_count is None and until_marker is not None) or \
                (until_marker is None and byte_count is not None)

        if until_marker is not None:
            if hasattr(until_marker, 'search'):  # aka regex
                pattern = until_marker.pattern
                if not isinstance(pattern, bytes):
                    raise ValueError(
                        "The until marker is a regular expression which pattern is of type '%s' but it must be 'bytes'."
                        % type(pattern)
                    )
            else:
                if not isinstance(until_marker, bytes):
                    raise ValueError(
                        "The until marker must be 'bytes' or a regular expression, not '%s'."
                        % type(until_marker)
                    )

        if not isinstance(default, bytes):
            raise ValueError(
                "The default must be 'bytes' not '%s'." % type(default)
            )

        self.default = default
        if not default and isinstance(byte_count, int):
            self.default = b"\x00" * byte_count

        self.byte_count = byte_count
        self.until_marker = until_marker

        self.include_delimiter = include_delimiter
        self.delimiter_to_be_included = (
            self.until_marker if isinstance(self.until_marker, bytes)
            and not include_delimiter else b''
        )

        assert not (consume_delimiter == False and include_delimiter == True)
        self.consume_delimiter = consume_delimiter  #XXX document this!
        self.is_fixed = isinstance(byte_count, int)

    @exec_once
    def _compile(self, position, fields, bisturi_conf):
        slots = Field._compile_impl(self, position, fields, bisturi_conf)

        if self.byte_count is not None:
            if isinstance(self.byte_count, int):
                self.struct_code = "%is" % self.byte_count
                self.unpack = self._unpack_fixed_size

            elif isinstance(self.byte_count, Field):
                self.unpack = self._unpack_variable_size_field

            elif callable(self.byte_count):
                self.unpack = self._unpack_variable_size_callable

            elif isinstance(
                self.byte_count, (UnaryExpr, BinaryExpr, NaryExpr)
            ):
                self.byte_count = compile_expr_into_callable(self.byte_count)
                self.unpack = self._unpack_variable_size_callable

            else:
                assert False

        else:
            self._search_buffer_length = bisturi_conf.get(
                'search_buffer_length'
            )
            if self._search_buffer_length is not None:
                # the length can be 0 or None (means infinite) or a positive number
                assert self._search_buffer_length >= 0

            if isinstance(self.until_marker, bytes):
                self.unpack = self._unpack_with_string_marker

            elif hasattr(self.until_marker, 'search'):
                self.unpack = self._unpack_with_regexp_marker

            else:
                assert False

        return slots

    def unpack(self, pkt, raw, offset=0, **k):
        raise NotImplementedError(
            "This method should be implemented during the 'compilation' phase."
        )

class Em:
    def __init__(self):
        Field.__init__(self)

