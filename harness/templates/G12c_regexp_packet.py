class Packet:

    def as_regular_expression(self, debug=False):
        fragments = FragmentsOfRegexps()
        stack = []
        self.as_regular_expression_impl(fragments, stack)

        return re.compile(
            b"(?s)" + fragments.assemble_regexp(), re.DEBUG if debug else 0
        )

    def as_regular_expression_impl(self, fragments, stack):
        for name, f, pack, _ in self.get_fields():
            f.pack_regexp(self, fragments, stack=stack)
