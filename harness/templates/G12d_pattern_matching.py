class Any:

    def __init__(self, startswith=None, endswith=None, contains=None):
        if startswith == endswith == contains == None:  # most common case
            self.regexp = None
            self.__eq__ = self.eq_for_any
            self.__ne__ = self.ne_for_any

            return

        middle = b".*" if contains is None else (b".*%s.*" % escape(contains))

        self.regexp = b""
        if startswith is not None:
            self.regexp += escape(startswith)

        self.regexp += middle

        if endswith is not None:
            self.regexp += escape(endswith)

        self.regexp = compile(self.regexp, DOTALL)
        self.__eq__ = self.eq_for_regexp
        self.__ne__ = self.ne_for_regexp

    def __eq__(self, other):
        if self.regexp is None:
            return self.eq_for_any(other)
        else:
            return self.eq_for_regexp(other)

    def __ne__(self, other):
        if self.regexp is None:
            return self.ne_for_any(other)
        else:
            return self.ne_for_regexp(other)

    def eq_for_any(self, other):
        return True

    def ne_for_any(self, other):
        return False

    def eq_for_regexp(self, other):
        return bool(self.regexp.fullmatch(other))

    def ne_for_regexp(self, other):
        return not bool(self.regexp.fullmatch(other))

def anything_like(pkt_class):
    pkt = pkt_class()

    for field_name, field, _, _ in pkt_class.get_fields():
        setattr(pkt, field_name, Any())

    return pkt

def filter_like(pkt, iterable, scan_through_string_for_a_match=False):
    pattern = pkt.as_regular_expression()
    return ifilter(
        pattern.search if scan_through_string_for_a_match else pattern.match,
        iterable
    )

def filter(pkt, iterable, filter_with_regexp_first=True, filter_like_args={}):
    if filter_with_regexp_first:
        iterable = filter_like(pkt, iterable, **filter_like_args)

    cls = pkt.__class__
    equals_to_pkt = partial(equals_to, pkt)
    return ifilter(
        equals_to_pkt, (cls.unpack(r, silent=True) for r in iterable)
    )
