# template of kernel G20b_packet_misc: bisturi/packet.py (written by harness/mktemplate.py; docstrings and comments do not count)
def _with_metaclass(meta, *bases):
    """Create a base class with a metaclass."""

    # This requires a bit of explanation: the basic idea is to make a dummy
    # metaclass for one level of class instantiation that replaces itself with
    # the actual metaclass.
    class metaclass(meta):
        def __new__(cls, name, this_bases, d):
            return meta(name, bases, d)

    try:
        return type.__new__(metaclass, u'temporary_class', (), {})
    except TypeError:
        return type.__new__(metaclass, b'temporary_class', (), {})

class Packet:
    def as_prototype(self):
        return Prototype(self)

    def iterative_unpack(self, raw, offset=0, stack=None):
        raise NotImplementedError()
        for name, f, _, _ in self.get_fields():
            yield offset, name
            offset = f.unpack(pkt=self, raw=raw, offset=offset, stack=stack)

        yield offset, "."

class Prototype:
    def clone(self):
        raise Exception()

