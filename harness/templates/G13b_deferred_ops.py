# template of kernel G13b_deferred_ops: bisturi/deferred.py (written by harness/mktemplate.py; docstrings and comments do not count)
class Operations:
    def __init__(self):
        self.ops = []

    def append(self, num_arguments, operation, level, operation_name=None):
        if operation_name is None:
            operation_name = repr(operation)

        self.ops.append((num_arguments, operation, level, operation_name))

    def as_list(self):
        return [
            (num_arguments, operation)
            for num_arguments, operation, _, _ in self.ops
        ]

def _defer_operations_of(cls, allowed_categories='all'):
    if allowed_categories == 'all':
        allowed_categories = AllCategories

    else:
        allowed_categories = list(set(allowed_categories))  # remove duplicates
        assert all(
            (category in AllCategories) for category in allowed_categories
        )  # sanity check

    allowed_binary_operations = sum(
        (
            BinaryOperationsByCategory[category]
            for category in allowed_categories
        ), []
    )
    allowed_binary_reverse_operations = sum(
        (
            BinaryReverseOperationsByCategory[category]
            for category in allowed_categories
        ), []
    )
    allowed_unary_operations = sum(
        (
            UnaryOperationsByCategory[category]
            for category in allowed_categories
        ), []
    )

    # for each binary operation (op) create a magic
    # method named __op__ that when it gets call it will return
    # a deferred operation (unary/binary/nary deferred operation)
    # that would represent op without executing it (hence the name)
    for binary_op in allowed_binary_operations:
        op_name = binary_op.__name__
        if op_name.endswith("_"):
            op_name = op_name[:-1]

        methodname = "__%s__" % op_name
        _defer_method(cls, methodname, binary_op, is_binary=True)

    for binary_op in allowed_binary_reverse_operations:
        op_name = binary_op.__name__
        if op_name.endswith("_"):
            op_name = op_name[:-1]

        methodname = "__r%s__" % op_name
        _defer_method(
            cls,
            methodname,
            binary_op,
            is_binary=True,
            swap_binary_arguments=True
        )

    for unary_op in allowed_unary_operations:
        op_name = unary_op.__name__
        if op_name.endswith("_"):
            op_name = op_name[:-1]

        if op_name == "inv":
            op_name = "invert"
        elif op_name == "truth":
            op_name = "nonzero"

        methodname = "__%s__" % op_name
        _defer_method(cls, methodname, unary_op, is_binary=False)

    _defer_method(
        cls,
        'if_true_then_else',
        if_true_then_else,
        is_binary=False,
        is_nary=True
    )
    _defer_method(cls, 'chooses', chooses, is_binary=False, is_nary=True)

    return cls

def defer_operations(allowed_categories='all'):
    ''' Decorate the class adding it several magic methods that when
        called they will return deferred operations.

        For example x + 1 will call __add__ which it will return
        BinaryExpr(x, 1, operator.add). So instead of executing the
        addition we return an object that represents the addition.

        The object returned will be interpreted by Field to make sense
        of it and executing the real operation during the runtime
        (pack/unpack time).

        allowed_categories says which subset of the operations would be
        added to the class.
    '''
    def decorator(cls):
        return _defer_operations_of(cls, allowed_categories)

    return decorator

