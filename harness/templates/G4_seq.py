class Sequence:
    def unpack(self, pkt, raw, offset=0, **k):
        sequence = []
        setattr(pkt, self.field_name, sequence)

        count_elements = 1 if not self.get_how_many_elements else \
                           self.get_how_many_elements(pkt=pkt, raw=raw, offset=offset, **k)

        when = self.when
        if when and (
            HOLE_su_count_nonpos
            or not when(pkt=pkt, raw=raw, offset=offset, **k)
        ):
            return offset

        seq_elem_field_name = self.seq_elem_field_name
        unpack = self.prototype_field.unpack
        append = sequence.append
        aligned_to = self.aligned_to
        for _ in range(count_elements):
            offset += HOLE_su_align1
            offset = unpack(pkt=pkt, raw=raw, offset=offset, **k)
            append(getattr(pkt, seq_elem_field_name))

        until = self.until_condition
        should_continue = False if until is None else not until(
            pkt=pkt, raw=raw, offset=offset, **k
        )
        while should_continue:
            offset += HOLE_su_align2
            offset = unpack(pkt=pkt, raw=raw, offset=offset, **k)

            append(getattr(pkt, seq_elem_field_name))
            should_continue = not until(pkt=pkt, raw=raw, offset=offset, **k)

        return offset

    def pack(self, pkt, fragments, **k):
        sequence = getattr(pkt, self.field_name)
        seq_elem_field_name = self.seq_elem_field_name
        aligned_to = self.aligned_to
        pack = self.prototype_field.pack
        for val in sequence:
            setattr(pkt, seq_elem_field_name, val)
            fragments.current_offset += HOLE_sp_align
            pack(pkt, fragments, **k)

        return fragments
