class CodeGenerator:

    def __init__(
        self, fields, pkt_class, generate_for_pack, generate_for_unpack,
        sourcecode_by_field_name, vectorize, annotate
    ):

        self.fields = fields
        self.pkt_class = pkt_class
        self.generate_for_pack = generate_for_pack
        self.generate_for_unpack = generate_for_unpack
        self.vectorize = vectorize

        if annotate:
            self.sourcecode_by_field_name = sourcecode_by_field_name
        else:
            self.sourcecode_by_field_name = {}

    def generate_code(self):
        if not self.generate_for_pack and not self.generate_for_unpack:
            return

        # Divide the fields into groups where each group share the same value
        # fof the 'is_fixed' attribute.
        grouped_by_variability = [
            (k, list(g)) for k, g in
            itertools.groupby(self.fields, lambda i_n_f: i_n_f[2].is_fixed)
        ]

        # Generate code for each group
        codes = []
        for is_fixed, group in grouped_by_variability:
            if is_fixed:
                codes.extend(self.generate_code_for_fixed_fields(group))
            else:
                codes.append(self.generate_code_for_variable_fields(group))

        if self.generate_for_pack or self.generate_for_unpack:
            import_code = '''
from struct import pack as StructPack, unpack as StructUnpack
from bisturi.fragments import Fragments
from bisturi.packet import PacketError

'''

        if self.generate_for_pack:
            pack_code = '''
def pack_impl(pkt, fragments, **k):
   k['innermost-pkt-pos'] = fragments.current_offset
   fields = pkt.get_fields()
   try:
%(sync_descriptors_code)s
%(blocks_of_code)s
   except PacketError as e:
      e.add_parent_field_and_packet(fragments.current_offset, name, pkt.__class__.__name__)
      raise e
   except Exception as e:
      raise PacketError(False, name, pkt.__class__.__name__, fragments.current_offset, str(e))

   return fragments
''' % {
                'blocks_of_code':
                indent("\n".join([c[0] for c in codes]), level=2),
                'sync_descriptors_code':
                self.generate_unrolled_code_for_descriptor_sync(
                    sync_for_pack=True
                ),
            }
        else:
            pack_code = ""

        if self.generate_for_unpack:
            unpack_code = (
                '''
from struct import pack as StructPack, unpack as StructUnpack
from bisturi.fragments import Fragments
from bisturi.packet import PacketError

def unpack_impl(pkt, raw, offset, **k):
   k['innermost-pkt-pos'] = offset
   fields = pkt.get_fields()
   try:
%(blocks_of_code)s
   except PacketError as e:
      e.add_parent_field_and_packet(offset, name, pkt.__class__.__name__)
      raise e
   except Exception as e:
      raise PacketError(True, name, pkt.__class__.__name__, offset, str(e))

%(sync_descriptors_code)s
   return offset
''' % {
                    'blocks_of_code':
                    indent("\n".join([c[1] for c in codes]), level=2),
                    'sync_descriptors_code':
                    self.generate_unrolled_code_for_descriptor_sync(
                        sync_for_pack=False
                    ),
                }
            )
        else:
            unpack_code = ""

        # Compute a hash over the pack and unpack generated code
        # We will use it to verify that the generated code that may already
        # exist correspond with the one generated right now
        cookie_hash = hashlib.sha1()
        cookie_hash.update(pack_code.encode('utf-8'))
        cookie_hash.update(unpack_code.encode('utf-8'))
        cookie = cookie_hash.hexdigest()
        cookie_code = f"BISTURI_PACKET_COOKIE_AT_END = '{cookie}'\n"

        HOLE_STMTS_cache

    def generate_unrolled_code_for_descriptor_sync(self, sync_for_pack):
        if sync_for_pack:
            # these run inside the 'try' of pack_impl: a failing hook is
            # reported as a failure of the field it belongs to
            sync_methods = self.pkt_class.get_sync_before_pack_methods()
            pad = "      "
            setup_code = pad + "sync_methods = pkt.get_sync_before_pack_methods()\n"
        else:
            sync_methods = self.pkt_class.get_sync_after_unpack_methods()
            pad = "   "
            setup_code = pad + "sync_methods = pkt.get_sync_after_unpack_methods()\n"

        if not sync_methods:
            return ""

        def call(i, sync):
            owner = getattr(
                getattr(sync, '__self__', None), 'real_field_name', None
            )
            naming = (pad + "name = %r\n" % owner) if sync_for_pack else ""
            return naming + pad + 'sync_methods[%i](pkt)' % i

        sync_calls = '\n'.join(
            call(i, sync) for i, sync in enumerate(sync_methods)
        )
        return setup_code + sync_calls

    def generate_code_for_fixed_fields(self, fields):
        # Group the fields of fixed size by if they have a Python' struct
        # format or not
        grouped_by_has_struct_code = [
            (k, list(g)) for k, g in itertools.
            groupby(fields, lambda i_n_f: i_n_f[2].struct_code is not None)
        ]

        codes = []
        for has_struct_code, group in grouped_by_has_struct_code:
            if has_struct_code:
                if self.vectorize:
                    # We cannot call Python's struct for two fields with different
                    # endianness so we do a regroup by fields that have the same
                    # endianness in common
                    grouped_by_endianness = [
                        (k, list(g)) for k, g in itertools.
                        groupby(group, lambda i_n_f: i_n_f[2].is_bigendian)
                    ]

                    # Generate the code for each endianness-struct group
                    codes.extend(
                        [
                            self.
                            generate_code_for_fixed_fields_with_struct_code(
                                g, k
                            ) for k, g in grouped_by_endianness
                        ]
                    )
                else:
                    codes.extend(
                        [
                            self.
                            generate_code_for_fixed_fields_with_struct_code(
                                [(a, b, f)],
                                f.is_bigendian,
                            ) for a, b, f in group
                        ]
                    )
            else:
                # Generate the code for each fixed-but-without-struct group
                codes.append(
                    self.
                    generate_code_for_fixed_fields_without_struct_code(group)
                )

        return codes

    def generate_code_for_fixed_fields_with_struct_code(
        self, group, is_bigendian
    ):
        fmt = ">" if is_bigendian else "<"
        fmt += "".join([f.struct_code for _, _, f in group])

        lookup_fields = " ".join(
            [('pkt.%(name)s,' % {
                'name': name
            }) for _, name, _ in group]
        )

        comments = ''.join(
            self.sourcecode_by_field_name.get(name, "") for _, name, _ in group
        )

        unpack_code = '''
%(comments)s
name = "%(name)s"
next_offset = offset + %(advance)s
%(lookup_fields)s = StructUnpack("%(fmt)s", raw[offset:next_offset])
offset = next_offset
''' % {
             'comments': comments.rstrip(),
             'lookup_fields': lookup_fields,
             'fmt': fmt,
             'advance': struct.calcsize(fmt),
             'name': ("between '%s' and '%s'" % (group[0][1], group[-1][1])) \
                        if len(group) > 1 else group[0][1],
          }

        pack_code = '''
%(comments)s
name = "%(name)s"
fragments.append(StructPack("%(fmt)s", %(lookup_fields)s))
''' % {
             'comments': comments.rstrip(),
             'lookup_fields': lookup_fields[:-1], # remove the last ","
             'fmt': fmt,
             'name': ("between '%s' and '%s'" % (group[0][1], group[-1][1])) \
                        if len(group) > 1 else group[0][1],
          }

        return pack_code, unpack_code

    def generate_code_for_variable_fields(self, group):
        return (
            self.generate_code_for_loop_pack(group),
            self.generate_code_for_loop_unpack(group)
        )

    def generate_code_for_fixed_fields_without_struct_code(
        self,
        group,
    ):
        return (
            self.generate_code_for_loop_pack(group),
            self.generate_code_for_loop_unpack(group)
        )

    def generate_code_for_loop_pack(self, group):
        return ''.join(
            [
                '''
%(comments)s
name, _, pack, _ = fields[%(field_index)i]
pack(pkt=pkt, fragments=fragments, **k)
''' % {
                    'comments':
                    self.sourcecode_by_field_name.get(name, '').rstrip(),
                    'field_index':
                    field_index
                } for field_index, name in zip(
                    range(group[0][0], group[-1][0] +
                          1), [g[1] for g in group]
                )
            ]
        )

    def generate_code_for_loop_unpack(self, group):
        return ''.join(
            [
                '''
%(comments)s
name, _, _, unpack = fields[%(field_index)i]
offset = unpack(pkt=pkt, raw=raw, offset=offset, **k)
''' % {
                    'comments':
                    self.sourcecode_by_field_name.get(name, '').rstrip(),
                    'field_index':
                    field_index
                } for field_index, name in zip(
                    range(group[0][0], group[-1][0] +
                          1), [g[1] for g in group]
                )
            ]
        )

def indent(code, level=1):
    i = "   " * level
    return "\n".join(
        [((i + line) if line else line) for line in code.split("\n")]
    )
