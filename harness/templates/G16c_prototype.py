class Prototype:

    def __init__(self, pkt):
        try:
            self.template = pickle.dumps(pkt, -1)
            pickle.loads(self.template)  # sanity check
            self.clone = self._clone_from_pickle
        except Exception as e:
            self.template = copy.deepcopy(pkt)
            self.clone = self._clone_from_live_obj

    def _clone_from_pickle(self):
        return pickle.loads(self.template)

    def _clone_from_live_obj(self):
        return copy.deepcopy(self.template)
