class Sequence:

    def init(self, packet, defaults):
        Field.init(self, packet, defaults)
        self.prototype_field.init(packet, {})

class Optional:

    def init(self, packet, defaults):
        Field.init(self, packet, defaults)
        self.prototype_field.init(packet, {})
