# template of kernel G20d_field_misc: bisturi/field.py (written by harness/mktemplate.py; docstrings and comments do not count)
class Field:
    def pack_regexp(self, pkt, fragments, **k):
        raise NotImplementedError(
            "The pack_regexp method is not implemented for this field."
        )

class Bkpt:
    def __init__(self):
        Field.__init__(self)

    def init(self, packet, defaults):
        pass

    def unpack(self, pkt, raw, offset=0, **k):
        breakpoint()
        return offset

    def pack(self, pkt, fragments, **k):
        breakpoint()
        return fragments

    def pack_regexp(self, pkt, fragments, **k):
        return fragments

