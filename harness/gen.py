"""Random generation of class tables (declarations in the representation of decl.py) and of values consistent with
them.  Everything derives from one random.Random.  The evaluator below mirrors Model/Value.v `eval`; it is used
only to *produce* consistent values and inputs, never as an oracle."""
import random


class GenFail(Exception):
    pass


# ------------------------------------------------------------------ evaluator (generation helper)
class PyExn(Exception):
    pass


def as_int(v):
    if isinstance(v, bool):
        return int(v)
    if isinstance(v, int):
        return v
    raise PyExn('TypeError')


def truth(v):
    if isinstance(v, tuple):
        return True
    return bool(v)


def py_eval(e, env, offset=None, rawlen=None):
    k = e[0]
    if k == 'lit':
        return e[1]
    if k == 'field':
        if e[1] not in env:
            raise PyExn('AttributeError')
        return env[e[1]]
    if k == 'un':
        a = py_eval(e[2], env, offset, rawlen)
        if e[1] == 'Neg':
            return -as_int(a)
        if e[1] == 'Inv':
            return ~as_int(a)
        if e[1] == 'Truth':
            return truth(a)
        if e[1] == 'Len':
            if isinstance(a, (bytes, list)):
                return len(a)
            raise PyExn('TypeError')
    if k == 'bin':
        a = py_eval(e[2], env, offset, rawlen)
        b = py_eval(e[3], env, offset, rawlen)
        op = e[1]
        if op == 'Eq':
            return a == b
        if op == 'Ne':
            return a != b
        if op == 'GetItem':
            try:
                return a[as_int(b)]
            except (IndexError, TypeError, KeyError):
                raise PyExn('IndexError')
        x, y = as_int(a), as_int(b)
        try:
            return {'Add': lambda: x + y, 'Sub': lambda: x - y, 'Mul': lambda: x * y, 'FloorDiv': lambda: x // y,
                    'Mod': lambda: x % y, 'Le': lambda: x <= y, 'Lt': lambda: x < y, 'Ge': lambda: x >= y, 'Gt': lambda: x > y,
                    'BAnd': lambda: a & b if isinstance(a, bool) and isinstance(b, bool) else x & y,
                    'BOr': lambda: a | b if isinstance(a, bool) and isinstance(b, bool) else x | y,
                    'BXor': lambda: a ^ b if isinstance(a, bool) and isinstance(b, bool) else x ^ y,
                    'RShift': lambda: x >> y, 'LShift': lambda: x << y}[op]()
        except (ZeroDivisionError, ValueError):
            raise PyExn('Arith')
    if k == 'choose':
        s = py_eval(e[1], env, offset, rawlen)
        opts = [py_eval(x, env, offset, rawlen) for x in e[2]]
        try:
            return opts[as_int(s)]
        except IndexError:
            raise PyExn('IndexError')
    if k == 'choosed':
        s = py_eval(e[1], env, offset, rawlen)
        opts = [py_eval(x, env, offset, rawlen) for x in e[3]]
        for kk, v in zip(e[2], opts):
            if kk == s:
                return v
        raise PyExn('KeyError')
    if k == 'ite':
        c = py_eval(e[1], env, offset, rawlen)
        a = py_eval(e[2], env, offset, rawlen)
        b = py_eval(e[3], env, offset, rawlen)
        return a if truth(c) else b
    if k == 'attr':
        a = py_eval(e[1], env, offset, rawlen)
        if isinstance(a, tuple) and a[0] == 'pkt' and e[2] in a[2]:
            return a[2][e[2]]
        raise PyExn('AttributeError')
    if k == 'offset':
        if offset is None:
            raise PyExn('TypeError')
        return offset
    if k == 'rawlen':
        if rawlen is None:
            raise PyExn('TypeError')
        return rawlen
    raise ValueError(e)


# ------------------------------------------------------------------ declarations
class Gen:
    def __init__(self, rng, features=None):
        self.rng = rng
        self.table = {}
        self.feat = dict(bits=True, data=True, marker=True, regex=True, eos=True, ref=True, refsel=True, seq=True, opt=True,
                         move=True, em=True, clsopts=True, lambdas=True, offset_atoms=False, codegen_opts=False,
                         begins_ref=True, defaults=True, regex_excl=False, shared_selector=True, generic_unpack=False, neg_moves=False,
                         move_rate=0.15, opt_rate=1.2)
        if features:
            self.feat.update(features)

    def pick(self, weighted):
        items = [(k, w) for k, w in weighted if w > 0]
        r = self.rng.random() * sum(w for _, w in items)
        for k, w in items:
            r -= w
            if r <= 0:
                return k
        return items[-1][0]

    # ---- expressions over earlier integer fields
    def int_expr(self, ints, depth=0, small=True, nogrow=False):
        rng = self.rng
        if not ints or depth >= 2 or rng.random() < 0.35:
            if ints and rng.random() < 0.8:
                return ('field', rng.choice(ints))
            return ('lit', rng.choice([0, 1, 2, 3]))
        op = rng.choice(['Add', 'Sub', 'Mul', 'BAnd', 'BOr', 'BXor', 'Mod', 'FloorDiv', 'RShift', 'LShift', 'Neg', 'Inv', 'ite'])
        if nogrow and op in ('Mul', 'LShift'):
            op = 'Add'
        if op == 'Neg':
            return ('un', 'Neg', ('un', 'Neg', self.int_expr(ints, depth + 1, nogrow=nogrow)))
        if op == 'Inv':
            return ('bin', 'BAnd', ('un', 'Inv', self.int_expr(ints, depth + 1, nogrow=nogrow)), ('lit', rng.choice([1, 3, 7])))
        if op == 'ite':
            return ('ite', self.cond_expr(ints, depth + 1), self.int_expr(ints, depth + 1, nogrow=nogrow), ('lit', rng.choice([0, 1, 2])))
        a = self.int_expr(ints, depth + 1, nogrow=nogrow)
        b = ('lit', rng.choice([1, 2, 3])) if op in ('Mod', 'FloorDiv', 'RShift', 'LShift', 'Mul') or rng.random() < 0.5 \
            else self.int_expr(ints, depth + 1, nogrow=nogrow)
        if rng.random() < 0.2 and op in ('Sub', 'Add', 'BAnd', 'BOr', 'BXor'):
            a, b = b, a              # reflected operand order: 8 - x
        if a[0] == 'lit' and b[0] == 'lit':
            a = ('field', rng.choice(ints))
        return ('bin', op, a, b)

    def cond_expr(self, ints, depth=0):
        rng = self.rng
        if not ints:
            return ('lit', rng.choice([0, 1]))
        r = rng.random()
        if r < 0.25:
            return ('un', 'Truth', ('field', rng.choice(ints)))
        if r < 0.85 or depth >= 1:
            return ('bin', rng.choice(['Le', 'Lt', 'Ge', 'Gt', 'Eq', 'Ne']), self.int_expr(ints, depth + 1), ('lit', rng.choice([0, 1, 2])))
        return ('bin', rng.choice(['BAnd', 'BOr']), self.cond_expr(ints, depth + 1), self.cond_expr(ints, depth + 1))

    def how(self, e):
        """how an expression is spelled in the class body"""
        rng = self.rng
        if e[0] == 'lit':
            return 'const'
        if e[0] == 'field':
            return rng.choice(['field', 'field', 'lambda'] if self.feat['lambdas'] else ['field'])
        if self.uses_lambda_only(e) or not self.deferrable(e):
            return 'lambda'
        return rng.choice(['expr', 'expr', 'lambda'] if self.feat['lambdas'] else ['expr'])

    def has_field(self, e):
        if e[0] == 'field':
            return True
        if e[0] == 'lit':
            return False
        return any(self.has_field(x) for x in e[1:] if isinstance(x, tuple) and x and x[0] in
                   ('lit', 'field', 'un', 'bin', 'choose', 'choosed', 'ite', 'attr', 'offset', 'rawlen')) or \
            any(self.has_field(y) for x in e[1:] if isinstance(x, list) for y in x if isinstance(y, tuple))

    def deferrable(self, e):
        """every non-literal sub-expression mentions a field (otherwise python evaluates it eagerly in the class body)"""
        if e[0] == 'lit':
            return True
        if not self.has_field(e):
            return False
        subs = [x for x in e[1:] if isinstance(x, tuple) and x and x[0] in
                ('lit', 'field', 'un', 'bin', 'choose', 'choosed', 'ite', 'attr')]
        subs += [y for x in e[1:] if isinstance(x, list) for y in x if isinstance(y, tuple) and y and y[0] in
                 ('lit', 'field', 'un', 'bin', 'choose', 'choosed', 'ite', 'attr')]
        if e[0] in ('ite', 'choose', 'choosed', 'un') and not self.has_field(e[1] if e[0] != 'un' else e[2]):
            return False
        return all(self.deferrable(x) for x in subs)

    def uses_lambda_only(self, e):
        if e[0] in ('attr', 'offset', 'rawlen'):
            return True
        return any(self.uses_lambda_only(x) for x in e[1:] if isinstance(x, tuple) and x and isinstance(x[0], str)
                   and x[0] in ('lit', 'field', 'un', 'bin', 'choose', 'choosed', 'ite', 'attr', 'offset', 'rawlen')) or \
            any(self.uses_lambda_only(y) for x in e[1:] if isinstance(x, list) for y in x if isinstance(y, tuple))

    # ---- leaves
    def leaf(self, ints, allow_var=True):
        rng = self.rng
        kind = self.pick([('int', 5), ('dconst', 2 if self.feat['data'] else 0), ('dvar', 2 if (self.feat['data'] and ints and allow_var) else 0),
                          ('dmarker', 1.5 if self.feat['marker'] else 0), ('dregex', 0.6 if self.feat['regex'] else 0),
                          ('deos', 0.3 if self.feat['eos'] else 0)])
        dflt = self.feat['defaults'] and rng.random() < 0.3
        if kind == 'int':
            n = rng.choice([1, 1, 1, 2, 2, 3, 4, 5, 8])
            signed = rng.random() < 0.3
            fe = rng.choice([None, None, None, 'big', 'little', 'network', 'local'])
            lo, hi = (-(2 ** (8 * n - 1)), 2 ** (8 * n - 1)) if signed else (0, 2 ** (8 * n))
            d = rng.randrange(max(lo, -3), min(hi, 200)) if dflt else 0
            return ('int', n, signed, fe, d)
        if kind == 'dconst':
            n = rng.choice([0, 1, 2, 3, 4, 0, 1, 2, 3, 4, 11, 22])     # 11, 22: struct codes of several (equal) digits
            return ('dsized', ('lit', n), 'const', bytes(rng.randrange(256) for _ in range(n)) if dflt else b'')
        if kind == 'dvar':
            e = self.int_expr(ints)
            if e[0] == 'lit':
                e = ('field', rng.choice(ints))
            return ('dsized', e, self.how(e), bytes(rng.randrange(65, 70) for _ in range(rng.randrange(3))) if dflt else b'')
        if kind == 'dmarker':
            m = bytes(rng.choice([0, 10, 58, 59]) for _ in range(rng.choice([1, 1, 2])))
            return ('dmarker', m, rng.random() < 0.4, b'')
        if kind == 'dregex':
            alts = rng.choice([[('plus', 88)], [('lit', b':'), ('lit', b';;')], [('lit', b'\r\n'), ('plus', 10)], [('lit', b'ab'), ('lit', b'a')]])
            return ('dregex', alts, (not self.feat['regex_excl']) or rng.random() < 0.6, b'')
        return ('deos', b'')

    def elem(self, ints, cid, depth, allow_var=True):
        rng = self.rng
        subs = [c for c in self.table if c < cid]
        kind = self.pick([('leaf', 6), ('refpkt', 3 if (self.feat['ref'] and subs) else 0),
                          ('refsel', 1.2 if (self.feat['refsel'] and ints) else 0)])
        if kind == 'leaf':
            return ('leaf', self.leaf(ints, allow_var))
        if kind == 'refpkt':
            c = rng.choice(subs)
            ovr = {}
            if self.feat['defaults'] and rng.random() < 0.3:
                ovr = self.some_overrides(c)
            return ('refpkt', c, ovr)
        # run-time selected field or packet
        sel = ('field', rng.choice(ints))
        nopts = rng.choice([2, 3])
        opts = []
        for _ in range(nopts):
            if subs and rng.random() < 0.4:
                opts.append(('lit', ('pkt', rng.choice(subs), {})))
            else:
                opts.append(('lit', ('leaf', self.leaf([], allow_var=False))))
        if rng.random() < 0.5:
            e = ('choose', ('bin', 'Mod', sel, ('lit', nopts)), opts)
        else:
            keys = rng.sample([0, 1, 2, 3, 4, 5], nopts)
            e = ('choosed', sel, keys, opts)
        first = opts[0][1]
        if first[0] == 'pkt':
            dflt = ('pkt', first[1], {})
        else:
            l = first[1]
            dflt = 0 if l[0] == 'int' else b''
        has_pkt = any(o[1][0] == 'pkt' for o in opts)
        # a deferred selector holds its packet options as shared instances (every parse copies them since the D9 fix)
        if has_pkt and not self.feat['shared_selector']:
            how = 'lambda'
        else:
            how = 'expr' if rng.random() < 0.6 or not self.feat['lambdas'] else 'lambda'
        return ('refsel', e, how, dflt)

    def some_overrides(self, c):
        """keyword overrides for the integer leaves of class c"""
        out = {}
        for i, fd in enumerate(self.table[c]['fields']):
            b = fd['body']
            if b[0] == 'elem' and b[1][0] == 'leaf' and b[1][1][0] == 'int' and self.rng.random() < 0.5:
                out[i] = self.rng.randrange(0, 4)
        return out

    def move(self, ints):
        rng = self.rng
        al = rng.random() < 0.5
        refs = ['RInner', 'RCur'] + (['RBegins'] if self.feat['begins_ref'] else [])
        ref = rng.choice(refs)
        spelled = 'aligned' if al else 'at'
        if al:
            arg = ('const', rng.choice([1, 2, 3, 4, 6, 8]))
        else:
            if ref == 'RCur':
                spelled = rng.choice(['shift', 'at'])
                arg = ('const', rng.choice([0, 1, 2, 3] + ([-1, -2, -3] if self.feat['neg_moves'] else [])))
            else:
                arg = ('const', rng.choice([0, 1, 2, 4, 6, 9]))
            if ints and rng.random() < 0.3:
                arg = ('field', rng.choice(ints)) if rng.random() < 0.6 else ('fun', self.int_expr(ints))
        return (arg, ref, al, spelled)

    def klass(self, cid, depth=0, nfields=None):
        rng = self.rng
        pc = dict(end=None, align=None, sbl=None, gp=True, gu=True, vec=True, ann=True, fields=[])
        if self.feat['clsopts']:
            if rng.random() < 0.2:
                pc['end'] = rng.choice(['little', 'big', 'local', 'network'])
            if rng.random() < 0.08:
                pc['align'] = rng.choice([2, 4])
            if rng.random() < 0.2:
                pc['sbl'] = rng.choice([0, 2, 3, 5, 8])
        if self.feat['codegen_opts']:
            pc['gp'], pc['gu'], pc['vec'], pc['ann'] = (rng.random() < 0.5 for _ in range(4))
        if self.feat['generic_unpack']:
            pc['gu'] = False
        n = nfields or rng.choice([1, 2, 2, 3, 3, 4, 5, 6])
        ints = []
        wide = set()      # two-byte integer fields: not used in counts
        i = 0
        fields = pc['fields']
        while i < n:
            kind = self.pick([('elem', 6), ('bits', 1.2 if (self.feat['bits'] and pc['align'] is None) else 0),
                              ('seq', 2 if self.feat['seq'] else 0), ('opt', self.feat.get('opt_rate', 1.2) if (self.feat['opt'] and ints) else 0),
                              ('em', 0.3 if self.feat['em'] else 0)])
            mv = self.move([j for j in ints if j not in wide]) if (self.feat['move'] and rng.random() < self.feat['move_rate']) else None    # a two-byte target means 60 KB of fill bytes per case
            if kind == 'bits':
                total = rng.choice([8, 8, 16, 24])
                ws = []
                while total:
                    w = rng.randint(1, min(total, 9))
                    ws.append(w); total -= w
                for j, w in enumerate(ws):
                    d = rng.randrange(2 ** w) if (self.feat['defaults'] and rng.random() < 0.2) else 0
                    fields.append({'move': mv if j == 0 else None, 'body': ('bits', w, d)})
                    ints.append(i)
                    i += 1
                continue
            if kind == 'elem':
                el = self.elem(ints, cid, depth)
                fields.append({'move': mv, 'body': ('elem', el)})
                if el[0] == 'refpkt' and mv is None:
                    # how the reference is written: Ref(K) / the bare class K / an instance K(..) -- the builder turns the last two into Ref
                    fields[-1]['spell'] = rng.choice(['ref', 'ref', 'class', 'instance'])
                if el[0] == 'leaf' and el[1][0] == 'int' and el[1][1] <= 2 and not el[1][2]:
                    ints.append(i)
                    if el[1][1] == 2:
                        wide.add(i)
            elif kind == 'seq':
                el = self.elem(ints, cid, depth)
                mode = self.pick([('count', 3), ('until', 1.5 if self.feat['lambdas'] else 0)])
                count = until = when = None
                if mode == 'count':
                    # counts stay small (one-byte fields, no multiplication): the model appends to the list it builds (quadratic), and
                    # tens of thousands of zero-width elements make one case cost minutes and gigabytes in vm_compute
                    cints = [j for j in ints if j not in wide]
                    e = self.int_expr(cints, nogrow=True) if (cints and rng.random() < 0.75) else ('lit', rng.choice([0, 1, 2, 3]))
                    count = (e, self.how(e))
                else:
                    until = (self.until_expr(i, el, ints), 'lambda')
                if ints and rng.random() < 0.3:
                    w = self.cond_expr(ints)
                    when = (w, self.how_cond(w))
                al = rng.choice([None, None, None, 2, 3, 4])
                fields.append({'move': mv, 'body': ('seq', el, count, until, when, None, al)})
            elif kind == 'opt':
                el = self.elem(ints, cid, depth)
                w = self.cond_expr(ints)
                dflt = None
                if self.feat['defaults'] and el[0] == 'leaf' and rng.random() < 0.3:
                    # a declared default is what a CONSTRUCTED packet holds; a parse with a false condition still gives None
                    dflt = rng.randrange(1, 5) if el[1][0] == 'int' else (b'dflt'[:rng.randrange(1, 5)] if el[1][0] in ('dsized', 'dmarker', 'deos', 'dregex') else None)
                    if el[1][0] == 'dsized' and el[1][2] == 'const':
                        dflt = (b'dfltdfltdfltdfltdfltdflt')[:el[1][1][1]] if el[1][1][1] > 0 else None
                fields.append({'move': mv, 'body': ('opt', el, (w, self.how_cond(w)), dflt)})
            else:
                fields.append({'move': mv, 'body': ('em',)})
            i += 1
        return pc

    def how_cond(self, w):
        if w[0] == 'un' and w[1] == 'Truth' and w[2][0] == 'field':
            return self.rng.choice(['field', 'lambda'] if self.feat['lambdas'] else ['field'])
        if w[0] == 'lit' or not self.deferrable(w):
            return 'lambda'
        return self.how(w)

    def until_expr(self, i, el, ints):
        """a stop condition over the list built so far"""
        rng = self.rng
        last = ('bin', 'GetItem', ('field', i), ('lit', -1))
        n = ('un', 'Len', ('field', i))
        if el[0] == 'leaf' and el[1][0] == 'int':
            return rng.choice([('bin', 'Eq', last, ('lit', 0)), ('bin', 'Ge', n, ('lit', rng.choice([1, 2, 3]))),
                               ('bin', 'BOr', ('bin', 'Lt', last, ('lit', 2)), ('bin', 'Ge', n, ('lit', 3)))])
        if el[0] == 'refpkt':
            sub = self.table[el[1]]
            for j, fd in enumerate(sub['fields']):
                b = fd['body']
                if b[0] == 'elem' and b[1][0] == 'leaf' and b[1][1][0] == 'int':
                    return ('bin', 'BOr', ('bin', 'Eq', ('attr', last, j), ('lit', 0)), ('bin', 'Ge', n, ('lit', 3)))
        return ('bin', 'Ge', n, ('lit', rng.choice([1, 2, 3])))

    def make_table(self, nclasses):
        self.table = {}
        for c in range(nclasses):
            self.table[c] = self.klass(c)
        return self.table


# ------------------------------------------------------------------ consistent values
class ValGen:
    def __init__(self, rng, table):
        self.rng = rng
        self.table = table

    def small_int(self, n, signed):
        rng = self.rng
        lo, hi = (-(2 ** (8 * n - 1)), 2 ** (8 * n - 1)) if signed else (0, 2 ** (8 * n))
        r = rng.random()
        if r < 0.58:
            return rng.choice([0, 1, 2, 3, 4])
        if r < 0.65:
            return rng.choice([8, 9, 11, 12])        # counts / sizes of eight and more (bulk-decoding shortcuts start there)
        if r < 0.8:
            return rng.choice([lo, hi - 1, -1 if signed else 5])
        return rng.randrange(lo, hi)

    def leaf_value(self, l, env):
        rng = self.rng
        k = l[0]
        if k == 'int':
            return self.small_int(l[1], l[2])
        if k == 'dsized':
            try:
                n = as_int(py_eval(l[1], env))
            except PyExn:
                raise GenFail('size')
            if n < 0 or n > 40:
                raise GenFail('size')
            return bytes(rng.choice([65, 66, 0, 10, 58, 88, 46, 46, rng.randrange(256)]) for _ in range(n)) if rng.random() < 0.9 else b'.' * n     # 46 = the fill byte: stored dots are not holes
        if k == 'dmarker':
            m = l[1]
            for _ in range(20):
                body = bytes(rng.choice([65, 66, 67, 0, 10, 58, 59]) for _ in range(rng.randrange(5)))
                if (body + m).find(m) == len(body):
                    break
            else:
                body = b'AB'
            return body + m if l[2] else body
        if k == 'dregex':
            body = bytes(rng.choice([65, 66, 67]) for _ in range(rng.randrange(4)))
            a = rng.choice(l[1])
            d = a[1] if a[0] == 'lit' else bytes([a[1]]) * rng.randint(1, 3)
            return body + d if l[2] else body
        if k == 'deos':
            return bytes(rng.choice([65, 66, 67]) for _ in range(rng.randrange(4)))
        raise ValueError(l)

    def elem_value(self, el, env, depth):
        if el[0] == 'leaf':
            return self.leaf_value(el[1], env)
        if el[0] == 'refpkt':
            return self.pkt_value(el[1], depth + 1)
        try:
            t = py_eval(el[1], env)
        except PyExn:
            raise GenFail('selector')
        if isinstance(t, tuple) and t[0] == 'pkt':
            return self.pkt_value(t[1], depth + 1)
        if isinstance(t, tuple) and t[0] == 'leaf':
            return self.leaf_value(t[1], env)
        raise GenFail('selector')

    def pkt_value(self, c, depth=0):
        if depth > 4:
            raise GenFail('depth')
        rng = self.rng
        env = {}
        for i, fd in enumerate(self.table[c]['fields']):
            b = fd['body']
            if b[0] == 'elem':
                env[i] = self.elem_value(b[1], env, depth)
            elif b[0] == 'bits':
                env[i] = rng.randrange(2 ** b[1]) if rng.random() < 0.6 else rng.choice([0, 1, 2 ** b[1] - 1])
            elif b[0] == 'seq':
                _, el, count, until, when, dflt, al = b
                env[i] = []
                try:
                    n = as_int(py_eval(count[0], env)) if count else 1
                    skip = when is not None and (n <= 0 or not truth(py_eval(when[0], env)))
                except PyExn:
                    raise GenFail('count')
                if skip:
                    continue
                if n > 12:
                    raise GenFail('count')
                for _ in range(max(n, 0)):
                    env[i] = env[i] + [self.elem_value(el, env, depth)]
                if until:
                    for _ in range(8):
                        try:
                            if truth(py_eval(until[0], env)):
                                break
                        except PyExn:
                            raise GenFail('until')
                        env[i] = env[i] + [self.elem_value(el, env, depth)]
                    else:
                        raise GenFail('until')
            elif b[0] == 'opt':
                try:
                    on = truth(py_eval(b[2][0], env))
                except PyExn:
                    raise GenFail('when')
                env[i] = self.elem_value(b[1], env, depth) if on else None
        return ('pkt', c, env)

    def try_value(self, c, tries=12):
        for _ in range(tries):
            try:
                return self.pkt_value(c)
            except GenFail:
                continue
        return None
