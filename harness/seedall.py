#!/usr/bin/env python3
"""Run every archived seeded change (seeded/Sxx_*/) against the quick check of the property it breaks, each in a scratch
worktree of /repo (SEED_COPY=1: /repo itself is never touched), and print one line per seed:
    <name> <property> exit=<rc> input|tie-only|MISSED
usage: seedall.py [name-substring ...]        (a regression run of the machinery, not a registered check)"""
import os, sys, json, subprocess
HERE = os.path.dirname(os.path.abspath(__file__))
ROOT = os.path.dirname(HERE)
want = sys.argv[1:]
tally = {}
for name in sorted(os.listdir(os.path.join(ROOT, 'seeded'))):
    d = os.path.join(ROOT, 'seeded', name)
    if not os.path.exists(os.path.join(d, 'patch.diff')) or (want and not any(w in name for w in want)):
        continue
    try:
        prop = json.load(open(os.path.join(d, 'meta.json')))['breaks_property']
    except Exception:
        prop = name.split('_')[1]
    r = subprocess.run([sys.executable, os.path.join(HERE, 'seedtest.py'), d, prop], stdout=subprocess.PIPE, stderr=subprocess.STDOUT,
                       text=True, env=dict(os.environ, SEED_COPY='1'))
    try:
        res = json.loads(r.stdout[r.stdout.index('{'):])
        c = res['checks'][prop]
        v = [l for l in c['lines'] if l.startswith('VIOLATION')]
        verdict = 'MISSED' if c['exit'] == 0 or not v else ('tie-only' if v[0].endswith('no-failing-input-found') else 'input')
        extra = '' if res.get('tests', '').startswith('40 passed') else ' TESTS:' + res.get('tests', '?')
        print(f"{name} {prop} exit={c['exit']} {verdict}{extra}", flush=True)
    except Exception as e:
        verdict = 'ERROR'
        print(f"{name} {prop} ERROR {type(e).__name__}: {r.stdout[-300:]!r}", flush=True)
    tally[verdict] = tally.get(verdict, 0) + 1
print('TALLY', tally)
