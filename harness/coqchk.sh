#!/bin/bash
# Independent re-check of every compiled property file (and everything it depends on) with coqchk; prints the axioms the
# whole development relies on.  Takes 2-3 minutes and ~1 GB; run after harness/setup.py.  Not part of the per-property checks.
cd "$(dirname "$0")/../coq" || exit 2
mods=$(ls Properties/*.vo | sed 's|/|.|; s|\.vo$||; s|^|Bisturi.|')
exec timeout 3000 coqchk -silent -o -Q . Bisturi $mods
