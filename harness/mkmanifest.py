#!/usr/bin/env python3
"""Writes /verif/MANIFEST.json from the table below (kept in one place so it stays consistent)."""
import json, os
VERIF = os.path.dirname(os.path.dirname(os.path.abspath(__file__)))
ALL = ['C%02d' % i for i in range(1, 21)]

CLAIMED = {
 'C01': dict(
    text="Theorem C01_roundtrip_partial (Coq, induction on nesting fuel and field lists, unbounded): for every class table satisfying ct_rt (everything but bit-field runs), every input and start offset, if unpack succeeds with consumed-chunk trace t then pack() of the result is the sparse array holding every chunk at (position - offset) and '.' elsewhere, and raises exactly when two chunks overlap (via the C11 refinement); C01_trace_symmetry is the inductive core; C01_offset_refuted is the machine-checked witness of finding D10. Generated code is covered through C03. Tie: regenerated kernels (Fragments, Move, Sequence, Int, Data, Bits) + bridges; whole-packet correspondence on random class tables (encodings, truncations, flips, start offsets 1 and 4); implementation-only oracle using the consumed intervals reported by the generic parser.",
    note="Trusted: Coq kernel + vm_compute; pygen; declaration generator/renderers; the metaclass plumbing is modelled by Model/Decl.describe and tied by correspondence only. Bit runs: kernel theorem C07_unpack_pack + correspondence (not C01_roundtrip_partial). Known finding D10 (start-of-data positioning with incompatible start offset) is reported as KNOWN-FINDING.",
    technique="Coq proof of trace symmetry unpack/pack over the declaration language + C11 sparse-array refinement + vm_compute correspondence", design="8/C01"),
 'C04': dict(
    text="Theorems (Coq, all declarations incl. generated code, all inputs/offsets): a successful unpack consumed only chunks that lie inside the input at non-negative positions and are literally the input's bytes (C04_strict); each leaf consumed exactly its declared size and its value is the decode of exactly those bytes (C04_leaf_exact); for any cut, whatever still parses consumed only bytes before the cut (C04_truncation). Tie: kernels Int/Data/Move/Seq/Bits + bridges; exhaustive truncation of single-field classes for every width 1..9,16 and bit groups of 24/40/48 bits at offsets 0..2 on generated and generic code; random tables with every truncation; consumed intervals observed on the implementation.",
    note="Trusted: Coq kernel + vm_compute; pygen; generators; interval recorder wraps the leaf decoders from the harness process (struct runs of generated code are checked by the end-offset bound and by correspondence).",
    technique="Coq proof of consumed-chunk strictness over the interpreters + exhaustive truncation correspondence", design="8/C04"),
 'C08': dict(
    text="Theorems (Coq, for every nested parser, state and input): a false when-condition gives an empty list and consumes nothing; a count gives exactly max(count,0) elements; an until-loop ends exactly when the condition (over the list built so far) is true, stops at once if already true and otherwise parses exactly one more aligned element; an optional is None and consumes/emits nothing iff its condition is false; a reference parses the nested packet at the cursor and continues after it. Tie: kernel G4_seq + bridge; correspondence on random tables rich in repeated/optional/selected fields; reference interpretation of the control rules alone re-examines every parsed packet on the implementation.",
    note="Trusted: Coq kernel + vm_compute; pygen; generators; the reference interpreter of the oracle shares the expression evaluator of the generator (harness/gen.py), not the model.",
    technique="Coq proofs (loop invariants on count/until) + vm_compute correspondence + reference control interpreter", design="8/C08"),
 'C12': dict(
    text="Theorems (Coq): every failing parse/serialize of the model is a PacketError-shaped stack by construction; the stack's last entry is the FIRST field (or struct run in generated code) that failed, at the cursor the previous fields left, with one entry appended per enclosing packet level, outer entries only from nested packet parses (C12_unpack_locates, _generated, C12_nested_from_packets, C12_unpack_stack_shape); when serializing all entries carry the cursor at the failure (C12_pack_locates, C12_pack_stack_shape). Tie: template-matched kernels G9_errors (every except arm of packet.py) and G11_codegen (the generated-code templates) ; correspondence compares complete error stacks (offset, field, class) for every failing truncation/flip/value, generated and generic; oracle: no non-PacketError escapes, str() works, phase flag, stack follows the declaration, silent=True, non-bytes input. Finding D12 (descriptor hook outside the wrapped region) is a KNOWN-FINDING.",
    note="Trusted: Coq kernel + vm_compute; pygen templates; generators. Exception KINDS inside a field are not compared (all become PacketError); messages are not compared.",
    technique="Coq proof of error-stack decomposition + template-matched kernels + vm_compute correspondence on full error stacks", design="8/C12"),
 'C14': dict(
    text="Theorems (Coq, all local declarations, inputs, prefixes, suffixes): unpack(pre++raw, |pre|+off) equals unpack(raw, off) with every position shifted, successes and failures alike (C14_prefix, needs forward-only positioning); the success direction without that condition (C14_prefix_success); appended bytes never change a successful parse without regex / read-to-end fields (C14_suffix); C14_prefix_refuted_backward_move is the machine-checked witness of finding D13. Tie: kernels Data/Move/Seq/Int + bridges; correspondence and pairwise comparison of the implementation's outcomes behind prefixes of 1,3,6 bytes, with suffixes, and for truncated (failing) inputs.",
    note="Trusted: Coq kernel + vm_compute; pygen; generators. Finding D13 (a relative move to before the packet's start reads the preceding bytes) is a KNOWN-FINDING.",
    technique="Coq proof of shift-invariance of the interpreters + vm_compute correspondence + metamorphic comparison", design="8/C14"),
 'C19': dict(
    text="Theorems (Coq): per-kind default table (integers: given default; fixed byte string: NUL bytes of the declared size; given defaults kept); every value-bearing field of a constructed packet holds the keyword's value if named, else its own declared default (prototype copy for references, given/empty list, given/None), independently of the other fields (C19_defaults); keywords override exactly the fields they name (C19_keywords_local). Tie: template-matched Packet.__init__ (G10_eq); correspondence on Cls(**kw) for all keyword subsets of classes up to 6 fields; oracle recomputes the declared defaults from the declaration and compares pack() with the pack() of the fully explicit construction.",
    note="Trusted: Coq kernel + vm_compute; pygen template; generators; copy.deepcopy/pickle of prototypes modelled as structural copy (freshness is C13).",
    technique="Coq proof over init_fields + vm_compute correspondence + metamorphic pack comparison", design="8/C19"),
 'C20': dict(
    text="Theorems (Coq): != is the negation of ==; == holds exactly when same class and every listed attribute is unset on both sides or equal (C20_structural); reflexive on parsed/constructed values, so two parses of the same bytes are equal; changing one field, another class or a non-packet make them unequal; __repr__ only reads attributes that hold a value. Tie: template-matched __eq__/__repr__ (G10_eq, incl. the D4 fix); correspondence on ==/!= of constructed packets; oracle on parsed packets of declarations where positioning modifiers, class align and Em are frequent (parse twice, change one field at any depth, other class, other type, repr).",
    note="Trusted: Coq kernel + vm_compute; pygen template; generators. Totality in the model is by construction (total functions); on the implementation it is the oracle's no-exception check.",
    technique="Coq proof of structural equality + template-matched kernel + vm_compute correspondence", design="8/C20"),
 'C03': dict(
    text="Theorems (Coq, all declarations, inputs, values, all option combinations): the model of the code generator (gen_blocks: group by fixedness, struct code, endianness iff vectorize) executed block by block yields the same values, end offset and consumed chunks as the generic field loop and fails on exactly the same inputs; pack yields buffers with the same content (hence the same bytes) and fails on the same values, provided every Data(n) holds n bytes (else the refutation witness C03_refuted_data_len = finding D11). Tie: per generated module, the text bisturi wrote is read back and its block structure compared with gen_blocks inside Coq (translation validation of every class compiled by the check); model and implementation run the same parses/packs under 4 (quick) or 16 (thorough) option combinations; combinations are compared pairwise on the implementation.",
    note="Trusted: Coq kernel + vm_compute; the meaning of the three-line templates of generated code and of python's struct module (modelled by struct_unpack/struct_pack); harness reader of generated modules; annotate only adds comments (not modelled).",
    technique="Coq equivalence proof generated-vs-generic interpreters + per-module translation validation against the model + vm_compute correspondence", design="8/C03"),
 'C05': dict(
    text="Theorems (Coq, all widths n>=1, all byte patterns, all integers) on the integer codec model: encode/decode are mutually inverse on exactly n bytes, out-of-range is an error, the value is the positional two's-complement value in the stated order, short slices never decode, endianness resolution table. The model is tied to bisturi/field.py on every run by the regenerated kernel G6_int + bridge lemmas and by running model and implementation on ~10^5 cases (exhaustive for 1-byte widths, lane/boundary-exhaustive above, both code paths, all endianness spellings).",
    note="Trusted: Coq kernel + vm_compute; harness/pygen.py; the case generator/renderer; CPython's struct/int.from_bytes/to_bytes are modelled by one codec (that they agree with it is what Tie B checks, by sampling above n=1).",
    technique="Coq proof of codec round-trip/range theorems + regenerated-kernel bridge lemmas + vm_compute correspondence", design="8/C05"),
 'C06': dict(
    text="Theorems (Coq, all inputs, all offsets): a sized read succeeds iff the size is >= 0 and that many bytes are there, returning exactly them; bytes.find returns the FIRST occurrence wholly inside the search window (least index; complete); delimited reads take everything up to it, delimiter included or excluded, cursor just past it; regex search is leftmost / first alternative / greedy for the modelled class; read-to-end; the excluded-delimiter value is delimiter-free and value+delimiter parses back. Tied to bisturi/field.py Data by the regenerated kernel G8_data (cursor arithmetic, short-read test, window end, found test, delimiter accounting) + bridge lemmas and by EXHAUSTIVE correspondence: every marker of length 1..3 over {a,b} x include x window in {unset,0,1..4}, regex class samples, read-to-end, sizes -2..5 as constant/field/expression/callable, against every input over {a,b} up to a length bound at offsets 0 and 1, through real packet classes (generated code included).",
    note="Trusted: Coq kernel + vm_compute; harness/pygen.py; python's bytes.find and re.search are modelled (find_from / re_search for the closed regex class literal|byte+ alternatives); class renderer.",
    technique="Coq proof of first-occurrence/exact-length theorems + regenerated-kernel bridge lemmas + exhaustive small-scope vm_compute correspondence", design="8/C06"),
 'C17': dict(
    text="Theorems (Coq, for every tracked-value type and compute function, every history): the concrete descriptor state machine (tracked value, hidden slot, enabled flag possibly unset) refines the specification (explicit value if assigned and not deleted, else computed); pack serializes exactly what the attribute reads as and leaves the reading unchanged. Tied to bisturi/descriptor.py by the fail-closed template of Auto/AutoLength (kernel G7_auto: any structural change breaks the obligation) and by exhaustive histories (set tracked / set / delete / pack / construct +-keyword / unpack) up to a length bound, for AutoLength and Auto(func), generated and generic code, plus random longer histories; instances have no __dict__.",
    note="Trusted: Coq kernel + vm_compute; harness/pygen.py template matching; python descriptor protocol and __slots__ are modelled (getattr default, setattr); history driver harness/impl_desc.py. Exceptions raised by the compute function itself (wrong-typed tracked value) are outside this property (see C12, finding D12).",
    technique="Coq refinement proof over all operation histories + template-matched kernel + exhaustive-history vm_compute correspondence", design="8/C17"),
 'C07': dict(
    text="Theorems (Coq, all compositions of any number of bits, all integers): the compile step gives member i shift = sum of later widths and mask = (2^w-1)<<shift and rejects totals that are not a multiple of 8; unpack gives each member exactly (I / 2^shift) mod 2^w; after pack every slice holds its own value mod 2^w whatever the other values (any size, any sign) and the stale shared integer are; round trip. Tied to bisturi/field.py Bits by the regenerated kernel G5_bits (mask/shift/get/put expressions, boundary test) + bridge lemmas and by all 128 compositions of 8 bits x 256 patterns plus sampled 16..72-bit runs on model and implementation, both code paths.",
    note="Trusted: Coq kernel + vm_compute; harness/pygen.py; python's unbounded two's-complement ints = Coq Z with Z.land/lor/lnot/shiftl/shiftr; class/case generator.",
    technique="Coq proof (Z.testbit reasoning) of slice theorems + regenerated-kernel bridge lemmas + vm_compute correspondence", design="8/C07"),
 'C09': dict(
    text="Theorems (Coq): C09_compile_correct -- for EVERY value domain, exception type and operator semantics, every expression tree (unary, binary, n-ary with list or mapping, any nesting), environment and stack, running the compiled postfix program leaves exactly the eager left-to-right meaning on the stack or raises its first exception; C09_deferred_means_python -- instantiated with python's semantics on integers/booleans/bytes/lists, the machine's result is Value.eval (what the parsing model uses); operands stay in source order (reflected methods). Tie: template-matched bisturi/deferred.py (G13_deferred: compile_expr, exec_compiled_expr, _defer_method incl. swap of reflected operands); per case the postfix program bisturi compiled is compared with the model's program, its result with the model's (value or exception kind) and with eval of the same python text, and a run on symbolic operands makes operand order observable for every operator; exhaustive for depth 1 (all operators x all ordered leaf pairs) and for all operator pairs nested on either side, random to depth 5 with chooses/if_true_then_else.",
    note="Trusted: Coq kernel + vm_compute; pygen template; python operator semantics on ints/bools/bytes/lists as written in Model/Value.v (checked by correspondence); true division and power are compared against eval only (they leave the modelled domain).",
    technique="Coq proof of compiler correctness (generic) + instance theorem + template-matched kernel + vm_compute correspondence incl. symbolic runs", design="8/C09"),
 'C10': dict(
    text="Theorems (Coq, all cursors/targets/alignments): Move.pack and Move.unpack are the same function of (cursor, innermost position); a packet parsed at start offset b is laid out identically relative to its start when serialized for innermost/current references (and for start-of-data only when b=0 or the alignment divides b: the refutation witness is finding D10, owned by C01); alignment advances by the least d in [0,a) reaching a multiple; negative positions are errors on both sides. Tied by the regenerated kernels G3_move/G4_seq (every position expression of both directions) + bridge lemmas, exhaustive direct calls of Move.unpack/Move.pack over alignment x reference x target x cursor x innermost position x target form, and repeated(aligned=a) classes at all start offsets.",
    note="Trusted: Coq kernel + vm_compute; harness/pygen.py (python % = Z.modulo for non-zero modulus; zero modulus raises); enumeration harness. Whole-packet placement/fill is covered by C01/C11.",
    technique="Coq proof of alignment minimality and shift-invariance + regenerated-kernel bridge lemmas + exhaustive vm_compute correspondence", design="8/C10"),
 'C11': dict(
    text="Theorems (Coq): under an inductive invariant, Fragments.insert raises exactly on overlap, otherwise stores exactly the chunk, moves the cursor, changes nothing else; tobytes puts every stored byte at its position with '.' in holes and length = extent; every operation history refines a sparse-array specification (induction over histories, unbounded). Tied to bisturi/fragments.py by the regenerated kernel G1_frag (every comparison and index expression of insert/tobytes) + bridge lemmas and by replaying all histories up to a length bound plus random longer ones on model and implementation.",
    note="Trusted: Coq kernel + vm_compute; harness/pygen.py and its templates; python dict + sorted() modelled as a key-sorted association list, bisect_right as count of elements <= x on a sorted list; history generator.",
    technique="Coq refinement proof (sparse-array spec) + regenerated-kernel bridge lemmas + vm_compute correspondence", design="8/C11"),
}

def main():
    checks = []
    for pid in ALL:
        if pid not in CLAIMED:
            continue
        c = CLAIMED[pid]
        checks.append(dict(
            property_id=pid,
            quick_cmd=f"python3 check.py {pid} --tier quick",
            thorough_cmd=f"python3 check.py {pid} --tier thorough",
            evidence_file=f"/verif/evidence/{pid}.json",
            replay_cmd_template="python3 check.py --replay {path}",
            engine="coq-model",
            level_claimed=dict(category="proof", text=c['text'], design_ref="DESIGN.md section " + c['design']),
            level_note=c['note'],
            technique=c['technique']))
    na = [dict(property_id=p, reason="check not built yet in this round (planned: DESIGN.md section 8); not claimed") for p in ALL if p not in CLAIMED]
    m = dict(
        version=1,
        setup_cmd="python3 harness/setup.py",
        hooks=dict(guard="BISTURI_VERIF", enable="no source hooks: the harness interposes from outside (PYTHONPATH=/repo, monkeypatching inside the harness process only)",
                   baseline_off_cmd="cd /repo && /venv/bin/python -m pytest -ra -q -p no:cacheprovider --timeout=900 --continue-on-collection-errors tests",
                   source_commits=[], add_only=True),
        engines=[dict(name="coq-model", path="/verif/coq", serves_properties=sorted(CLAIMED),
                      kind_free_text="Coq 8.16 model of bisturi (Kernel/, Model/), theorems (Proofs/, Properties/), Tie A: harness/pygen.py regenerates Gen/*.v from /repo + Bridge/*.v; Tie B: harness/props/*.py run model (vm_compute) and implementation on the same cases")],
        checks=checks,
        notes="All checks: python3 check.py <id> [--tier quick|thorough]; VERIF_SEED honoured; known findings in known_findings.json.",
        not_applicable=na)
    json.dump(m, open(os.path.join(VERIF, 'MANIFEST.json'), 'w'), indent=1)
    print('MANIFEST.json:', len(checks), 'checks,', len(na), 'not claimed')

if __name__ == '__main__':
    main()
