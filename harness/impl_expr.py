"""Implementation driver for C09: deferred expressions.
For each case {"src_d": deferred source text over names f0..f3, "src_l": the same expression as eager python over
pkt.f0.., "env": {name: value}}:
  - builds the deferred expression, compiles it (bisturi.deferred.compile_expr) and reports the postfix program;
  - runs compile_expr_into_callable on a stub packet holding env, reports value or exception type;
  - evaluates the eager source on the same values, reports value or exception type;
  - runs the compiled program with SYMBOLIC field values (objects that record every operation applied to them, operand
    order included) when the expression has no truth/len/chooses (those need concrete values)."""
import sys, json, operator
from bisturi.field import Int, Data
from bisturi.deferred import compile_expr, compile_expr_into_callable, exec_compiled_expr, chooses, if_true_then_else


class Stub:
    pass


class Sym:
    def __init__(self, tag, *args):
        self.tag, self.args = tag, args

    def tree(self):
        return [self.tag] + [a.tree() if isinstance(a, Sym) else ['lit', enc(a)] for a in self.args]


def _bin(name):
    def f(a, b):
        return Sym(name, a, b)
    return f


def _rbin(name):
    def f(a, b):
        return Sym(name, b, a)
    return f


for _n in ('add', 'sub', 'mul', 'truediv', 'floordiv', 'mod', 'pow', 'le', 'lt', 'ge', 'gt', 'eq', 'ne', 'and', 'or', 'xor',
           'rshift', 'lshift', 'getitem'):
    setattr(Sym, '__%s__' % _n, _bin(_n))
for _n in ('add', 'sub', 'mul', 'truediv', 'floordiv', 'mod', 'pow', 'and', 'or', 'xor', 'rshift', 'lshift'):
    setattr(Sym, '__r%s__' % _n, _rbin(_n))
Sym.__neg__ = lambda a: Sym('neg', a)
Sym.__invert__ = lambda a: Sym('inv', a)
Sym.__hash__ = lambda a: id(a)


def enc(v):
    if isinstance(v, bool):
        return {'b': v}
    if isinstance(v, (bytes, bytearray)):
        return {'x': bytes(v).hex()}
    if isinstance(v, (list, tuple)):
        return [enc(x) for x in v]
    if isinstance(v, dict):
        return {'d': [[enc(k), enc(x)] for k, x in v.items()]}
    if isinstance(v, float):
        return {'f': v.hex()}
    if isinstance(v, Sym):
        return {'sym': v.tree()}
    if isinstance(v, slice):
        return {'slice': [v.start, v.stop, v.step]}
    return v


def dec(v):
    if isinstance(v, dict):
        if 'x' in v:
            return bytes.fromhex(v['x'])
        if 'b' in v:
            return v['b']
    if isinstance(v, list):
        return [dec(x) for x in v]
    return v


OPN = {operator.add: 'add', operator.sub: 'sub', operator.mul: 'mul', operator.truediv: 'truediv', operator.floordiv: 'floordiv',
       operator.mod: 'mod', operator.pow: 'pow', operator.le: 'le', operator.lt: 'lt', operator.ge: 'ge', operator.gt: 'gt',
       operator.eq: 'eq', operator.ne: 'ne', operator.and_: 'and', operator.or_: 'or', operator.xor: 'xor',
       operator.rshift: 'rshift', operator.lshift: 'lshift', operator.getitem: 'getitem', operator.neg: 'neg', operator.inv: 'inv',
       operator.truth: 'truth', len: 'len', chooses: 'chooses', if_true_then_else: 'ite'}


def run(c):
    fields = {}
    for n in ('f0', 'f1', 'f2', 'f3'):
        f = Int(1) if n in ('f0', 'f1') else Data(1)
        if n == 'f3':
            f = Int(1).repeated(1)
        f.field_name = n
        fields[n] = f
    out = {}
    try:
        e = eval(c['src_d'], dict(fields))
    except Exception as ex:
        return {'build': type(ex).__name__ + ': ' + str(ex)[:80]}
    ops = compile_expr(e)
    prog = []
    for n, op, lvl, name in ops.ops:
        if n == 0:
            if name.startswith('field-lookup'):
                pkt = Stub()
                for k in fields:
                    setattr(pkt, k, ('FIELD', k))
                prog.append(['load', op(pkt)[1]])
            else:
                prog.append(['push', enc(op(None))])
        elif name == 'arg-list':
            prog.append(['tuple', n])
        elif name == 'arg-mapping':
            probe = op(*range(n))
            prog.append(['dict', n, [enc(k) for k in probe.keys()], [probe[k] for k in probe.keys()] == list(range(n))])
        else:
            prog.append(['op', n, OPN.get(op, '?' + repr(op))])
    out['prog'] = prog
    # further expressions over the SAME field objects (as in one class body): each must mean what its own text means
    if c.get('also'):
        out['also'] = []
        fns = [(txt, compile_expr_into_callable(eval(txt, dict(fields)))) for txt, _ in c['also']]
        fn0 = compile_expr_into_callable(e)
        for (txt, lam), (_, fn2) in zip(c['also'], fns):
            p3 = Stub()
            for k3, v3 in c['env'].items():
                setattr(p3, k3, dec(v3))
            try:
                d3 = ['ok', enc(fn2(pkt=p3))]
            except Exception as ex:
                d3 = ['exc', type(ex).__name__]
            try:
                g3 = ['ok', enc(eval('lambda pkt: ' + lam)(p3))]
            except Exception as ex:
                g3 = ['exc', type(ex).__name__]
            out['also'].append([txt, d3, g3])
    env = {k: dec(v) for k, v in c['env'].items()}
    pkt = Stub()
    for k, v in env.items():
        setattr(pkt, k, v)
    fn = compile_expr_into_callable(e)
    try:
        out['deferred'] = ['ok', enc(fn(pkt=pkt))]
    except Exception as ex:
        out['deferred'] = ['exc', type(ex).__name__]
    # the same compiled expression evaluated again on further environments (state must not leak between evaluations)
    out['again'] = []
    for env2 in c.get('more_envs', []):
        p2 = Stub()
        for k, v in env2.items():
            setattr(p2, k, dec(v))
        try:
            d2 = ['ok', enc(fn(pkt=p2))]
        except Exception as ex:
            d2 = ['exc', type(ex).__name__]
        try:
            g2 = ['ok', enc(eval('lambda pkt: ' + c['src_l'], {'_ch': lambda s, o: o[s], '_ite': lambda cc, a, b: a if bool(cc) else b})(p2))]
        except Exception as ex:
            g2 = ['exc', type(ex).__name__]
        out['again'].append([d2, g2])
    try:
        out['eager'] = ['ok', enc(eval('lambda pkt: ' + c['src_l'], {'_ch': lambda s, o: o[s], '_ite': lambda cc, a, b: a if bool(cc) else b})(pkt))]
    except Exception as ex:
        out['eager'] = ['exc', type(ex).__name__]
    if c.get('symbolic'):
        spkt = Stub()
        for k in fields:
            setattr(spkt, k, Sym('field', k))
        try:
            r = exec_compiled_expr(spkt, [], ops.as_list())
            out['symbolic'] = r.tree() if isinstance(r, Sym) else ['lit', enc(r)]
        except Exception as ex:
            out['symbolic'] = ['exc', type(ex).__name__]
    return out


if __name__ == '__main__':
    payload = json.load(open(sys.argv[1]))
    json.dump([run(c) for c in payload['cases']], open(sys.argv[2], 'w'), default=lambda o: {'object': type(o).__name__})
