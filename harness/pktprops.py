"""Shared by the whole-packet property checks: generation of groups (class tables + operations), conversion of
canonical outcomes back to generator values, small helpers for the oracles."""
import json
import random
from common import *
import decl, gen, pktcases


def make_groups(rng, ngroups, features=None, values_per_class=2, offsets=(), maxcuts=12, flips=2, record=False,
                defaults=True, tag_base=0, nclasses=(2, 3, 4), extra=None, cut_with_prefix=False):
    groups = []
    for gid in range(ngroups):
        feats = features(gid) if callable(features) else dict(features or {})
        g = gen.Gen(rng, feats)
        table = g.make_table(rng.choice(list(nclasses)))
        G = pktcases.Group(table, tag_base + gid)
        G.local = (gid % 7 == 6)      # every seventh table: classes declared inside a function (prototypes cloned from the live object, not by pickle)
        vg = gen.ValGen(rng, table)
        for c in table:
            for _ in range(values_per_class):
                v = vg.try_value(c)
                if v is not None:
                    G.add_derive(c, v, seed=rng.randrange(10 ** 6), offsets=offsets, maxcuts=maxcuts, flips=flips, record=record,
                                 cut_with_prefix=cut_with_prefix)
            if defaults:
                G.add_default(c, {})
            if extra:
                extra(G, c, vg, rng)
        groups.append(G)
    return groups


def uncanon(v):
    """canonical implementation value -> python value as the generator's evaluator understands it"""
    if isinstance(v, dict):
        if 'x' in v:
            return bytes.fromhex(v['x'])
        if 'p' in v:
            return ('pkt', int(v['p'][1:]), {int(n[1:]): uncanon(x) for n, x in v['f']
                                             if n.startswith('f') and n[1:].isdigit() and not (isinstance(x, dict) and x.get('unset'))})
        return None
    if isinstance(v, list):
        return [uncanon(x) for x in v]
    return v


def class_source(groups, gid):
    return pktcases.source_of(groups, gid)


def table_of(groups, gid):
    for g in groups:
        if g.gid == gid:
            return g.table
    return None


def has_feature(table, pred):
    """does any field body / leaf of the table satisfy pred(kind, obj)?"""
    def leaves(el):
        if el[0] == 'leaf':
            yield el[1]
        elif el[0] == 'refsel':
            e = el[1]
            opts = e[2] if e[0] == 'choose' else e[3]
            for o in opts:
                if o[0] == 'lit' and isinstance(o[1], tuple) and o[1][0] == 'leaf':
                    yield o[1][1]
    for pc in table.values():
        if pred('class', pc):
            return True
        for fd in pc['fields']:
            if fd.get('move') and pred('move', fd['move']):
                return True
            b = fd['body']
            if pred('body', b):
                return True
            if b[0] in ('elem', 'seq', 'opt'):
                for l in leaves(b[1]):
                    if pred('leaf', l):
                        return True
    return False


def leaf_violations(table, v, path=''):
    """what the parsed VALUES alone show about strictness: a byte string of declared constant size has that size; a
    marker-delimited string ends with its first delimiter (kept) or does not contain it (not kept).  Returns messages."""
    out = []
    if not (isinstance(v, tuple) and v[0] == 'pkt'):
        return out
    pc = table[v[1]]

    def leaf(l, x, where):
        if not isinstance(x, bytes):
            return
        if l[0] == 'dsized' and l[2] == 'const' and isinstance(l[1][1], int) and l[1][1] >= 0 and len(x) != l[1][1]:
            out.append(f"{where}: Data({l[1][1]}) holds {len(x)} bytes")
        if l[0] == 'dmarker':
            m = l[1]
            if l[2]:
                if not x.endswith(m) or x.find(m) != len(x) - len(m):
                    out.append(f"{where}: a string delimited by {m!r} (kept) holds {x!r}: it does not end with its first delimiter")
            elif m in x:
                out.append(f"{where}: a string delimited by {m!r} (not kept) holds {x!r}, which contains the delimiter")

    def elem(el, x, where):
        if el[0] == 'leaf':
            leaf(el[1], x, where)
        elif isinstance(x, tuple) and x[0] == 'pkt':
            out.extend(leaf_violations(table, x, where + '/'))
    for i, fd in enumerate(pc['fields']):
        b = fd['body']
        x = v[2].get(i)
        where = f"{path}K{v[1]}.f{i}"
        if b[0] == 'elem':
            elem(b[1], x, where)
        elif b[0] == 'seq' and isinstance(x, list):
            for y in x:
                elem(b[1], y, where + '[]')
        elif b[0] == 'opt' and x is not None:
            elem(b[1], x, where)
    return out


def generic_replay(f, extra_header=''):
    """Re-run the concrete input of a recorded failure on the implementation as it is now: the classes are defined from the
    recorded source, the recorded bytes are parsed (and re-serialized) and/or the recorded value is constructed and serialized.
    Returns (still_fails, info): still_fails is True when the recorded observation is reproduced (or cannot be compared)."""
    import re as _re, os as _os
    from common import run_impl, VERIF
    src = f.get('classes') or f.get('classes_b') or (f.get('cls') if isinstance(f.get('cls'), str) and 'class ' in f.get('cls', '') else None)
    if not src:
        return True, dict(note='this failure records no class source: re-run the check', failure=f)
    names = _re.findall(r'^class (\w+)\(', src, _re.M)
    cls = f.get('cls') if (isinstance(f.get('cls'), str) and f.get('cls') in names) else (names[-1] if names else None)
    case = f.get('case') if isinstance(f.get('case'), dict) else {}
    raw = f.get('raw') if isinstance(f.get('raw'), str) else case.get('raw')
    off = f.get('offset', case.get('offset', 0)) or 0
    value = f.get('value') if isinstance(f.get('value'), str) else (f.get('keywords') if isinstance(f.get('keywords'), str) else None)
    cases = []
    if raw is not None:
        cases.append(dict(cls=cls, op='roundtrip', raw=raw, offset=off, record=True))
    if f.get('packed') and isinstance(f.get('packed'), str):
        cases.append(dict(cls=cls, op='roundtrip', raw=f['packed'], offset=0))
    if value and value.startswith('K'):
        cases.append(dict(cls=cls, op='pack', value={"py": value}))
        cases.append(dict(cls=cls, op='default', value={"py": value}))
    if not cases:
        return True, dict(note='no concrete input recorded: re-run the check', failure=f)
    res = run_impl(_os.path.join(VERIF, 'harness', 'impl_pkt.py'),
                   dict(header=decl.HEADER_PY + extra_header, blocks=[dict(name='all', src=src)], modname='replay', cases=cases))
    now = [dict(case={k: v for k, v in c.items() if k != 'record'}, outcome=o) for c, o in zip(cases, res['outcomes'])]
    obs = f.get('observed')
    same = None
    if obs is not None:
        same = any(json.dumps(n['outcome'], sort_keys=True) == json.dumps(obs, sort_keys=True) or str(obs) in json.dumps(n['outcome'])
                   for n in now)
    return (same is not False), dict(definitions=res['defs'], now=now, recorded=obs, reproduced=same, what=f.get('what'))


def public_api_failures(groups, records):
    """Cls.unpack(raw, offset) must show what unpack_impl(raw, offset) shows: same values or the same phase and stack"""
    out = []
    for r in records:
        o = r.get('outcome')
        if r.get('kind') == 'roundtrip' and isinstance(o, dict) and 'api_differs' in o:
            out.append(dict(kind='oracle', sig='public-api', what='Cls.unpack(raw, offset) does not report what the parse at that offset reports (values / error positions shifted by the offset)',
                            classes=class_source(groups, r['group']), cls=decl.cname(r['c']), raw=r['raw'].hex(), offset=r['offset'],
                            observed=o['api_differs'], required={k: v for k, v in o.items() if k in ('ok', 'err', 'stack', 'exc')}))
    return out
