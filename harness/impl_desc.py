"""Implementation driver for C17: operation histories on packets with an Auto / AutoLength described field.
Classes: kind 'len' -> length = Int(1).describe(AutoLength('a')); a = Data(length)
         kind 'fun' -> x = Int(1).describe(Auto(lambda pkt: pkt.t * 2 + 1)); t = Int(1)
each with generated and with generic code.  Observation after every step: what the attribute reads as;
for pack additionally the serialized integer (first byte on the wire)."""
import sys, os, json, importlib.util

SRC = '''
from bisturi.packet import Packet
from bisturi.field import Int, Data, Ref
from bisturi.descriptor import Auto, AutoLength
class LenG(Packet):
    length = Int(1).describe(AutoLength('a'))
    a = Data(length)
class LenL(Packet):
    __bisturi__ = {'generate_for_pack': False, 'generate_for_unpack': False}
    length = Int(1).describe(AutoLength('a'))
    a = Data(length)
class EmbG(Packet):
    sub = Ref(LenG, embed=True)
class EmbL(Packet):
    __bisturi__ = {'generate_for_pack': False, 'generate_for_unpack': False}
    sub = Ref(LenL, embed=True)
class RefG(Packet):
    tag = Int(1, default=7)
    sub = Ref(LenG(length=1, a=b'z'))
class RefL(Packet):
    __bisturi__ = {'generate_for_pack': False, 'generate_for_unpack': False}
    tag = Int(1, default=7)
    sub = Ref(LenL(length=1, a=b'z'))
class PlaG(Packet):
    tag = Int(1, default=7)
    length = Int(1).describe(AutoLength('a')).at(2)
    a = Data(length)
class PlaL(Packet):
    __bisturi__ = {'generate_for_pack': False, 'generate_for_unpack': False}
    tag = Int(1, default=7)
    length = Int(1).describe(AutoLength('a')).at(2)
    a = Data(length)
class WidG(Packet):
    length = Int(3).describe(AutoLength('a'))
    a = Data(length)
class WidL(Packet):
    __bisturi__ = {'generate_for_pack': False, 'generate_for_unpack': False}
    length = Int(3).describe(AutoLength('a'))
    a = Data(length)
class FunW(Packet):
    x = Int(5).describe(Auto(lambda pkt: pkt.t * 2 + 1))
    t = Int(1)
class FunA(Packet):
    __bisturi__ = {'align': 2}
    x = Int(1).describe(Auto(lambda pkt: pkt.t * 2 + 1))
    t = Int(1)
class FunG(Packet):
    x = Int(1).describe(Auto(lambda pkt: pkt.t * 2 + 1))
    t = Int(1)
class FunL(Packet):
    __bisturi__ = {'generate_for_pack': False, 'generate_for_unpack': False}
    x = Int(1).describe(Auto(lambda pkt: pkt.t * 2 + 1))
    t = Int(1)
'''


def run(mod, h):
    cls = getattr(mod, h['cls'])
    islen = h['cls'].startswith(('Len', 'Emb', 'Pla', 'Ref', 'Wid'))
    wide = {'WidG': 3, 'WidL': 3, 'FunW': 5}.get(h['cls'], 1)      # the described integer has no struct code (3 / 5 bytes, big endian)
    nested = h['cls'].startswith('Ref')       # the described field lives in a referenced packet whose prototype INSTANCE pins it
    placed = h['cls'].startswith('Pla')       # the described field is positioned: tag, one skipped byte, then the field
    aligned = h['cls'] == 'FunA'              # class-wide alignment 2: x at 0, t at 2
    name = 'length' if islen else 'x'
    p = None
    out = []
    for op in h['ops']:
        try:
            k = op[0]
            w = None
            if k == 'construct':
                kw = {}
                if islen:
                    kw['a'] = b'z' * op[1]
                else:
                    kw['t'] = op[1]
                if op[2] is not None:
                    kw[name] = op[2]
                if nested:
                    top = cls(sub=getattr(mod, 'LenG' if h['cls'] == 'RefG' else 'LenL')(**kw))
                    p = top.sub
                else:
                    p = cls(**kw)
            elif k == 'unpack':
                # parsed value op[2] for the described field, tracked value op[1]
                raw = b'\x00' * (wide - 1) + bytes([op[2]]) + (b'q' * op[2] if islen else ((b'.' if aligned else b'') + bytes([op[1]])))
                if placed:
                    raw = b'\x07.' + raw
                if nested:
                    top = cls.unpack(b'\x07' + raw)
                    p = top.sub
                else:
                    p = cls.unpack(raw)
            elif k == 'set_tracked':
                if islen:
                    p.a = b'y' * op[1]
                else:
                    p.t = op[1]
            elif k == 'set':
                setattr(p, name, op[1])
            elif k == 'del':
                delattr(p, name)
            elif k == 'pack':
                w = top.pack()[1] if nested else p.pack()[2 if placed else wide - 1]
            out.append(['ok', getattr(p, name), w, hasattr(p, '__dict__')])
        except Exception as e:
            out.append(['exc', type(e).__name__, str(e)[:80]])
            break
    return out


if __name__ == '__main__':
    payload = json.load(open(sys.argv[1]))
    d = os.path.dirname(os.path.abspath(sys.argv[1]))
    path = os.path.join(d, 'descmod%d.py' % os.getpid())
    open(path, 'w').write(SRC)
    spec = importlib.util.spec_from_file_location('descmod%d' % os.getpid(), path)
    mod = importlib.util.module_from_spec(spec)
    sys.modules[spec.name] = mod
    spec.loader.exec_module(mod)
    json.dump([run(mod, h) for h in payload['histories']], open(sys.argv[2], 'w'), default=lambda o: 'object of type ' + type(o).__name__)
