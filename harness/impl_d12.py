"""Probe for finding D12: a descriptor hook that raises makes pack() fail without a PacketError."""
import sys, os, json, importlib.util
SRC = '''
from bisturi.packet import Packet
from bisturi.field import Int, Data
from bisturi.descriptor import AutoLength
class HG(Packet):
    length = Int(1).describe(AutoLength('a'))
    a = Data(length)
class HL(Packet):
    __bisturi__ = {'generate_for_pack': False, 'generate_for_unpack': False}
    length = Int(1).describe(AutoLength('a'))
    a = Data(length)
'''
if __name__ == '__main__':
    d = os.path.dirname(os.path.abspath(sys.argv[1]))
    path = os.path.join(d, 'd12mod.py')
    open(path, 'w').write(SRC)
    spec = importlib.util.spec_from_file_location('d12mod', path)
    mod = importlib.util.module_from_spec(spec); sys.modules['d12mod'] = mod; spec.loader.exec_module(mod)
    from bisturi.packet import PacketError
    out = []
    for cls in (mod.HG, mod.HL):
        for bad in (None, 5):
            p = cls(a=b'xy')
            p.a = bad
            try:
                p.pack(); out.append([cls.__name__, repr(bad), 'no error'])
            except PacketError as e:
                out.append([cls.__name__, repr(bad), 'PacketError'])
            except Exception as e:
                out.append([cls.__name__, repr(bad), type(e).__name__])
        # explicit length: the hook does not call len(): a wrong-typed value then fails inside the wrapped region
        p = cls(a=b'xy'); p.length = 2; p.a = None
        try:
            p.pack(); out.append([cls.__name__, 'explicit', 'no error'])
        except PacketError:
            out.append([cls.__name__, 'explicit', 'PacketError'])
        except Exception as e:
            out.append([cls.__name__, 'explicit', type(e).__name__])
    json.dump(out, open(sys.argv[2], 'w'), default=lambda o: {'object': type(o).__name__})
