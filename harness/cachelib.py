"""Shared by C15 / C16: launching impl_cache.py processes on a shared scratch directory, the stepwise scheduler,
conformance of an observed file-operation trace with the protocol program of Kernel/Cache.v."""
import os, sys, json, subprocess, re, shutil
from common import *

DRIVER = os.path.join(VERIF, 'harness', 'impl_cache.py')


def penv(bytecode):
    env = impl_env()
    if bytecode:
        env.pop('PYTHONDONTWRITEBYTECODE', None)
    else:
        env['PYTHONDONTWRITEBYTECODE'] = '1'
    return env


def run_proc(d, steps, bytecode=False, mode='history', crash_at=None, crash_bytes=None, tag='p', fixed_pid=None):
    """one process: returns (exit code, out dict or None)"""
    inp = os.path.join(d, f'in_{tag}.json')
    outp = os.path.join(d, f'out_{tag}.json')
    if os.path.exists(outp):
        os.remove(outp)
    json.dump(dict(dir=d, mode=mode, steps=steps, crash_at=crash_at, crash_bytes=crash_bytes, variants=steps if mode == 'cookies' else None, fixed_pid=fixed_pid), open(inp, 'w'))
    p = subprocess.run(['timeout', '120', PY, DRIVER, inp, outp], env=penv(bytecode), cwd=d, stdout=subprocess.PIPE, stderr=subprocess.STDOUT, text=True)
    out = json.load(open(outp)) if os.path.exists(outp) else None
    return p.returncode, out, p.stdout[-600:]


def run_scheduled(d, procs, schedule):
    """procs: list of (steps, bytecode); schedule: list of process indices -- which process performs its next file operation.
    Returns (outs, traces): traces[i] = op names process i performed, in global order positions."""
    ps = []
    for i, (steps, bytecode) in enumerate(procs):
        inp = os.path.join(d, f'in_s{i}.json')
        outp = os.path.join(d, f'out_s{i}.json')
        if os.path.exists(outp):
            os.remove(outp)
        json.dump(dict(dir=d, mode='sched', steps=steps), open(inp, 'w'))
        p = subprocess.Popen([PY, DRIVER, inp, outp], env=penv(bytecode), cwd=d, stdin=subprocess.PIPE, stdout=subprocess.PIPE,
                             stderr=subprocess.DEVNULL, text=True, bufsize=1)
        ps.append(p)
    waiting = [None] * len(ps)      # the op each process is blocked at
    done = [False] * len(ps)
    order = []

    def advance(i):
        """read until process i announces its next operation or finishes"""
        while True:
            line = ps[i].stdout.readline()
            if not line or line.startswith('DONE'):
                done[i] = True
                waiting[i] = None
                return
            if line.startswith('AT '):
                waiting[i] = line.split()[2]
                return
    for i in range(len(ps)):
        advance(i)
    sched = list(schedule)
    while not all(done):
        i = sched.pop(0) if sched else next(k for k in range(len(ps)) if not done[k])
        if done[i]:
            i = next(k for k in range(len(ps)) if not done[k])
        order.append((i, waiting[i]))
        try:
            ps[i].stdin.write('GO\n'); ps[i].stdin.flush()
        except BrokenPipeError:
            done[i] = True
            continue
        advance(i)
    outs = []
    for i, p in enumerate(ps):
        try:
            p.stdin.close()
        except Exception:
            pass
        p.wait(timeout=60)
        outp = os.path.join(d, f'out_s{i}.json')
        outs.append(json.load(open(outp)) if os.path.exists(outp) else None)
    return outs, order


# the file operations of one definition, as the protocol of Kernel/Cache.v allows them:
#   SLoad: exists [load]        (no load when the file does not exist)
#   SHit: nothing more
#   SMiss: remove (the stale bytecode, if there) ; SWriteTmp: makedirs open write close ; SReplace: replace ; SReload: load ; SVerify/install
TRACE_RE = re.compile(r'^exists( load)?( remove makedirs open write close replace load)?$')


TRACE_NOLOAD_RE = re.compile(r'^exists( remove makedirs open write close replace)?$')


def conforms(ops, noload=False):
    """noload: the harness could not observe the loads (the code generator loads modules by other means than the loader it used to import)"""
    return bool((TRACE_NOLOAD_RE if noload else TRACE_RE).match(' '.join(ops)))


def step_ok(rec, variant):
    """the property on one definition: it succeeded and the class behaves as its own declaration says"""
    if not rec.get('defined'):
        return f"the definition failed: {rec.get('exc')}"
    if rec['behaviour'] != rec['reference']:
        return f"the class does not behave per its declaration: {rec['behaviour']} vs {rec['reference']}"
    for v0, ok in rec.get('earlier', []):
        if not ok:
            return f"a class defined EARLIER in this process (declaration {v0[:80]}) no longer behaves per its own declaration after this definition"
    return None
