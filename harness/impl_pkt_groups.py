"""Several independent groups (class table + cases) in one implementation process."""
import sys, os, json
sys.path.insert(0, os.path.dirname(os.path.abspath(__file__)))
from impl_pkt import run_group

if __name__ == '__main__':
    payload = json.load(open(sys.argv[1]))
    d = os.path.dirname(os.path.abspath(sys.argv[1]))
    sys.path.insert(0, d)
    out = {"groups": []}
    for g in payload["groups"]:
        try:
            out["groups"].append(run_group(g, d))
        except BaseException as e:
            out["groups"].append({"defs": {}, "outcomes": [], "crash": "%s: %s" % (type(e).__name__, e)})
    json.dump(out, open(sys.argv[2], 'w'), default=lambda o: {'object': type(o).__name__})
