#!/usr/bin/env python3
"""MANIFEST.setup_cmd: build the whole Coq development from files on disk (Gen regenerated from /repo),
then the gate: no Admitted/admit/Axiom/Parameter/Conjecture/unsafe flags anywhere in coq/."""
import os, re, sys, subprocess
sys.path.insert(0, os.path.dirname(os.path.abspath(__file__)))
from common import *

FORBIDDEN = re.compile(r'\b(Admitted|admit|Axiom|Axioms|Parameter|Parameters|Conjecture|Hypothesis|Variable|Variables|'
                       r'Admit Obligations|Unset Guard Checking|Unset Positivity Checking|Unset Universe Checking|'
                       r'bypass_check|type-in-type|impredicative-set|native_compute)\b')


def strip_comments(s):
    out, depth, i = [], 0, 0
    while i < len(s):
        if s.startswith('(*', i):
            depth += 1; i += 2
        elif s.startswith('*)', i) and depth:
            depth -= 1; i += 2
        else:
            if not depth:
                out.append(s[i])
            i += 1
    return ''.join(out)


def gate():
    bad = []
    for f in coq_sources():
        txt = strip_comments(open(os.path.join(COQ, f)).read())
        # Variable/Hypothesis are allowed inside a Section only
        depth = 0
        for ln, line in enumerate(txt.split('\n'), 1):
            if re.match(r'\s*Section\s', line):
                depth += 1
            if re.match(r'\s*End\s', line) and depth:
                depth -= 1
            for m in FORBIDDEN.finditer(line):
                w = m.group(1)
                if w in ('Variable', 'Variables', 'Hypothesis') and depth > 0:
                    continue
                bad.append(f"{f}:{ln}: {w}")
    return bad


if __name__ == '__main__':
    targets = [f[:-2] + '.vo' for f in coq_sources() if not f.startswith('Gen/')]
    import pygen
    pygen.generate(None)
    targets = [f[:-2] + '.vo' for f in coq_sources()]
    b = regen_and_build(targets, timeout=3000)
    bad = gate()
    for x in bad:
        print('GATE:', x)
    if not b['ok']:
        print(b['log_tail'])
        print('setup: Coq build failed:', b['failed_files'] or b['missing'])
    print(f"setup: {len(targets)} files, build {'ok' if b['ok'] else 'FAILED'} in {b['wall_s']:.0f}s, gate {'ok' if not bad else 'FAILED'}")
    # the build failing is reported by the individual checks (a broken obligation is a verdict, not a setup error);
    # only the gate makes setup itself fail
    sys.exit(1 if bad else 0)
