#!/usr/bin/env python3
"""Tie A: fail-closed translator from small kernels of /repo/bisturi/*.py to Gallina (coq/Gen/*.v).

How it works
  * each kernel has a *template* (harness/templates/<kernel>.py): the python function as it is expected
    to look, with the arithmetic / decision expressions replaced by names HOLE_<id>;
  * the function found in /repo is matched against the template node by node (python `ast`): every
    non-hole part must be structurally identical (statement order, control flow, the names assigned, the
    calls made); docstrings and comments do not count; a HOLE captures the expression found at its place;
  * every captured expression is translated by a generic typed expression translator (python ints -> Z,
    comparisons/bool ops -> bool, `not x`/truthiness of an int -> (x =? 0), // and % -> Z.div / Z.modulo
    which coincide with python's floor division for a non-zero divisor; <<,>>,&,|,^,~ -> Z.shiftl ...);
    sub-expressions that are not arithmetic (len(...), attribute reads, subscripts, calls) must be listed
    in the hole's environment, which maps their source text to a Gallina parameter;
  * an unknown node, a template mismatch, a missing function or an unmapped name aborts that kernel with
    the location: the kernel's Gen file then contains a failing `Fail`-free marker so that the bridge
    lemma cannot compile (the check proceeds as for a broken proof obligation).

The output text is deterministic; files are only rewritten when their content changes (so `make` stays
incremental)."""
import ast, os, sys, json, hashlib

REPO = os.environ.get('BISTURI_REPO', '/repo')
HERE = os.path.dirname(os.path.abspath(__file__))
TEMPLATES = os.path.join(HERE, 'templates')
GEN_DIR = os.path.join(os.path.dirname(HERE), 'coq', 'Gen')


class GenError(Exception):
    pass


# ---------------------------------------------------------------- AST matching with holes
def strip_docstrings(node):
    for n in ast.walk(node):
        body = getattr(n, 'body', None)
        if isinstance(body, list):
            n.body = [s for s in body
                      if not (isinstance(s, ast.Expr) and isinstance(s.value, ast.Constant)
                              and isinstance(s.value.value, str))] or [ast.Pass()]
    return node


def match(tpl, act, holes, where):
    """Structural comparison of template node `tpl` with actual node `act`; fills `holes`."""
    if isinstance(tpl, ast.Name) and tpl.id.startswith('HOLE_'):
        if not isinstance(act, ast.expr):
            raise GenError(f"{where}: expected an expression for {tpl.id}")
        hid = tpl.id[5:]
        if hid in holes and ast.dump(holes[hid]) != ast.dump(act):
            raise GenError(f"{where}: hole {hid} captured two different expressions")
        holes[hid] = act
        return
    if type(tpl) is not type(act):
        raise GenError(f"{where}: expected {type(tpl).__name__}, found {type(act).__name__} "
                       f"at line {getattr(act, 'lineno', '?')}: {safe_unparse(act)}")
    if isinstance(tpl, ast.AST):
        for f in tpl._fields:
            if f in ('ctx', 'type_comment', 'kind', 'lineno', 'col_offset', 'end_lineno', 'end_col_offset'):
                continue
            match(getattr(tpl, f, None), getattr(act, f, None), holes, f"{where}.{f}")
    elif isinstance(tpl, list) and any(_is_stmts_hole(x) for x in tpl):
        # one statement-level wildcard: HOLE_STMTS_<id> stands for any run of statements (captured, not compared)
        k = next(i for i, x in enumerate(tpl) if _is_stmts_hole(x))
        pre, post = tpl[:k], tpl[k + 1:]
        if any(_is_stmts_hole(x) for x in post):
            raise GenError(f"{where}: more than one statement wildcard in one block of the template")
        if len(act) < len(pre) + len(post):
            raise GenError(f"{where}: fewer statements than the template requires")
        for i, (a, b) in enumerate(zip(pre, act[:len(pre)])):
            match(a, b, holes, f"{where}[{i}]")
        tail = act[len(act) - len(post):] if post else []
        for i, (a, b) in enumerate(zip(post, tail)):
            match(a, b, holes, f"{where}[-{len(post) - i}]")
        holes[tpl[k].value.id[5:]] = act[len(pre):len(act) - len(post)]
    elif isinstance(tpl, list):
        if len(tpl) != len(act):
            raise GenError(f"{where}: expected {len(tpl)} items, found {len(act)} "
                           f"(near line {getattr(act[0], 'lineno', '?') if act else '?'})")
        for i, (a, b) in enumerate(zip(tpl, act)):
            match(a, b, holes, f"{where}[{i}]")
    else:
        if tpl != act:
            raise GenError(f"{where}: expected {tpl!r}, found {act!r}")


def _is_stmts_hole(x):
    return isinstance(x, ast.Expr) and isinstance(x.value, ast.Name) and x.value.id.startswith('HOLE_STMTS_')


def safe_unparse(n):
    try:
        return ast.unparse(n)[:80]
    except Exception:
        return '<?>'


def find_function(tree, cls, name):
    for n in tree.body:
        if cls is None and isinstance(n, ast.FunctionDef) and n.name == name:
            return n
        if isinstance(n, ast.ClassDef) and n.name == cls:
            for m in n.body:
                if isinstance(m, ast.FunctionDef) and m.name == name:
                    return m
    raise GenError(f"function {cls}.{name} not found")


# ---------------------------------------------------------------- typed expression translator
class Tr:
    """env: source text of a sub-expression -> (gallina term, 'Z'|'bool')."""
    def __init__(self, env, where):
        self.env = env
        self.where = where

    def fail(self, n, why):
        raise GenError(f"{self.where}: cannot translate `{safe_unparse(n)}` (line {getattr(n, 'lineno', '?')}): {why}")

    def expr(self, n):
        key = ast.unparse(n)
        if key in self.env:
            return self.env[key]
        if isinstance(n, ast.Constant):
            if isinstance(n.value, bool):
                return ('true' if n.value else 'false', 'bool')
            if isinstance(n.value, int):
                return (f"({n.value})" if n.value < 0 else str(n.value), 'Z')
            self.fail(n, 'constant type')
        if isinstance(n, ast.Name):
            self.fail(n, 'name not in the kernel environment')
        if isinstance(n, ast.BinOp):
            a = self.as_Z(n.left)
            b = self.as_Z(n.right)
            ops = {ast.Add: '{} + {}', ast.Sub: '{} - {}', ast.Mult: '{} * {}', ast.FloorDiv: '{} / {}',
                   ast.Mod: '{} mod {}', ast.LShift: 'Z.shiftl {} {}', ast.RShift: 'Z.shiftr {} {}',
                   ast.BitAnd: 'Z.land {} {}', ast.BitOr: 'Z.lor {} {}', ast.BitXor: 'Z.lxor {} {}',
                   ast.Pow: '{} ^ {}'}
            t = ops.get(type(n.op))
            if t is None:
                self.fail(n, 'operator')
            return ('(' + t.format(a, b) + ')', 'Z')
        if isinstance(n, ast.UnaryOp):
            if isinstance(n.op, ast.USub):
                return (f"(- {self.as_Z(n.operand)})", 'Z')
            if isinstance(n.op, ast.Invert):
                return (f"(Z.lnot {self.as_Z(n.operand)})", 'Z')
            if isinstance(n.op, ast.Not):
                return (f"(negb {self.as_bool(n.operand)})", 'bool')
            self.fail(n, 'unary operator')
        if isinstance(n, ast.Compare):
            parts = []
            left = n.left
            for op, right in zip(n.ops, n.comparators):
                if isinstance(op, (ast.In, ast.NotIn)):
                    if not isinstance(right, (ast.Tuple, ast.List)):
                        self.fail(n, '`in` needs a literal tuple')
                    a = self.as_Z(left)
                    alts = ' || '.join(f"({a} =? {self.as_Z(e)})" for e in right.elts) or 'false'
                    parts.append(f"({alts})" if isinstance(op, ast.In) else f"(negb ({alts}))")
                else:
                    a, b = self.as_Z(left), self.as_Z(right)
                    t = {ast.Lt: '({} <? {})', ast.LtE: '({} <=? {})', ast.Gt: '({} >? {})',
                         ast.GtE: '({} >=? {})', ast.Eq: '({} =? {})', ast.NotEq: '(negb ({} =? {}))'}.get(type(op))
                    if t is None:
                        self.fail(n, 'comparison operator')
                    parts.append(t.format(a, b))
                left = right
            return (parts[0] if len(parts) == 1 else '(' + ' && '.join(parts) + ')', 'bool')
        if isinstance(n, ast.BoolOp):
            vals = [self.as_bool(v) for v in n.values]
            return ('(' + (' && ' if isinstance(n.op, ast.And) else ' || ').join(vals) + ')', 'bool')
        if isinstance(n, ast.Call) and isinstance(n.func, ast.Name) and n.func.id in ('max', 'min') \
                and len(n.args) == 2 and not n.keywords:
            return (f"(Z.{n.func.id} {self.as_Z(n.args[0])} {self.as_Z(n.args[1])})", 'Z')
        if isinstance(n, ast.IfExp):
            c = self.as_bool(n.test)
            a, ta = self.expr(n.body)
            b, tb = self.expr(n.orelse)
            if ta != tb:
                self.fail(n, 'branches of different type')
            return (f"(if {c} then {a} else {b})", ta)
        self.fail(n, f"node {type(n).__name__}")

    def as_Z(self, n):
        t, ty = self.expr(n)
        if ty != 'Z':
            self.fail(n, 'integer expected')
        return t

    def as_bool(self, n):
        """python truthiness"""
        t, ty = self.expr(n)
        if ty == 'bool':
            return t
        return f"(negb ({t} =? 0))"


# ---------------------------------------------------------------- kernels
# hole spec: id -> dict(name=gallina name, params=[(gallina var, type)], env={source text: gallina var},
#                       result='Z'|'bool'|None (None = captured but not translated))
def H(name, params, env, result):
    return dict(name=name, params=params, env=env, result=result)


Z = 'Z'
KERNELS = {}


def kernel(kid, pyfile, functions, module, holes, extra=''):
    KERNELS[kid] = dict(pyfile=pyfile, functions=functions, module=module, holes=holes, extra=extra)


kernel('G1_frag', 'bisturi/fragments.py',
       [('Fragments', 'insert'), ('Fragments', 'tobytes'), ('Fragments', 'append'), ('Fragments', 'extend')],
       'FragGen', {
    'ins_is_empty': H('ins_is_empty', [('L', Z)], {'L': 'L'}, 'bool'),
    'ins_index': H('ins_index', [('bisect', Z)], {'bisect_right(self.begin_of_fragments, position)': 'bisect'}, Z),
    'ins_end1': H('ins_end', [('b', Z), ('len', Z)], {'b1': 'b', 'len(self.fragments[b1])': 'len'}, Z),
    'ins_end2': H('ins_end2', [('b', Z), ('len', Z)], {'b2': 'b', 'len(self.fragments[b2])': 'len'}, Z),
    'ins_hits_prev': H('ins_hits_prev', [('b1', Z), ('e1', Z), ('position', Z)],
                       {'b1': 'b1', 'e1': 'e1', 'position': 'position'}, 'bool'),
    'ins_has_next': H('ins_has_next', [('i', Z), ('n', Z)], {'i': 'i', 'len(self.begin_of_fragments)': 'n'}, 'bool'),
    'ins_next_index': H('ins_next_index', [('i', Z)], {'i': 'i'}, Z),
    'ins_hits_next': H('ins_hits_next', [('b2', Z), ('position', Z), ('L', Z)],
                       {'b2': 'b2', 'position': 'position', 'L': 'L'}, 'bool'),
    'ins_slot': H('ins_slot', [('i', Z)], {'i': 'i'}, Z),
    'ins_new_cur': H('ins_new_cur', [('position', Z), ('L', Z)], {'position': 'position', 'L': 'L'}, Z),
    'tb_gap': H('tb_gap', [('offset', Z), ('begin', Z)], {'offset': 'offset', 'begin': 'begin'}, Z),
    'tb_next': H('tb_next', [('begin', Z), ('offset', Z), ('len', Z)],
                 {'begin': 'begin', 'offset': 'offset', 'len(s)': 'len'}, Z),
    'msg1': H(None, [], {}, None), 'msg2': H(None, [], {}, None),
})

_MOVE_ENV = {'move_value': 'mv', 'offset': 'offset', 'start': 'start', "k['innermost-pkt-pos']": 'ipp'}
_move_holes = {}
for side in ('u', 'p'):
    _move_holes.update({
        f'{side}_start_begins': H(f'{side}_start_begins', [], {}, Z),
        f'{side}_start_cur': H(f'{side}_start_cur', [('offset', Z)], _MOVE_ENV, Z),
        f'{side}_start_inner': H(f'{side}_start_inner', [('ipp', Z)], _MOVE_ENV, Z),
        f'{side}_align': H(f'{side}_align', [('mv', Z), ('offset', Z), ('start', Z)], _MOVE_ENV, Z),
        f'{side}_jump_begins': H(f'{side}_jump_begins', [('mv', Z)], _MOVE_ENV, Z),
        f'{side}_jump_cur': H(f'{side}_jump_cur', [('mv', Z), ('offset', Z)], _MOVE_ENV, Z),
        f'{side}_jump_inner': H(f'{side}_jump_inner', [('mv', Z), ('ipp', Z)], _MOVE_ENV, Z),
        f'{side}_neg': H(f'{side}_neg', [('offset', Z)], _MOVE_ENV, 'bool'),
        f'{side}_msg': H(None, [], {}, None),
    })
kernel('G3_move', 'bisturi/structural_fields.py', [('Move', '__init__'), ('Move', 'init'), ('Move', 'unpack'), ('Move', 'pack')], 'MoveGen', _move_holes)

_SEQ_ENV = {'aligned_to': 'a', 'offset': 'offset', 'fragments.current_offset': 'offset', 'count_elements': 'count'}
kernel('G4_seq', 'bisturi/structural_fields.py', [('Sequence', 'unpack'), ('Sequence', 'pack')], 'SeqGen', {
    'su_align1': H('su_align1', [('a', Z), ('offset', Z)], _SEQ_ENV, Z),
    'su_align2': H('su_align2', [('a', Z), ('offset', Z)], _SEQ_ENV, Z),
    'sp_align': H('sp_align', [('a', Z), ('offset', Z)], _SEQ_ENV, Z),
    'su_count_nonpos': H('su_count_nonpos', [('count', Z)], _SEQ_ENV, 'bool'),
})

_BITS_ENV = {'self.mask': 'mask', 'self.shift': 'shift', 'I': 'I', 'getattr(pkt, self.field_name)': 'v',
             'f.bit_count': 'w', 'f.shift': 'shift', 'cumshift': 'cumshift', 'bit_count': 'w'}
kernel('G5_bits', 'bisturi/field.py', [('Bits', '__init__'), ('Bits', '_compile'), ('Bits', 'unpack'), ('Bits', 'pack')],
       'BitsGen', {
    'b_init_mask': H('b_init_mask', [('w', Z)], _BITS_ENV, Z),
    'b_mask': H('b_mask', [('w', Z), ('shift', Z)], _BITS_ENV, Z),
    'b_cum': H('b_cum', [('cumshift', Z), ('w', Z)], {'cumshift': 'cumshift', 'f.bit_count': 'w'}, Z),
    'b_boundary_ok': H('b_boundary_ok', [('cumshift', Z)], _BITS_ENV, 'bool'),
    'b_bytes': H('b_bytes', [('cumshift', Z)], _BITS_ENV, Z),
    'b_get': H('b_get', [('I', Z), ('mask', Z), ('shift', Z)], _BITS_ENV, Z),
    'b_put': H('b_put', [('I', Z), ('v', Z), ('mask', Z), ('shift', Z)], _BITS_ENV, Z),
    'b_msg': H(None, [], {}, None),
})

_INT_ENV = {'self.byte_count': 'n', 'offset': 'offset', 'len(raw_data)': 'len'}
kernel('G6_int', 'bisturi/field.py',
       [('Int', '_compile'), ('Int', '_unpack_fixed_and_primitive_size'), ('Int', '_unpack_fixed_size'),
        ('Int', '_pack_fixed_and_primitive_size'), ('Int', '_pack_fixed_size')], 'IntGen', {
    'i_has_struct': H('i_has_struct', [('n', Z)], _INT_ENV, 'bool'),
    'i_next1': H('i_next1', [('offset', Z), ('n', Z)], _INT_ENV, Z),
    'i_next2': H('i_next2', [('offset', Z), ('n', Z)], _INT_ENV, Z),
    'i_short': H('i_short', [('len', Z), ('n', Z)], _INT_ENV, 'bool'),
    'i_base': H('i_base', [('n', Z)], _INT_ENV, Z),
    'i_msg': H(None, [], {}, None),
})


_DATA_ENV = {'offset': 'offset', 'byte_count': 'bc', 'len(chunk)': 'len', 'self._search_buffer_length': 'sbl', 'count': 'count',
             'len(until_marker)': 'mlen', 'next_offset': 'next_offset', 'extra_count': 'extra', 'len(raw)': 'rawlen',
             'match.end()': 'mend'}
_dh = {}
for k in '123':
    _dh['d_next' + k] = H('d_next' + k, [('offset', Z), ('bc', Z)], _DATA_ENV, Z)
    _dh['d_short' + k] = H('d_short' + k, [('len', Z), ('bc', Z)], _DATA_ENV, 'bool')
    _dh['d_msg' + k] = H(None, [], {}, None)
for k in '12':
    _dh['d_win_end' + k] = H('d_win_end' + k, [('offset', Z), ('sbl', Z)], _DATA_ENV, Z)
_dh.update({
    'd_found': H('d_found', [('count', Z)], _DATA_ENV, 'bool'),
    'd_incl_add': H('d_incl_add', [('mlen', Z)], _DATA_ENV, Z),
    'd_extra': H('d_extra', [('mlen', Z)], _DATA_ENV, Z),
    'd_next4': H('d_next4', [('offset', Z), ('count', Z)], _DATA_ENV, Z),
    'd_ret4': H('d_ret4', [('next_offset', Z), ('extra', Z)], _DATA_ENV, Z),
    'd_eos_count': H('d_eos_count', [('rawlen', Z), ('offset', Z)], _DATA_ENV, Z),
    'd_rx_extra': H('d_rx_extra', [('mend', Z), ('count', Z)], _DATA_ENV, Z),
    'd_next5': H('d_next5', [('offset', Z), ('count', Z)], _DATA_ENV, Z),
    'd_ret5': H('d_ret5', [('next_offset', Z), ('extra', Z)], _DATA_ENV, Z),
})
kernel('G8_data', 'bisturi/field.py',
       [('Data', 'pack'), ('Data', '_unpack_fixed_size'), ('Data', '_unpack_variable_size_field'),
        ('Data', '_unpack_variable_size_callable'), ('Data', '_unpack_with_string_marker'), ('Data', '_unpack_with_regexp_marker')],
       'DataGen', _dh)
kernel('G7_auto', 'bisturi/descriptor.py',
       [('Auto', '__get__'), ('Auto', '__set__'), ('Auto', '__delete__'), ('Auto', 'sync_before_pack'),
        ('AutoLength', '__init__'), ('AutoLength', 'calculate_length')], 'AutoGen', {},
       extra='Definition auto_template_matched : bool := true.')

kernel('G9_errors', 'bisturi/packet.py', [('PacketError', '__init__'), ('PacketError', 'add_parent_field_and_packet'), ('PacketError', '__str__'), ('Packet', 'unpack'), ('Packet', 'unpack_impl'), ('Packet', 'pack'), ('Packet', 'pack_impl'), ('Packet', 'assert_consistency')], 'ErrorsGen', {}, extra='Definition errors_template_matched : bool := true.')
kernel('G10_eq', 'bisturi/packet.py', [('Packet', '__init__'), ('Packet', '__eq__'), ('Packet', '__repr__')], 'EqGen', {}, extra='Definition eq_template_matched : bool := true.')
kernel('G13_deferred', 'bisturi/deferred.py', [(None, 'if_true_then_else'), (None, 'chooses'), (None, 'compile_expr'), (None, 'exec_compiled_expr'), (None, 'compile_expr_into_callable'), (None, '_defer_method')], 'DeferredGen', {}, extra='Definition deferred_template_matched : bool := true.')
kernel('G14_cache', 'bisturi/codegen.py', [('CodeGenerator', 'generate_code')], 'CacheGen', {'STMTS_build': H(None, [], {}, None)},
       extra='Definition cache_template_matched : bool := true.')
kernel('G11_codegen', 'bisturi/codegen.py', [('CodeGenerator', '__init__'), ('CodeGenerator', 'generate_code'), ('CodeGenerator', 'generate_unrolled_code_for_descriptor_sync'), ('CodeGenerator', 'generate_code_for_fixed_fields'), ('CodeGenerator', 'generate_code_for_fixed_fields_with_struct_code'), ('CodeGenerator', 'generate_code_for_variable_fields'), ('CodeGenerator', 'generate_code_for_fixed_fields_without_struct_code'), ('CodeGenerator', 'generate_code_for_loop_pack'), ('CodeGenerator', 'generate_code_for_loop_unpack'), (None, 'indent')], 'CodegenGen', {'STMTS_cache': H(None, [], {}, None)}, extra='Definition codegen_template_matched : bool := true.')

kernel('G12_regexp', 'bisturi/field.py', [('Int', 'pack_regexp'), ('Data', 'pack_regexp'), ('Bits', 'pack_regexp')], 'RegexpGen', {},
       extra='Definition regexp_template_matched : bool := true.')
kernel('G12b_regexp_frags', 'bisturi/fragments.py',
       [('FragmentRegEx', '__init__'), ('FragmentRegEx', '__len__'), ('FragmentsOfRegexps', '__init__'), ('FragmentsOfRegexps', 'append'),
        ('FragmentsOfRegexps', 'extend'), ('FragmentsOfRegexps', 'insert'), ('FragmentsOfRegexps', 'assemble_regexp')], 'RegexpFragsGen', {},
       extra='Definition regexp_frags_template_matched : bool := true.')
kernel('G12c_regexp_packet', 'bisturi/packet.py', [('Packet', 'as_regular_expression'), ('Packet', 'as_regular_expression_impl')],
       'RegexpPacketGen', {}, extra='Definition regexp_packet_template_matched : bool := true.')
kernel('G12d_pattern_matching', 'bisturi/pattern_matching.py',
       [('Any', '__init__'), ('Any', '__eq__'), ('Any', '__ne__'), ('Any', 'eq_for_any'), ('Any', 'ne_for_any'), ('Any', 'eq_for_regexp'),
        ('Any', 'ne_for_regexp'), (None, 'anything_like'), (None, 'filter_like'), (None, 'filter')], 'PatternMatchingGen', {},
       extra='Definition pattern_matching_template_matched : bool := true.')

kernel('G15_init', 'bisturi/field.py', [('Field', 'init'), ('Int', 'init'), ('Data', 'init'), ('Ref', 'init'), ('Ref', '_lets_find_a_nice_default'), ('Bits', 'init'), ('Em', 'init')], 'InitGen', {}, extra='Definition init_template_matched : bool := true.')
kernel('G15b_init_structural', 'bisturi/structural_fields.py', [('Sequence', 'init'), ('Optional', 'init')], 'InitStructGen', {}, extra='Definition init_struct_template_matched : bool := true.')

kernel('G16_ref', 'bisturi/field.py', [('Ref', '__init__'), ('Ref', '_describe_yourself'), ('Ref', '_compile'), ('Ref', '_unpack_using_callable'), ('Ref', '_pack_with_callable'), ('Ref', '_unpack_referencing_a_packet'), ('Ref', '_pack_referencing_a_packet'), ('Field', '_describe_yourself'), ('Field', '_compile'), ('Field', '_compile_impl'), ('Field', 'repeated'), ('Field', 'when'), ('Field', 'at'), ('Field', 'shift'), ('Field', 'aligned'), ('Field', 'describe'), ('Em', '_compile'), ('Em', 'unpack'), ('Em', 'pack')], 'RefGen', {}, extra='Definition ref_template_matched : bool := true.')
kernel('G16b_optional', 'bisturi/structural_fields.py', [('Optional', '__init__'), ('Optional', '_compile'), ('Optional', 'unpack'), ('Optional', 'pack'), ('Sequence', '__init__'), ('Sequence', '_compile')], 'OptionalGen', {}, extra='Definition optional_template_matched : bool := true.')
kernel('G16c_prototype', 'bisturi/packet.py', [('Prototype', '__init__'), ('Prototype', '_clone_from_pickle'), ('Prototype', '_clone_from_live_obj')], 'PrototypeGen', {}, extra='Definition prototype_template_matched : bool := true.')


# ---- template-only kernels for the plumbing that the model describes as data (Decl.describe, the expression language, the
# count / when normalisers, the field constructors): "this is the code the model was written against"
kernel('G17_builder', 'bisturi/packet_builder.py', [(None, '_trace'), ('PacketClassBuilder', '__init__'), ('PacketClassBuilder', 'bisturi_configuration_default'), ('PacketClassBuilder', 'make_configuration'), ('PacketClassBuilder', 'create_field_name_from_subpacket_name'), ('PacketClassBuilder', 'collect_the_fields_from_class_definition'), ('PacketClassBuilder', 'ask_to_each_field_to_describe_itself'), ('PacketClassBuilder', 'compile_fields_and_create_slots'), ('PacketClassBuilder', 'compile_descriptors_and_extend_slots'), ('PacketClassBuilder', 'lookup_pack_unpack_methods'), ('PacketClassBuilder', 'remove_fields_from_class_definition'), ('PacketClassBuilder', 'add_descriptors_to_class_definition'), ('PacketClassBuilder', 'collect_sync_methods_from_field_descriptors'), ('PacketClassBuilder', 'create_class'), ('PacketClassBuilder', 'add_get_fields_class_method'), ('PacketClassBuilder', 'add_sync_descriptor_class_methods'), ('PacketClassBuilder', 'check_if_we_are_in_debug_mode'), ('PacketClassBuilder', 'create_optimized_code'), ('PacketClassBuilder', 'get_packet_class'), ('PacketClassBuilder', 'create_collect_and_describe_the_field_list'), ('PacketClassBuilder', 'compile_fields_and_descriptors_and_create_slots'), ('PacketClassBuilder', 'collect_fields_sourcecode'), ('PacketClassBuilder', 'create_packet_class_and_add_its_special_methods'), ('PacketClassBuilder', 'remove_fields_from_and_add_descriptors_to_class_definition'), ('PacketClassBuilder', 'optimize_methods'), ('PacketSpecializationClassBuilder', '__init__'), ('PacketSpecializationClassBuilder', 'bisturi_configuration_default'), ('PacketSpecializationClassBuilder', 'specialize_fields'), ('MetaPacket', '__new__')], 'BuilderGen', {},
       extra='Definition builder_template_matched : bool := true.')
kernel('G13b_deferred_ops', 'bisturi/deferred.py',
       [('Operations', '__init__'), ('Operations', 'append'), ('Operations', 'as_list'), (None, '_defer_operations_of'), (None, 'defer_operations')],
       'DeferredOpsGen', {}, extra='Definition deferred_ops_template_matched : bool := true.')
kernel('G18_conditions', 'bisturi/structural_fields.py',
       [(None, 'normalize_raw_condition_into_a_callable'), (None, 'convert_a_field_raw_condition_into_a_boolean_unary_expression'),
        (None, 'normalize_count_condition_into_a_callable'), ('Sequence', 'repeated'), ('Sequence', 'when'), ('Optional', 'repeated'), ('Optional', 'when')],
       'ConditionsGen', {}, extra='Definition conditions_template_matched : bool := true.')
kernel('G19_field_ctor', 'bisturi/field.py',
       [(None, 'exec_once'), ('Field', '__init__'), ('Field', 'unpack'), ('Field', 'pack'), ('Field', 'unpack_noop'), ('Field', 'pack_noop'),
        ('Int', '__init__'), ('Int', 'unpack'), ('Int', 'pack'), ('Data', '__init__'), ('Data', '_compile'), ('Data', 'unpack'), ('Em', '__init__')],
       'FieldCtorGen', {}, extra='Definition field_ctor_template_matched : bool := true.')

# ---- the remaining small functions (constructors, debugging fields, the unimplemented pack_regexp of structural fields): template only
kernel('G20a_frag_misc', 'bisturi/fragments.py', [('Fragments', '__init__'), ('Fragments', '__repr__'), ('Fragments', '__eq__')],
       'FragMiscGen', {}, extra='Definition frag_misc_template_matched : bool := true.')
kernel('G20b_packet_misc', 'bisturi/packet.py', [(None, '_with_metaclass'), ('Packet', 'as_prototype'), ('Packet', 'iterative_unpack'), ('Prototype', 'clone')],
       'PacketMiscGen', {}, extra='Definition packet_misc_template_matched : bool := true.')
kernel('G20c_auto_ctor', 'bisturi/descriptor.py', [('Auto', '__init__'), ('Auto', '_compile')],
       'AutoCtorGen', {}, extra='Definition auto_ctor_template_matched : bool := true.')
kernel('G20d_field_misc', 'bisturi/field.py', [('Field', 'pack_regexp'), ('Bkpt', '__init__'), ('Bkpt', 'init'), ('Bkpt', 'unpack'), ('Bkpt', 'pack'), ('Bkpt', 'pack_regexp')],
       'FieldMiscGen', {}, extra='Definition field_misc_template_matched : bool := true.')
kernel('G20e_structural_regexp', 'bisturi/structural_fields.py', [('Sequence', 'pack_regexp'), ('Optional', 'pack_regexp')],
       'StructRegexpGen', {}, extra='Definition struct_regexp_template_matched : bool := true.')


def translate_kernel(kid):
    k = KERNELS[kid]
    src_path = os.path.join(REPO, k['pyfile'])
    tree = strip_docstrings(ast.parse(open(src_path).read(), src_path))
    tpl_path = os.path.join(TEMPLATES, kid + '.py')
    tpl_tree = strip_docstrings(ast.parse(open(tpl_path).read(), tpl_path))
    holes = {}
    for cls, fn in k['functions']:
        act = find_function(tree, cls, fn)
        tpl = find_function(tpl_tree, cls, fn)
        # decorators are part of the contract too
        match(tpl, act, holes, f"{k['pyfile']}:{cls}.{fn}")
    out = [f"(* GENERATED by harness/pygen.py from {k['pyfile']} -- kernel {kid}. Do not edit. *)",
           "From Coq Require Import ZArith Bool.", "Open Scope Z_scope.", ""]
    captured = {}
    for hid, spec in k['holes'].items():
        if hid not in holes:
            raise GenError(f"{kid}: template never captured hole {hid}")
        node = holes[hid]
        captured[hid] = ast.unparse(node) if not isinstance(node, list) else f"<{len(node)} statements>"
        if spec['result'] is None:
            continue
        env = {}
        for src, var in spec['env'].items():
            if var is None:
                continue
            ty = dict(spec['params']).get(var)
            if ty is None:
                continue
            env[ast.unparse(ast.parse(src, mode='eval').body)] = (var, ty)
        tr = Tr(env, f"{kid}/{hid}")
        term, ty = tr.expr(node)
        if spec['result'] == 'bool' and ty == 'Z':
            term = f"(negb ({term} =? 0))"
            ty = 'bool'
        if ty != spec['result']:
            raise GenError(f"{kid}/{hid}: expression `{captured[hid]}` has type {ty}, expected {spec['result']}")
        params = ' '.join(f"({v} : {t})" for v, t in spec['params'])
        out.append(f"(* {captured[hid]} *)")
        out.append(f"Definition {spec['name']} {params} : {ty} := {term}.".replace('  ', ' '))
    out.append(k['extra'])
    return '\n'.join(out) + '\n', captured


def write_if_changed(path, text):
    try:
        if open(path).read() == text:
            return False
    except FileNotFoundError:
        pass
    os.makedirs(os.path.dirname(path), exist_ok=True)
    tmp = path + '.tmp%d' % os.getpid()
    open(tmp, 'w').write(text)
    os.replace(tmp, path)
    return True


def generate(kids=None, gen_dir=GEN_DIR):
    """Regenerate Gen/<Module>.v for the given kernels. Returns {kid: {'ok':bool,'error':str,'captured':{}}}."""
    report = {}
    for kid in (kids or KERNELS):
        k = KERNELS[kid]
        path = os.path.join(gen_dir, k['module'] + '.v')
        try:
            text, captured = translate_kernel(kid)
            report[kid] = dict(ok=True, error=None, captured=captured, module=k['module'])
        except (GenError, SyntaxError, OSError, RecursionError, KeyError, AttributeError, TypeError, ValueError) as e:
            msg = f"{type(e).__name__}: {e}"
            # a file that cannot compile: the bridge for this kernel is then a broken obligation
            text = (f"(* GENERATED by harness/pygen.py -- kernel {kid} could not be translated:\n"
                    f"   {msg.replace('*)', '* )')}\n*)\n"
                    "Definition translation_failed : True := translation_failed_see_comment_above.\n")
            report[kid] = dict(ok=False, error=msg, captured={}, module=k['module'])
        report[kid]['changed'] = write_if_changed(path, text)
        report[kid]['sha1'] = hashlib.sha1(text.encode()).hexdigest()
    return report


if __name__ == '__main__':
    rep = generate(sys.argv[1:] or None)
    for kid, r in rep.items():
        print(kid, 'ok' if r['ok'] else 'FAILED: ' + r['error'])
    sys.exit(0 if all(r['ok'] for r in rep.values()) else 1)
