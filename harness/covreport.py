#!/usr/bin/env python3
"""covreport.py <dir>: union of the line sets written by harness/covsite, against the executable statement lines of
/repo/bisturi/*.py: prints per file the covered / executable count and the uncovered ranges (diagnosis of generator blind spots)."""
import ast, glob, json, os, sys
d = sys.argv[1]
REPO = os.environ.get('BISTURI_REPO', '/repo')
seen = {}
for f in glob.glob(os.path.join(d, '*.json')):
    for k, v in json.load(open(f)).items():
        seen.setdefault(k, set()).update(v)
for path in sorted(glob.glob(os.path.join(REPO, 'bisturi', '*.py'))):
    name = os.path.basename(path)
    src = open(path).read()
    tree = ast.parse(src)
    lines = set()
    for n in ast.walk(tree):
        if isinstance(n, ast.stmt) and not (isinstance(n, ast.Expr) and isinstance(n.value, ast.Constant) and isinstance(n.value.value, str)):
            lines.add(n.lineno)
    cov = seen.get(name, set())
    miss = sorted(lines - cov)
    rng, out = [], []
    for l in miss:
        if rng and l - rng[-1] <= 2:
            rng.append(l)
        else:
            if rng:
                out.append(rng)
            rng = [l]
    if rng:
        out.append(rng)
    print(f"{name:<24} {len(lines & cov):>4}/{len(lines):<4}  uncovered: " + " ".join(f"{r[0]}-{r[-1]}" if len(r) > 1 else str(r[0]) for r in out))
