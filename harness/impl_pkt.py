"""Generic implementation driver: imports a generated module of packet classes (a real source file in the
scratch directory, so bisturi.codegen writes its __pkts__ there) and runs unpack / pack / construct cases,
returning canonical outcomes.  Runs under /venv/bin/python with PYTHONPATH=/repo.

payload = {"header": <imports>, "blocks": [{"name":..,"src":..}], "modname": str, "cases": [case...]}
case    = {"cls": name, "op": "unpack", "raw": hex, "offset": int}
        | {"cls": name, "op": "pack", "value": V}            construct from V then pack
        | {"cls": name, "op": "roundtrip", "raw": hex, "offset": int}   unpack then pack the result
        | {"cls": name, "op": "default"}                       Cls() field values
canonical values: int | {"x": hex} | null | [..] | {"p": cls, "f": [[name, V]...]} | {"py": expr} (input only)
outcome = {"ok": V, "end": int} | {"ok": hex} | {"err": "unpacking"|"packing", "stack": [[off, field, cls]..], "str_ok": bool}
        | {"exc": type name}"""
import sys, json, os, importlib.util, traceback



INTERVALS = None      # when a list: (start, end) of every leaf read of the generic code path
MOVES = []            # cursor positions set by positioning pseudo-fields while INTERVALS is recording


def install_recorder():
    """Wrap the leaf decoders of Int and Data so that the generic code path reports what it consumed.
    (Harness-side interposition: nothing in /repo is changed; struct runs of generated code bypass it.)"""
    from bisturi import field as F

    def wrap(cls, name):
        orig = getattr(cls, name)

        def w(self, pkt, raw, offset=0, **k):
            r = orig(self, pkt, raw, offset, **k)
            if INTERVALS is not None:
                INTERVALS.append((offset, r))
            return r
        w.__name__ = name
        setattr(cls, name, w)
    # a positioning pseudo-field consumes nothing but moves the cursor: the position it sets belongs to the region traversed
    from bisturi import structural_fields as SF
    orig_move = SF.Move.unpack

    def move_unpack(self, pkt, raw, offset=0, **k):
        r = orig_move(self, pkt, raw, offset, **k)
        if INTERVALS is not None:
            MOVES.append(r)
        return r
    SF.Move.unpack = move_unpack
    # every leaf decoder the classes have NOW (the private names are bisturi's: a refactoring may rename, merge or add some)
    for cls in (F.Int, F.Data):
        for n in sorted(vars(cls)):
            if n.startswith('_unpack') and callable(vars(cls)[n]):
                try:
                    wrap(cls, n)
                except Exception:
                    pass


def generated_blocks(cls, which):
    """Block structure of the code bisturi generated for cls (read back from the text of the generated module):
    None when that direction runs the generic loop of Packet; else a list of
    ["S", big, [[field name, is_data, size, signed]..], advance] | ["L", field name]"""
    import ast, re as _re
    from bisturi.packet import Packet
    fn = getattr(cls, which)
    if fn is getattr(Packet, which):
        return None
    src = open(fn.__code__.co_filename).read()
    tree = ast.parse(src)
    f = next(n for n in tree.body if isinstance(n, ast.FunctionDef) and n.name == which)
    body = next(n for n in f.body if isinstance(n, ast.Try)).body
    names = [n for n, _, _, _ in cls.get_fields()]
    out = []
    i = 0
    while i < len(body):
        st = body[i]
        seg = ast.get_source_segment(src, st) or ""
        # struct block (unpack): name = ".."; next_offset = offset + N; (..) = StructUnpack(fmt, ..); offset = next_offset
        # struct block (pack):   name = ".."; fragments.append(StructPack(fmt, ..))
        # loop block:            name, _, _, unpack = fields[k]; offset = unpack(..)   /   name, _, pack, _ = fields[k]; pack(..)
        if isinstance(st, ast.Assign) and isinstance(st.targets[0], ast.Name) and st.targets[0].id == "name":
            label = st.value.value
            if which == "unpack_impl":
                adv = body[i + 1].value.right.value
                call = body[i + 2].value
                tgts = [t.attr for t in body[i + 2].targets[0].elts]
                fmt = call.args[0].value
                i += 4
            else:
                call = body[i + 1].value.args[0]
                fmt = call.args[0].value
                tgts = [a.attr for a in call.args[1:]]
                adv = None
                i += 2
            toks = _re.findall(r"(\d*s|[BHIQbhiq])", fmt[1:])
            ms = []
            for nm, tk in zip(tgts, toks):
                if tk.endswith("s"):
                    ms.append([nm, True, int(tk[:-1] or 1), False])
                else:
                    ms.append([nm, False, {"b": 1, "h": 2, "i": 4, "q": 8}[tk.lower()], tk.islower()])
            out.append(["S", fmt[0] == ">", ms, adv, label, len(toks) == len(tgts)])
        elif isinstance(st, ast.Assign) and isinstance(st.targets[0], ast.Tuple):
            k = st.value.slice.value
            out.append(["L", names[k]])
            i += 2
        else:
            out.append(["?", seg[:60]])
            i += 1
    return out

def canon(v):
    from bisturi.packet import Packet
    if isinstance(v, bool):
        return int(v)
    if isinstance(v, int):
        return v
    if isinstance(v, (bytes, bytearray)):
        return {"x": bytes(v).hex()}
    if v is None:
        return None
    if isinstance(v, (list, tuple)):
        return [canon(x) for x in v]
    if isinstance(v, Packet):
        fs = []
        for name, f, _, _ in v.get_fields():
            if name.startswith('_described_'):
                name = name[len('_described_'):]        # a described field: what the public attribute reads as (the real slot is scratch)
            try:
                fs.append([name, canon(getattr(v, name))])
            except AttributeError:
                fs.append([name, {"unset": True}])
        return {"p": type(v).__name__, "f": fs}
    return {"other": type(v).__name__, "repr": repr(v)[:80]}


def build(v, ns):
    if isinstance(v, dict):
        if "x" in v:
            return bytes.fromhex(v["x"])
        if "py" in v:
            return eval(v["py"], dict(ns))
        if "p" in v:
            cls = ns[v["p"]]
            return cls(**{n: build(x, ns) for n, x in v["f"] if not (isinstance(x, dict) and x.get("unset"))})
    if isinstance(v, list):
        return [build(x, ns) for x in v]
    return v


def mutate_in_place(p, top, grow=True):
    """change every mutable object reachable from p without assigning to p's own attributes: lists grow, nested packets change"""
    from bisturi.packet import Packet
    for name, _, _, _ in p.get_fields():
        try:
            v = getattr(p, name)
        except AttributeError:
            continue
        if isinstance(v, list):
            for x in v:
                if isinstance(x, Packet):
                    mutate_in_place(x, False, grow)
            if grow:
                v.append(7)
        elif isinstance(v, Packet):
            mutate_in_place(v, False, grow)
        elif not top and isinstance(v, int) and not isinstance(v, bool):
            try:
                setattr(p, name, v ^ 1)
            except Exception:
                pass


def outcome_of_exception(e):
    from bisturi.packet import PacketError
    if isinstance(e, PacketError):
        try:
            s = str(e)
            str_ok = isinstance(s, str)
        except Exception:
            str_ok = False
        try:
            phase = "unpacking" if e.was_error_found_in_unpacking_phase else "packing"
            stack = [[o, f, c] for o, f, c in e.fields_stack]
        except Exception as e2:         # a PacketError without its phase flag / stack: outside the contract
            return {"exc": "MalformedPacketError", "msg": "%s: %s" % (type(e2).__name__, str(e2)[:150])}
        return {"err": phase, "stack": stack, "str_ok": str_ok,
                "msg": str(getattr(e, 'original_error_message', '<no original_error_message>'))[:120]}
    return {"exc": type(e).__name__, "msg": str(e)[:200]}


def run_case(c, ns):
    try:
        cls = ns[c["cls"]]
        op = c["op"]
        if op == "unpack":
            p = cls.unpack(bytes.fromhex(c["raw"]), c.get("offset", 0))
            end = None
            return {"ok": canon(p)}
        if op == "unpack_end":
            # unpack through unpack_impl to observe the end offset too
            p = cls(_initialize_fields=False)
            end = p.unpack_impl(bytes.fromhex(c["raw"]), c.get("offset", 0), root=p)
            return {"ok": canon(p), "end": end}
        if op == "pack":
            p = build(c["value"], ns)
            return {"ok": p.pack().hex()}
        if op == "consistency":
            # Packet.assert_consistency on a constructed value: True / False (dont_raise) and what it raises otherwise
            p = build(c["value"], ns)
            out = {"dont_raise": p.assert_consistency(dont_raise=True)}
            try:
                out["plain"] = p.assert_consistency()
            except Exception as e:
                out["plain"] = "EXC:" + type(e).__name__
            return {"ok": out}
        if op == "pack_cursor":
            # where the output cursor stands after serializing every field (the begin of whatever would come next)
            from bisturi.fragments import Fragments
            p = build(c["value"], ns)
            fr = p.pack_impl(Fragments(), root=p)
            return {"cursor": fr.current_offset}
        if op == "roundtrip":
            global INTERVALS
            p = cls(_initialize_fields=False)
            INTERVALS = [] if c.get("record") else None
            del MOVES[:]
            try:
                end = p.unpack_impl(bytes.fromhex(c["raw"]), c.get("offset", 0), root=p)
            finally:
                iv, INTERVALS = INTERVALS, None
            mv = list(MOVES)
            if iv is not None:
                try:
                    return {"ok": canon(p), "end": end, "intervals": iv, "moves": mv, "packed": {"ok": p.pack().hex()}}
                except Exception as e:
                    return {"ok": canon(p), "end": end, "intervals": iv, "moves": mv, "packed": outcome_of_exception(e)}
            try:
                return {"ok": canon(p), "end": end, "packed": {"ok": p.pack().hex()}}
            except Exception as e:
                return {"ok": canon(p), "end": end, "packed": outcome_of_exception(e)}
        if op == "default":
            return {"ok": canon(build(c["value"], ns))}
        if op == "default_pair":
            # two default-constructed packets; one of them changed in place as deep as it goes: they must then be unequal
            p1, p2 = build(c["value"], ns), build(c["value"], ns)
            before = json.dumps(canon(p1), sort_keys=True)
            mutate_in_place(p1, True, grow=False)      # only fields of nested packets change: the lists keep their length
            changed = json.dumps(canon(p1), sort_keys=True) != before
            return {"ok": {"changed": changed, "eq": bool(p1 == p2), "ne": bool(p1 != p2), "eq_rev": bool(p2 == p1)}}
        if op == "default_pair_each":
            # two default-constructed packets; ONE value below the top level of one of them changed in place (an integer of a nested
            # packet, an element of a nested list, a list grown): they must then be unequal -- for every such place, one at a time
            def places(p, depth, path):
                from bisturi.packet import Packet
                out = []
                for name, _, _, _ in p.get_fields():
                    try:
                        v = getattr(p, name)
                    except AttributeError:
                        continue
                    here = path + [name]
                    if isinstance(v, Packet):
                        out += places(v, depth + 1, here)
                    elif isinstance(v, list):
                        if depth >= 1:
                            out.append((here, 'append'))
                        for i, x in enumerate(v):
                            if isinstance(x, Packet):
                                out += places(x, depth + 1, here + [i])
                            elif depth >= 1 and isinstance(x, int) and not isinstance(x, bool):
                                out.append((here + [i], 'item'))
                    elif depth >= 1 and isinstance(v, int) and not isinstance(v, bool):
                        out.append((here, 'int'))
                return out

            def walk(p, path):
                for st in path:
                    p = p[st] if isinstance(st, int) else getattr(p, st)
                return p
            bad, n = [], 0
            for path, kind in places(build(c["value"], ns), 0, [])[:40]:
                p1, p2 = build(c["value"], ns), build(c["value"], ns)
                try:
                    if kind == 'append':
                        walk(p1, path).append(walk(p1, path)[0] if walk(p1, path) else 7)
                    elif kind == 'item':
                        walk(p1, path[:-1])[path[-1]] ^= 1
                    else:
                        setattr(walk(p1, path[:-1]), path[-1], walk(p1, path) ^ 1)
                except Exception:
                    continue
                n += 1
                try:
                    eq, ne, rev = bool(p1 == p2), bool(p1 != p2), bool(p2 == p1)
                except Exception as e:
                    bad.append([path, kind, "EXC:" + type(e).__name__]); continue
                if eq or not ne or rev:
                    bad.append([path, kind, dict(eq=eq, ne=ne, eq_rev=rev)])
            return {"ok": {"places": n, "bad": bad[:3]}}
        if op == "default_after":
            # a default-constructed packet, mutated in place as deep as it goes; then ANOTHER default-constructed packet
            first = build(c["value"], ns)
            mutate_in_place(first, True)
            return {"ok": canon(build(c["value"], ns)), "first_after_mutation": canon(first)}
        if op == "derive":
            # pack a constructed value, then parse (and re-serialize) inputs derived from its encoding
            import random
            rnd = random.Random(c.get("seed", 0))
            p = build(c["value"], ns)
            try:
                raw = p.pack()
            except Exception as e:
                return {"packed": outcome_of_exception(e), "derived": []}
            variants = [(raw, 0, "base")]
            cuts = list(range(len(raw))) if len(raw) <= c.get("maxcuts", 16) else sorted(rnd.sample(range(len(raw)), c.get("maxcuts", 16)))
            variants += [(raw[:k], 0, "cut") for k in cuts]
            for _ in range(c.get("flips", 3)):
                if raw:
                    b = bytearray(raw)
                    b[rnd.randrange(len(b))] = rnd.choice([0, 1, 2, 3, 0x80, 0xff, rnd.randrange(256)])
                    variants.append((bytes(b), 0, "flip"))
            for off in c.get("offsets", []):
                pre = bytes(rnd.choice([0, 10, 58, 65, 255, rnd.randrange(256)]) for _ in range(off))
                suf = bytes(rnd.choice([0, 10, 58, 65, 255]) for _ in range(rnd.randrange(1, 4)))
                variants.append((pre + raw, off, "prefix"))
                variants.append((pre + raw + suf, off, "prefix+suffix"))
                if c.get("cut_with_prefix") and raw:
                    k = rnd.randrange(len(raw))
                    variants.append((raw[:k], 0, "cut2"))
                    variants.append((pre + raw[:k], off, "prefix-of-cut2"))
            if c.get("offsets"):
                variants.append((raw + bytes(rnd.choice([0, 10, 58, 65, 255]) for _ in range(rnd.randrange(1, 4))), 0, "suffix"))
                # a long suffix too: "enough bytes left for a whole machine word" is where bulk-decoding shortcuts switch on
                variants.append((raw + bytes(rnd.choice([0, 10, 58, 65, 255, 0x80]) for _ in range(rnd.randrange(8, 17))), 0, "suffix"))
            out = []
            for r, off, kind in variants:
                oc = run_case({"cls": c["cls"], "op": "roundtrip", "raw": r.hex(), "offset": off, "record": c.get("record")}, ns)
                # the public entry point Cls.unpack(raw, offset) must show exactly what unpack_impl shows (values, phase, stack)
                try:
                    pub = {"ok": canon(cls.unpack(r, off))}
                except Exception as e:
                    pub = outcome_of_exception(e)
                same = (pub.get("ok") == oc.get("ok")) if ("ok" in pub or "ok" in oc) else \
                    (pub.get("err") == oc.get("err") and pub.get("stack") == oc.get("stack") and pub.get("exc") == oc.get("exc"))
                if not same:
                    oc["api_differs"] = pub
                out.append({"raw": r.hex(), "offset": off, "variant": kind, "outcome": oc})
            return {"packed": {"ok": raw.hex()}, "derived": out}
        if op == "regexp":
            from bisturi.pattern_matching import Any, filter as pfilter
            p = cls()
            for n, v in c["pattern"]:
                if isinstance(v, dict) and isinstance(v.get("any"), dict):
                    # a conditional placeholder: Any(startswith=.., endswith=.., contains=..)
                    setattr(p, n, Any(**{kk: bytes.fromhex(x) for kk, x in v["any"].items()}))
                else:
                    setattr(p, n, Any() if (isinstance(v, dict) and v.get("any")) else build(v, ns))
            out = {}
            try:
                out["pattern"] = p.as_regular_expression().pattern.hex()
            except Exception as e:
                out["pattern_exc"] = "%s: %s" % (type(e).__name__, str(e)[:100])
            corpus = [bytes.fromhex(x) for x in c["corpus"]]
            try:
                out["without"] = [i for i, r in enumerate(corpus) if list(pfilter(p, [r], filter_with_regexp_first=False))]
            except Exception as e:
                out["without_exc"] = type(e).__name__
            try:
                out["with"] = [i for i, r in enumerate(corpus) if list(pfilter(p, [r]))]
            except Exception as e:
                out["with_exc"] = "%s: %s" % (type(e).__name__, str(e)[:100])
            return {"ok": out}
        if op == "reassign":
            # a packet that already went through pack() (and one parsed from those bytes) gets EVERY field of another consistent
            # value assigned by attribute: what it serializes to must not depend on what it held before
            a, b = c["a"], c["b"]
            fresh = build(b, ns).pack()
            out = {"fresh": fresh.hex()}
            p = build(a, ns)
            ea = p.pack()
            try:
                q = cls.unpack(ea)
            except Exception:
                q = None
            tmp = build(b, ns)
            names = [n for n, x in b["f"] if not (isinstance(x, dict) and x.get("unset"))]
            for tag, obj in (("after_pack", p), ("after_unpack", q)):
                if obj is None:
                    continue
                try:
                    src = build(b, ns)
                    for n in names:
                        setattr(obj, n, getattr(src, n))
                    out[tag] = obj.pack().hex()
                except Exception as e:
                    out[tag] = "EXC:%s: %s" % (type(e).__name__, str(e)[:120])
            return {"ok": out}
        if op == "repack":
            p = cls.unpack(bytes.fromhex(c["raw"]), c.get("offset", 0))
            for n, v in c["set"]:
                setattr(p, n, build(v, ns))
            return {"ok": p.pack().hex()}
        if op == "eqvals":
            a = build(c["a"], ns)
            b = build(c["b"], ns)
            return {"ok": [bool(a == b), bool(a != b), isinstance(repr(a), str)]}
        if op == "blocks":
            return {"ok": {"unpack": generated_blocks(cls, "unpack_impl"), "pack": generated_blocks(cls, "pack_impl")}}
        if op == "api":
            # the public entry points: silent=True, non-bytes input
            raw = bytes.fromhex(c["raw"])
            out = {}
            try:
                out["silent"] = canon(cls.unpack(raw, c.get("offset", 0), silent=True))
            except Exception as e:
                out["silent"] = {"exc": type(e).__name__}
            for bad in (None, "text", 5, bytearray(b"ab")):
                try:
                    cls.unpack(bad)
                    out.setdefault("nonbytes", []).append("accepted")
                except ValueError:
                    out.setdefault("nonbytes", []).append("ValueError")
                except Exception as e:
                    out.setdefault("nonbytes", []).append(type(e).__name__)
            return out
        if op == "eq_interleaved":
            # packets of one class parsed one after the other and all kept alive; then every input is parsed once more: each
            # earlier packet must still equal the fresh parse of the bytes it came from (and must not have changed meanwhile)
            raws = []
            for v in c["values"]:
                try:
                    raws.append(build(v, ns).pack())
                except Exception:
                    pass
            kept, shots = [], []
            for r in raws:
                try:
                    p = cls.unpack(r)
                except Exception:
                    continue
                kept.append((r, p))
                shots.append(json.dumps(canon(p), sort_keys=True))
            bad = []
            for k, (r, p) in enumerate(kept):
                try:
                    q = cls.unpack(r)
                    eq, ne, rev = bool(p == q), bool(p != q), bool(q == p)
                except Exception as e:
                    bad.append([k, r.hex(), "EXC:" + type(e).__name__])
                    continue
                changed = json.dumps(canon(p), sort_keys=True) != shots[k]
                if not eq or ne or not rev or changed:
                    bad.append([k, r.hex(), dict(eq=eq, ne=ne, eq_rev=rev, earlier_packet_changed=changed)])
            return {"ok": {"parsed": len(kept), "inputs": [r.hex() for r, _ in kept], "bad": bad[:3]}}
        if op == "eq_two":
            # two parses of two DIFFERENT inputs: ==, !=, reversed ==, and whether the two render alike
            p = cls.unpack(bytes.fromhex(c["raw"]), c.get("offset", 0))
            q = cls.unpack(bytes.fromhex(c["raw2"]), c.get("offset", 0))
            out = {}
            for name, f in (("eq", lambda: p == q), ("ne", lambda: p != q), ("eq_rev", lambda: q == p), ("eq_self", lambda: (p == p, q == q, p != p)),
                            ("repr_same", lambda: repr(p).replace(hex(id(p)), '') == repr(q).replace(hex(id(q)), ''))):
                try:
                    out[name] = f()
                except Exception as e:
                    out[name] = "EXC:" + type(e).__name__
            return {"ok": out}
        if op == "eq_from_value":
            try:
                raw0 = build(c["value"], ns).pack()
            except Exception as e:
                return outcome_of_exception(e)
            c = dict(c, op="eq", raw=raw0.hex())
            op = "eq"
        if op == "eq":
            # equality / inequality / repr of packets: two parses of the same bytes, one field changed, another class
            raw = bytes.fromhex(c["raw"])
            out = {}

            def guard(name, f):
                try:
                    out[name] = f()
                except Exception as e:
                    out[name] = "EXC:" + type(e).__name__
            try:
                p = cls.unpack(raw, c.get("offset", 0))
                q = cls.unpack(raw, c.get("offset", 0))
            except Exception as e:
                return outcome_of_exception(e)
            guard("eq_same", lambda: p == q)
            if c.get("value") is not None:
                # mixed provenance: the packet built by the constructor against the parse of its own encoding
                def built_vs_parsed():
                    b = build(c["value"], ns)
                    r = cls.unpack(b.pack())
                    same = all(getattr(b, n, None) == getattr(r, n, None) for n, _, _, _ in cls.get_fields() if not n.startswith('_shift_to_'))
                    return [same, b == r, r == b, b != r]
                guard("built_vs_parsed", built_vs_parsed)
            guard("ne_same", lambda: p != q)
            guard("repr", lambda: isinstance(repr(p), str))
            guard("eq_self", lambda: p == p)
            guard("eq_default", lambda: (cls() == cls(), cls() != cls()))
            guard("repr_default", lambda: isinstance(repr(cls()), str))
            guard("eq_other_type", lambda: (p == 5, p != 5, p == None))
            if c.get("other"):
                guard("eq_other_class", lambda: (p == ns[c["other"]](), p != ns[c["other"]]()))
            ch = c.get("change")
            if ch:
                # change one field at a path [name, (index), name ...]
                def change():
                    obj = q
                    for step in ch["path"][:-1]:
                        obj = obj[step] if isinstance(step, int) else getattr(obj, step)
                    last = ch["path"][-1]
                    newv = build(ch["value"], ns)
                    # the value is changed relative to what the PARSE holds (the parse of the encoding need not give the
                    # constructed value back: regex delimiters, positioning): an assignment of the value already there is no change
                    old = obj[last] if isinstance(last, int) else getattr(obj, last, None)
                    if old == newv:
                        return "SAME"
                    if isinstance(last, int):
                        obj[last] = newv
                    else:
                        setattr(obj, last, newv)
                    return (p == q, p != q, q == p)
                guard("changed", change)
            return {"ok": out}
        return {"exc": "BadCase"}
    except Exception as e:
        return outcome_of_exception(e)


def load_module(src, modname, directory):
    path = os.path.join(directory, modname + '.py')
    with open(path, 'w') as f:
        f.write(src)
    spec = importlib.util.spec_from_file_location(modname, path)
    mod = importlib.util.module_from_spec(spec)
    sys.modules[modname] = mod
    spec.loader.exec_module(mod)
    return mod


_RECORDER = [False]


def run_group(payload, d):
    if not _RECORDER[0]:
        install_recorder()
        _RECORDER[0] = True
    res = {"defs": {}, "outcomes": []}
    ns = {}
    good = []
    # one module file per definition block (a block that fails to import does not take the others down;
    # classes need a real source file: the metaclass reads it for the annotations of the generated code)
    for k, blk in enumerate(payload["blocks"]):
        modname = "%s_%d" % (payload.get("modname", "m"), k)
        src = payload["header"] + "".join("from %s import *\n" % m for m in good) + blk["src"]
        try:
            mod = load_module(src, modname, d)
            good.append(modname)
            ns.update({n: v for n, v in vars(mod).items() if not n.startswith('__')})
            res["defs"][blk["name"]] = "ok"
        except BaseException as e:
            sys.modules.pop(modname, None)
            res["defs"][blk["name"]] = "%s: %s" % (type(e).__name__, str(e)[:160])
    for c in payload["cases"]:
        res["outcomes"].append(run_case(c, ns))
    return res


def main():
    payload = json.load(open(sys.argv[1]))
    d = os.path.dirname(os.path.abspath(sys.argv[1]))
    sys.path.insert(0, d)
    json.dump(run_group(payload, d), open(sys.argv[2], 'w'), default=lambda o: {'object': type(o).__name__})


if __name__ == '__main__':
    main()
