"""Generic implementation driver: imports a generated module of packet classes (a real source file in the
scratch directory, so bisturi.codegen writes its __pkts__ there) and runs unpack / pack / construct cases,
returning canonical outcomes.  Runs under /venv/bin/python with PYTHONPATH=/repo.

payload = {"header": <imports>, "blocks": [{"name":..,"src":..}], "modname": str, "cases": [case...]}
case    = {"cls": name, "op": "unpack", "raw": hex, "offset": int}
        | {"cls": name, "op": "pack", "value": V}            construct from V then pack
        | {"cls": name, "op": "roundtrip", "raw": hex, "offset": int}   unpack then pack the result
        | {"cls": name, "op": "default"}                       Cls() field values
canonical values: int | {"x": hex} | null | [..] | {"p": cls, "f": [[name, V]...]} | {"py": expr} (input only)
outcome = {"ok": V, "end": int} | {"ok": hex} | {"err": "unpacking"|"packing", "stack": [[off, field, cls]..], "str_ok": bool}
        | {"exc": type name}"""
import sys, json, os, importlib.util, traceback


def canon(v):
    from bisturi.packet import Packet
    if isinstance(v, bool):
        return int(v)
    if isinstance(v, int):
        return v
    if isinstance(v, (bytes, bytearray)):
        return {"x": bytes(v).hex()}
    if v is None:
        return None
    if isinstance(v, (list, tuple)):
        return [canon(x) for x in v]
    if isinstance(v, Packet):
        fs = []
        for name, f, _, _ in v.get_fields():
            if name.startswith('_shift_to_'):
                continue
            try:
                fs.append([name, canon(getattr(v, name))])
            except AttributeError:
                fs.append([name, {"unset": True}])
        return {"p": type(v).__name__, "f": fs}
    return {"other": type(v).__name__, "repr": repr(v)[:80]}


def build(v, ns):
    if isinstance(v, dict):
        if "x" in v:
            return bytes.fromhex(v["x"])
        if "py" in v:
            return eval(v["py"], dict(ns))
        if "p" in v:
            cls = ns[v["p"]]
            return cls(**{n: build(x, ns) for n, x in v["f"] if not (isinstance(x, dict) and x.get("unset"))})
    if isinstance(v, list):
        return [build(x, ns) for x in v]
    return v


def outcome_of_exception(e):
    from bisturi.packet import PacketError
    if isinstance(e, PacketError):
        try:
            s = str(e)
            str_ok = isinstance(s, str)
        except Exception:
            str_ok = False
        return {"err": "unpacking" if e.was_error_found_in_unpacking_phase else "packing",
                "stack": [[o, f, c] for o, f, c in e.fields_stack], "str_ok": str_ok,
                "msg": str(e.original_error_message)[:120]}
    return {"exc": type(e).__name__, "msg": str(e)[:200]}


def run_case(c, ns):
    try:
        cls = ns[c["cls"]]
        op = c["op"]
        if op == "unpack":
            p = cls.unpack(bytes.fromhex(c["raw"]), c.get("offset", 0))
            end = None
            return {"ok": canon(p)}
        if op == "unpack_end":
            # unpack through unpack_impl to observe the end offset too
            p = cls(_initialize_fields=False)
            end = p.unpack_impl(bytes.fromhex(c["raw"]), c.get("offset", 0), root=p)
            return {"ok": canon(p), "end": end}
        if op == "pack":
            p = build(c["value"], ns)
            return {"ok": p.pack().hex()}
        if op == "roundtrip":
            p = cls(_initialize_fields=False)
            end = p.unpack_impl(bytes.fromhex(c["raw"]), c.get("offset", 0), root=p)
            try:
                return {"ok": canon(p), "end": end, "packed": {"ok": p.pack().hex()}}
            except Exception as e:
                return {"ok": canon(p), "end": end, "packed": outcome_of_exception(e)}
        if op == "default":
            return {"ok": canon(build(c["value"], ns))}
        if op == "derive":
            # pack a constructed value, then parse (and re-serialize) inputs derived from its encoding
            import random
            rnd = random.Random(c.get("seed", 0))
            p = build(c["value"], ns)
            try:
                raw = p.pack()
            except Exception as e:
                return {"packed": outcome_of_exception(e), "derived": []}
            variants = [(raw, 0)]
            cuts = list(range(len(raw))) if len(raw) <= c.get("maxcuts", 16) else sorted(rnd.sample(range(len(raw)), c.get("maxcuts", 16)))
            variants += [(raw[:k], 0) for k in cuts]
            for _ in range(c.get("flips", 3)):
                if raw:
                    b = bytearray(raw)
                    b[rnd.randrange(len(b))] = rnd.choice([0, 1, 2, 3, 0x80, 0xff, rnd.randrange(256)])
                    variants.append((bytes(b), 0))
            for off in c.get("offsets", []):
                pre = bytes(rnd.choice([0, 10, 58, 65, 255, rnd.randrange(256)]) for _ in range(off))
                suf = bytes(rnd.choice([0, 10, 58, 65, 255]) for _ in range(rnd.randrange(3)))
                variants.append((pre + raw + suf, off))
            out = []
            for r, off in variants:
                out.append({"raw": r.hex(), "offset": off,
                            "outcome": run_case({"cls": c["cls"], "op": "roundtrip", "raw": r.hex(), "offset": off}, ns)})
            return {"packed": {"ok": raw.hex()}, "derived": out}
        return {"exc": "BadCase"}
    except Exception as e:
        return outcome_of_exception(e)


def load_module(src, modname, directory):
    path = os.path.join(directory, modname + '.py')
    with open(path, 'w') as f:
        f.write(src)
    spec = importlib.util.spec_from_file_location(modname, path)
    mod = importlib.util.module_from_spec(spec)
    sys.modules[modname] = mod
    spec.loader.exec_module(mod)
    return mod


def run_group(payload, d):
    res = {"defs": {}, "outcomes": []}
    ns = {}
    good = []
    # one module file per definition block (a block that fails to import does not take the others down;
    # classes need a real source file: the metaclass reads it for the annotations of the generated code)
    for k, blk in enumerate(payload["blocks"]):
        modname = "%s_%d" % (payload.get("modname", "m"), k)
        src = payload["header"] + "".join("from %s import *\n" % m for m in good) + blk["src"]
        try:
            mod = load_module(src, modname, d)
            good.append(modname)
            ns.update({n: v for n, v in vars(mod).items() if not n.startswith('__')})
            res["defs"][blk["name"]] = "ok"
        except BaseException as e:
            sys.modules.pop(modname, None)
            res["defs"][blk["name"]] = "%s: %s" % (type(e).__name__, str(e)[:160])
    for c in payload["cases"]:
        res["outcomes"].append(run_case(c, ns))
    return res


def main():
    payload = json.load(open(sys.argv[1]))
    d = os.path.dirname(os.path.abspath(sys.argv[1]))
    sys.path.insert(0, d)
    json.dump(run_group(payload, d), open(sys.argv[2], 'w'))


if __name__ == '__main__':
    main()
