#!/usr/bin/env python3
"""seedkeep.py <seed out dir> <name> <property> <checks,comma-separated>: verify a seeded change (suite passes, demo fails with it and
passes without it), run the given checks against it, and archive it as /verif/seeded/<name>/ with meta.json."""
import sys, os, json, shutil, subprocess
src, name, prop, checks = sys.argv[1:5]
r = subprocess.run([sys.executable, os.path.join(os.path.dirname(__file__), 'seedtest.py'), src] + checks.split(','),
                   stdout=subprocess.PIPE, text=True)
res = json.loads(r.stdout[r.stdout.index('{'):])
ok = res['demo_clean'] == 0 and res['demo_mutated'] == 1 and res['tests'].startswith('40 passed')
dst = os.path.join('/verif/seeded', name)
os.makedirs(dst, exist_ok=True)
for f in ('patch.diff', 'demo.py', 'notes.txt'):
    if os.path.exists(os.path.join(src, f)) and os.path.abspath(src) != os.path.abspath(dst):
        shutil.copy(os.path.join(src, f), os.path.join(dst, f))
notes = open(os.path.join(src, 'notes.txt')).read() if os.path.exists(os.path.join(src, 'notes.txt')) else ''
meta = dict(breaks_property=prop, confirmed=ok, needs_to_manifest=notes[:1500],
            ran=dict(suite=res['tests'], demo_unchanged_exit=res['demo_clean'], demo_changed_exit=res['demo_mutated'],
                     checks={k: dict(exit=v['exit'], verdict=[l for l in v['lines'] if l.startswith('VIOLATION')][:1],
                                     summary=[l for l in v['lines'] if l.startswith('[')][:1]) for k, v in res['checks'].items()}),
            how_to_rerun=f"python3 harness/seedtest.py seeded/{name} {' '.join(checks.split(','))}")
json.dump(meta, open(os.path.join(dst, 'meta.json'), 'w'), indent=1)
print(json.dumps(meta['ran'], indent=1))
print('confirmed' if ok else 'NOT CONFIRMED')
