"""Implementation driver for C13: histories over several live packets of the same and of related classes.
payload = {"header", "blocks", "modname", "histories": [[op...]...], "threads": {...}|null}
op = ["new", slot, cls, value] | ["parse", slot, cls, rawhex] | ["set", slot, path, value] | ["pack", slot]
After every op the driver snapshots every live packet (canonical fields and, separately, its pack() output computed on a
deep copy so that observing does not disturb) and reports which OTHER packets changed; it also reports mutable
sub-objects shared between two live packets (by identity), and every attribute written on field / class objects after
class creation (write monitor installed from here: nothing in /repo is changed)."""
import sys, os, json, copy, threading
sys.path.insert(0, os.path.dirname(os.path.abspath(__file__)))
from impl_pkt import run_group, canon, build, load_module

WRITES = []


FRESH = set()


def install_monitor():
    """record attribute writes on the field objects that belong to a class (created at class definition); objects
    created while packets are parsed / serialized (a selector returning a fresh Field) are private to that call"""
    from bisturi.field import Field
    orig_init = Field.__init__

    def init(self, *a, **k):
        if MON[0]:
            FRESH.add(id(self))
        orig_init(self, *a, **k)
    Field.__init__ = init

    def mon(self, name, value):
        if MON[0] and id(self) not in FRESH:
            # 'changed': the attribute existed and held another value -- class-level state really moved
            try:
                changed = hasattr(self, name) and not (getattr(self, name) == value)
            except Exception:
                changed = True
            WRITES.append((type(self).__name__, name, 'changed' if changed else 'same'))
        object.__setattr__(self, name, value)
    Field.__setattr__ = mon


MON = [False]


def mutable_ids(v, acc, path=''):
    from bisturi.packet import Packet
    if isinstance(v, list):
        acc.setdefault(id(v), []).append(path)
        for k, x in enumerate(v):
            mutable_ids(x, acc, f"{path}[{k}]")
    elif isinstance(v, Packet):
        acc.setdefault(id(v), []).append(path)
        for name, _, _, _ in v.get_fields():
            if hasattr(v, name):
                mutable_ids(getattr(v, name), acc, f"{path}.{name}")


def ident_seq(live, names):
    """which (packet, path) pairs are the SAME object: a depth-first walk over the declared attributes of every live packet
    (get_fields order, lists by index): -1 immutable, -2 not set, else the number of the object (numbered by first
    occurrence); an object met again is named but not entered again; -3 starts a packet, -4 a name that is not live"""
    from bisturi.packet import Packet
    ids, seen, out = {}, set(), []

    def walk(v):
        if isinstance(v, (list, Packet)):
            out.append(ids.setdefault(id(v), len(ids)))
            if id(v) in seen:
                return
            seen.add(id(v))
            if isinstance(v, list):
                for x in v:
                    walk(x)
            else:
                for name, _, _, _ in v.get_fields():
                    if name.startswith('_shift_to_'):
                        continue
                    try:
                        x = getattr(v, name)
                    except AttributeError:
                        out.append(-2)
                        continue
                    walk(x)
        else:
            out.append(-1)
    for n in names:
        if n in live:
            out.append(-3)
            walk(live[n])
        else:
            out.append(-4)
    return out


def snapshot(live):
    out = {}
    for k, p in live.items():
        try:
            b = copy.deepcopy(p).pack().hex()
        except Exception as e:
            b = 'EXC:' + type(e).__name__
        out[k] = [json.dumps(canon(p), sort_keys=True), b]
    return out


def set_path(p, path, value):
    obj = p
    for step in path[:-1]:
        obj = obj[step] if isinstance(step, int) else getattr(obj, step)
    if isinstance(path[-1], int):
        obj[path[-1]] = value
    else:
        setattr(obj, path[-1], value)


PACKED = []


def run_history(h, ns, g=None, d=None, threaded=False):
    """threaded=True: every operation is carried out by the thread that owns the packet it is issued on (one worker thread per
    packet name, handed the operation by this thread, which waits for it): a schedule of threads at operation granularity"""
    live, report = {}, []
    workers = {}
    h_names = sorted({op[1] for op in h if op[0] in ('new', 'parse', 'reparse')}, key=lambda n: int(n[1:]))
    shared_by_user = set()    # ids of objects the USER put in two places (allowed sharing)
    links = []                # groups of packets linked that way
    observations = []
    for k, op in enumerate(h):
        before = snapshot(live)
        MON[0] = True
        def do(op=op, k=k):
            if op[0] == 'new':
                live[op[1]] = build(op[3], ns)
            elif op[0] == 'parse':
                live[op[1]] = ns[op[2]].unpack(bytes.fromhex(op[3]))
            elif op[0] == 'reparse':
                # a new packet parsed from the encoding of a live one
                src = live[op[2]]
                live[op[1]] = type(src).unpack(src.pack())
            elif op[0] == 'set':
                set_path(live[op[1]], op[2], build(op[3], ns))
            elif op[0] == 'share':
                # the user puts an object taken from one live packet into another place: dst.path = src.path
                obj = live[op[3]]
                for step in op[4]:
                    obj = obj[step] if isinstance(step, int) else getattr(obj, step)
                set_path(live[op[1]], op[2], obj)
                shared_by_user.add(id(obj))
            elif op[0] == 'append':
                obj = live[op[1]]
                for step in op[2]:
                    obj = obj[step] if isinstance(step, int) else getattr(obj, step)
                obj.append(build(op[3], ns))
            elif op[0] == 'pack':
                fields_before = json.dumps(canon(live[op[1]]), sort_keys=True)      # what the packet holds BEFORE it is ever serialized
                first = live[op[1]].pack()
                PACKED.append(first.hex())
                second = live[op[1]].pack()
                if first != second or json.dumps(canon(live[op[1]]), sort_keys=True) != fields_before:
                    report.append(dict(step=k, op=op, kind='pack-impure', first=first.hex(), second=second.hex()))
        try:
            if threaded:
                from concurrent.futures import ThreadPoolExecutor
                if op[1] not in workers:
                    workers[op[1]] = ThreadPoolExecutor(max_workers=1)
                workers[op[1]].submit(do).result()
            else:
                do()
            done = 1
        except Exception as e:
            done = 0
            report.append(dict(step=k, op=op, kind='exc', exc=type(e).__name__))
        MON[0] = False
        names = h_names
        observations.append(dict(seq=[done] + ident_seq(live, names), canon=[canon(live[n]) if n in live else None for n in names],
                                 packed=(PACKED.pop() if PACKED else None)))
        after = snapshot(live)
        if op[0] == 'share':
            # packets the user linked by putting one object in both may from now on change together
            a, b = op[1], op[3]
            grp = {a, b}
            for g2 in [x for x in links if x & grp]:
                grp |= g2
                links.remove(g2)
            links.append(grp)
        for j in before:
            if j != op[1] and j in after and before[j] != after[j]:
                if any(op[1] in g2 and j in g2 for g2 in links):
                    continue
                report.append(dict(step=k, op=op, kind='interference', victim=j, before=before[j], after=after[j]))
        # objects below something the user put in two places may be shared
        allowed = {}
        for j, p in live.items():
            acc = {}
            mutable_ids(p, acc, j)
            for i2 in acc:
                if i2 in shared_by_user:
                    allowed[i2] = True
        below = set()

        def mark(v):
            from bisturi.packet import Packet
            if isinstance(v, (list, Packet)):
                if id(v) in below:
                    return
                below.add(id(v))
                if isinstance(v, list):
                    for x in v:
                        mark(x)
                else:
                    for name, _, _, _ in v.get_fields():
                        if hasattr(v, name):
                            mark(getattr(v, name))
        for j, p in live.items():
            stack = [p]
            seen_local = set()
            while stack:
                v = stack.pop()
                if id(v) in seen_local:
                    continue
                seen_local.add(id(v))
                if id(v) in shared_by_user:
                    mark(v)
                    continue
                from bisturi.packet import Packet
                if isinstance(v, list):
                    stack.extend(x for x in v if isinstance(x, (list, Packet)))
                elif isinstance(v, Packet):
                    for name, _, _, _ in v.get_fields():
                        if hasattr(v, name) and isinstance(getattr(v, name), (list, Packet)):
                            stack.append(getattr(v, name))
        ids = {}
        for j, p in live.items():
            acc = {}
            mutable_ids(p, acc, j)
            for i, paths in acc.items():
                ids.setdefault(i, []).extend(paths)
        for i, paths in ids.items():
            owners = {q.split('.')[0].split('[')[0] for q in paths}
            if len(owners) > 1 and i not in below:
                report.append(dict(step=k, op=op, kind='shared-object', paths=sorted(paths)[:4]))
                break
    for ex in workers.values():
        ex.shutdown(wait=True)
    if g is not None and g.get('solo') and not links and not threaded:
        solo_check(live, g, d, report, h)
    return report, observations


_WORLD = [0]
PACKED = []


def fresh_world(g, d):
    """the same class definitions executed again under new module names: new class objects, new field objects, no history"""
    _WORLD[0] += 1
    ns, good = {}, []
    for k, blk in enumerate(g['blocks']):
        modname = "%s_w%d_%d" % (g['modname'], _WORLD[0], k)
        src = g['header'] + "".join("from %s import *\n" % m for m in good) + blk['src']
        try:
            mod = load_module(src, modname, d)
            good.append(modname)
            ns.update({n: v for n, v in vars(mod).items() if not n.startswith('__')})
        except BaseException:
            sys.modules.pop(modname, None)
    for m in good:
        sys.modules.pop(m, None)
    return ns


def solo_check(live, g, d, report, h):
    """independence from the rest of the world: what a live packet serializes to must be what an equal packet serializes to
    in a world where nothing else ever happened (fresh classes, only this packet built)"""
    for j, p in live.items():
        try:
            mine = p.pack().hex()
        except Exception as e:
            mine = 'EXC:' + type(e).__name__
        try:
            q = build(json.loads(json.dumps(canon(p))), fresh_world(g, d))
            solo = q.pack().hex()
        except Exception as e:
            solo = 'EXC:' + type(e).__name__
        if mine != solo:
            report.append(dict(step=len(h), op=['end', j], kind='world-dependent', packet=j, fields=canon(p), here=mine, alone=solo))


def run_threads(spec, ns):
    """parse/pack rounds on distinct packets from several threads vs the sequential result"""
    cls = ns[spec['cls']]
    raws = [bytes.fromhex(x) for x in spec['raws']]

    def work(raw, rounds, out):
        res = []
        for _ in range(rounds):
            try:
                p = cls.unpack(raw)
                res.append(p.pack().hex())
            except Exception as e:
                res.append('EXC:' + type(e).__name__)
        out.append((raw.hex(), res))
    seq = []
    for r in raws:
        work(r, 1, seq)
    want = {r: res[0] for r, res in seq}
    sys.setswitchinterval(1e-6)
    outs, ths = [], []
    for r in raws:
        t = threading.Thread(target=work, args=(r, spec['rounds'], outs))
        ths.append(t)
    for t in ths:
        t.start()
    for t in ths:
        t.join()
    bad = [[r, x, want[r]] for r, res in outs for x in res if x != want[r]]
    return dict(threads=len(raws), rounds=spec['rounds'], mismatches=bad[:5], n_bad=len(bad))


if __name__ == '__main__':
    payload = json.load(open(sys.argv[1]))
    d = os.path.dirname(os.path.abspath(sys.argv[1]))
    sys.path.insert(0, d)
    install_monitor()
    out = {'groups': []}
    for g in payload['groups']:
        ns = {}
        res = run_group(dict(header=g['header'], blocks=g['blocks'], modname=g['modname'], cases=[]), d)
        # run_group returns only outcomes: rebuild the namespace from the loaded modules
        for name, m in list(sys.modules.items()):
            if name.startswith(g['modname'] + '_'):
                ns.update({n: v for n, v in vars(m).items() if not n.startswith('__')})
        del WRITES[:]
        both = [run_history(h, ns, g, d) for h in g['histories']]
        reports = [b[0] for b in both]
        observations = [b[1] for b in both]
        # the same histories with every packet owned by its own thread: same raises, same packets after every operation
        sched_bad = []
        for hi, h in enumerate(g['histories']):
            _, obs_t = run_history(h, ns, None, None, threaded=True)
            a = [[o['seq'][0], o['canon']] for o in observations[hi]]
            b = [[o['seq'][0], o['canon']] for o in obs_t]
            if a != b:
                k = next(i for i in range(len(a)) if i >= len(b) or a[i] != b[i])
                sched_bad.append(dict(history=hi, step=k, single_thread=a[k], one_thread_per_packet=b[k] if k < len(b) else None))
        # pack() is observationally pure: the same history with a pack() of the packet just touched inserted after every operation
        # shows the same packets after every original operation and the same bytes at every original pack()
        ins_bad = []
        for hi, h in enumerate(g['histories']):
            h2, marks = [], []
            for op in h:
                h2.append(op); marks.append(len(h2) - 1)
                if op[0] != 'pack':
                    h2.append(['pack', op[1]])
            del PACKED[:]
            _, obs2 = run_history(h2, ns, None, None)
            a = [[o['seq'][0], o['canon'], o.get('packed')] for o in observations[hi]]
            b = [[obs2[m]['seq'][0], obs2[m]['canon'], obs2[m].get('packed')] for m in marks if m < len(obs2)]
            if a != b:
                k = next(i for i in range(len(a)) if i >= len(b) or a[i] != b[i])
                ins_bad.append(dict(history=hi, step=k, plain=a[k], with_packs_inserted=b[k] if k < len(b) else None))
        th = run_threads(g['threads'], ns) if g.get('threads') else None
        out['groups'].append(dict(defs=res['defs'], reports=reports, observations=observations, writes=sorted(set(map(tuple, WRITES))), threads=th, scheduled=dict(n=len(g['histories']), bad=sched_bad[:5]), inserted=dict(n=len(g['histories']), bad=ins_bad[:5])))
    json.dump(out, open(sys.argv[2], 'w'), default=lambda o: {'object': type(o).__name__})
