"""Declarations as data: one representation rendered twice -- as python source (a real module of packet classes
for the implementation) and as a Gallina term (Model/Decl.v) -- plus the random generator of class tables and of
values consistent with them.  See Model/Value.v and Model/Decl.v for the meaning of every constructor.

expr  : ('lit', v) | ('field', i) | ('un', op, e) | ('bin', op, l, r) | ('choose', sel, [e..]) |
        ('choosed', sel, [key..], [e..]) | ('ite', c, a, b) | ('attr', e, i) | ('offset',) | ('rawlen',)
value : int | bool | bytes | None | [value..] | ('pkt', cid, {i: value}) | ('leaf', leaf)
leaf  : ('int', n, signed, fe, dflt) | ('dsized', expr, how, dflt) how in const|field|expr|lambda
        | ('dmarker', m, incl, dflt) | ('dregex', [alt..], incl, dflt) alt = ('lit', bytes)|('plus', byte) | ('deos', dflt)
elem  : ('leaf', leaf) | ('refpkt', cid, {i: value}) | ('refsel', expr, how, dflt)
body  : ('elem', elem) | ('bits', w, dflt) | ('seq', elem, count, until, when, dflt, al) | ('opt', elem, when, dflt) | ('em',)
        count/until/when : None | (expr, how)    how in const|field|expr|lambda
fdecl : {'move': None | (('const', z)|('field', i)|('fun', expr), ref, al, spelled), 'body': body}
pclass: {'end','align','sbl','gp','gu','vec','ann','fields'}"""
import random

BOPS = {'Add': '+', 'Sub': '-', 'Mul': '*', 'FloorDiv': '//', 'Mod': '%', 'Le': '<=', 'Lt': '<', 'Ge': '>=', 'Gt': '>',
        'Eq': '==', 'Ne': '!=', 'BAnd': '&', 'BOr': '|', 'BXor': '^', 'RShift': '>>', 'LShift': '<<'}
REFS = {'RInner': 'innermost-pkt', 'RBegins': 'begins', 'RCur': 'current-offset'}
ENDS = {None: 'None', 'big': 'Some EBig', 'little': 'Some ELittle', 'network': 'Some ENetwork', 'local': 'Some ELocal'}

HEADER_PY = ("import re\nfrom bisturi.packet import Packet\nfrom bisturi.field import Int, Data, Ref, Bits, Em\n"
             "def _ch(sel, opts):\n    return opts[sel]\n"
             "def _ite(c, a, b):\n    return a if bool(c) else b\n")


def cname(c):
    return f"K{c}"


# ------------------------------------------------------------------ python rendering
def py_value(v):
    if isinstance(v, tuple) and v[0] == 'pkt':
        return f"{cname(v[1])}(" + ", ".join(f"f{i}={py_value(x)}" for i, x in sorted(v[2].items())) + ")"
    if isinstance(v, tuple) and v[0] == 'leaf':
        return py_leaf(v[1])
    if isinstance(v, list):
        return "[" + ", ".join(py_value(x) for x in v) + "]"
    return repr(v)


def py_expr(e, mode):
    """mode 'D': deferred expression over the field objects of the class body; 'L': body of a lambda over pkt"""
    k = e[0]
    if k == 'lit':
        return py_value(e[1])
    if k == 'field':
        return f"f{e[1]}" if mode == 'D' else f"pkt.f{e[1]}"
    if k == 'un':
        a = py_expr(e[2], mode)
        if e[1] == 'Neg':
            return f"(-{a})"
        if e[1] == 'Inv':
            return f"(~{a})"
        if e[1] == 'Truth':
            return f"({a}).__nonzero__()" if mode == 'D' else f"bool({a})"
        if e[1] == 'Len':
            return f"({a}).__len__()" if mode == 'D' else f"len({a})"
    if k == 'bin':
        l, r = py_expr(e[2], mode), py_expr(e[3], mode)
        if e[1] == 'GetItem':
            return f"({l})[{r}]"
        return f"({l} {BOPS[e[1]]} {r})"
    if k == 'choose':
        opts = ", ".join(py_expr(x, mode) for x in e[2])
        s = py_expr(e[1], mode)
        return f"({s}).chooses([{opts}])" if mode == 'D' else f"_ch({s}, ({opts},))"
    if k == 'choosed':
        items = ", ".join(f"{py_value(kk)}: {py_expr(x, mode)}" for kk, x in zip(e[2], e[3]))
        s = py_expr(e[1], mode)
        return f"({s}).chooses({{{items}}})" if mode == 'D' else f"_ch({s}, {{{items}}})"
    if k == 'ite':
        c, a, b = (py_expr(x, mode) for x in e[1:4])
        return f"({c}).if_true_then_else({a}, {b})" if mode == 'D' else f"_ite({c}, {a}, {b})"
    if k == 'attr':
        return f"({py_expr(e[1], mode)}).f{e[2]}"
    if k == 'offset':
        return "offset"
    if k == 'rawlen':
        return "len(raw)"
    raise ValueError(e)


def py_arg(expr, how):
    """an expression used as size / count / condition / selector / move argument"""
    if how == 'const':
        return py_value(expr[1])
    if how == 'field':
        return f"f{field_of(expr)}"
    if how == 'expr':
        return py_expr(expr, 'D')
    if how == 'lambda':
        return "lambda pkt, raw=b'', offset=0, **k: " + py_expr(expr, 'L')
    raise ValueError(how)


def field_of(e):
    """the field a `how == 'field'` expression stands for (when-conditions wrap it in Truth / Len)"""
    if e[0] == 'field':
        return e[1]
    if e[0] == 'un' and e[2][0] == 'field':
        return e[2][1]
    raise ValueError(e)


def py_regex(alts):
    import re
    parts = []
    for a in alts:
        if a[0] == 'lit':
            parts.append(re.escape(a[1]))
        else:
            parts.append(re.escape(bytes([a[1]])) + b'+')
    return f"re.compile({b'|'.join(parts)!r})"


def py_leaf(l):
    k = l[0]
    if k == 'int':
        _, n, signed, fe, d = l
        return f"Int({n}, signed={signed}, endianness={fe!r}, default={py_value(d)})"
    if k == 'dsized':
        _, e, how, d = l
        return f"Data({py_arg(e, how)}, default={py_value(d)})"
    if k == 'dmarker':
        return f"Data(until_marker={l[1]!r}, include_delimiter={l[2]}, default={py_value(l[3])})"
    if k == 'dregex':
        return f"Data(until_marker={py_regex(l[1])}, include_delimiter={l[2]}, default={py_value(l[3])})"
    if k == 'deos':
        return f"Data(until_marker=re.compile(b'$'), default={py_value(l[1])})"
    if k == 'dregex_raw':      # any python regular expression: outside the model (implementation-only groups)
        return f"Data(until_marker=re.compile({l[1]!r}), include_delimiter={l[2]}, default=b'')"
    raise ValueError(l)


def py_elem(e):
    if e[0] == 'leaf':
        return py_leaf(e[1])
    if e[0] == 'refpkt':
        return f"Ref({py_value(('pkt', e[1], e[2]))})" if e[2] else f"Ref({cname(e[1])})"
    if e[0] == 'refsel':
        return f"Ref({py_arg(e[1], e[2])}, default={py_value(e[3])})"
    raise ValueError(e)


def py_field(fd):
    b = fd['body']
    if b[0] == 'elem':
        s = py_elem(b[1])
        if b[1][0] == 'refpkt' and fd.get('spell') in ('class', 'instance') and not fd.get('move'):
            # the documented shorthands: a packet CLASS or a packet INSTANCE written in the class body stands for Ref(..)
            s = cname(b[1][1]) if (fd['spell'] == 'class' and not b[1][2]) else py_value(('pkt', b[1][1], b[1][2]))
    elif b[0] == 'bits':
        s = f"Bits({b[1]}, default={py_value(b[2])})"
    elif b[0] == 'em':
        s = "Em()"
    elif b[0] == 'seq':
        _, el, count, until, when, dflt, al = b
        args = []
        if count is not None:
            args.append("count=" + py_arg(*count))
        if until is not None:
            args.append("until=" + py_arg(*until))
        if when is not None:
            args.append("when=" + py_arg(*when))
        if dflt is not None:
            args.append("default=" + py_value(dflt))
        if al is not None:
            args.append(f"aligned={al}")
        s = f"{py_elem(el)}.repeated({', '.join(args)})"
    elif b[0] == 'opt':
        _, el, when, dflt = b
        s = f"{py_elem(el)}.when({py_arg(*when)}, default={py_value(dflt)})"
    else:
        raise ValueError(b)
    mv = fd.get('move')
    if mv:
        arg, ref, al, spelled = mv
        a = {'const': lambda: repr(arg[1]), 'field': lambda: f"f{arg[1]}",
             'fun': lambda: "lambda pkt, **k: " + py_expr(arg[1], 'L')}[arg[0]]()
        if spelled == 'shift':
            s += f".shift({a})"
        elif al:
            s += f".aligned({a}, {REFS[ref]!r})"
        else:
            s += f".at({a}, {REFS[ref]!r})"
    return s


def py_class(c, pc):
    conf = {}
    if pc.get('end') is not None:
        conf['endianness'] = pc['end']
    if pc.get('align') is not None:
        conf['align'] = pc['align']
    if pc.get('sbl') is not None:
        conf['search_buffer_length'] = pc['sbl']
    for key, name in (('gp', 'generate_for_pack'), ('gu', 'generate_for_unpack'), ('vec', 'vectorize'), ('ann', 'annotate')):
        if not pc.get(key, True):
            conf[name] = False
    lines = [f"class {cname(c)}(Packet):", f"    __bisturi__ = {conf!r}"]
    for i, fd in enumerate(pc['fields']):
        lines.append(f"    f{i} = {py_field(fd)}")
    return "\n".join(lines) + "\n"


# ------------------------------------------------------------------ Gallina rendering
def z(n):
    return f"({n})" if n < 0 else str(n)


def cq_bytes(b):
    return "[" + ";".join(str(x) for x in b) + "]"


def cq_bool(b):
    return 'true' if b else 'false'


def cq_opt(x, f):
    return "None" if x is None else f"(Some {f(x)})"


def cq_slots(d):
    return "[" + "; ".join(f"(FN {i}, {cq_value(v)})" for i, v in sorted(d.items())) + "]"


def cq_value(v):
    if isinstance(v, bool):
        return f"(VBool {cq_bool(v)})"
    if isinstance(v, int):
        return f"(VInt {z(v)})"
    if isinstance(v, bytes):
        return f"(VBytes {cq_bytes(v)})"
    if v is None:
        return "VNone"
    if isinstance(v, list):
        return "(VList [" + "; ".join(cq_value(x) for x in v) + "])"
    if isinstance(v, tuple) and v[0] == 'pkt':
        return f"(VNew {v[1]} {cq_slots(v[2])})"
    if isinstance(v, tuple) and v[0] == 'leaf':
        return f"(VLeaf {cq_leaf(v[1])})"
    raise ValueError(v)


def cq_expr(e):
    k = e[0]
    if k == 'lit':
        return f"(ELit {cq_value(e[1])})"
    if k == 'field':
        return f"(EField (FN {e[1]}))"
    if k == 'un':
        return f"(EUn {e[1]} {cq_expr(e[2])})"
    if k == 'bin':
        return f"(EBin {e[1]} {cq_expr(e[2])} {cq_expr(e[3])})"
    if k == 'choose':
        return f"(EChoose {cq_expr(e[1])} [" + "; ".join(cq_expr(x) for x in e[2]) + "])"
    if k == 'choosed':
        return (f"(EChooseD {cq_expr(e[1])} [" + "; ".join(cq_value(x) for x in e[2]) + "] [" +
                "; ".join(cq_expr(x) for x in e[3]) + "])")
    if k == 'ite':
        return f"(EIte {cq_expr(e[1])} {cq_expr(e[2])} {cq_expr(e[3])})"
    if k == 'attr':
        return f"(EAttr {cq_expr(e[1])} (FN {e[2]}))"
    if k == 'offset':
        return "EOffset"
    if k == 'rawlen':
        return "ERawLen"
    raise ValueError(e)


def cq_regex(alts):
    return "[" + "; ".join(f"ALit {cq_bytes(a[1])}" if a[0] == 'lit' else f"APlus {a[1]}" for a in alts) + "]"


def cq_leaf(l):
    k = l[0]
    if k == 'int':
        return f"(LInt {l[1]} {cq_bool(l[2])} ({ENDS[l[3]]}) {cq_value(l[4])})"
    if k == 'dsized':
        return f"(LDataSized {cq_expr(l[1])} {cq_bool(l[2] == 'const')} {cq_value(l[3])})"
    if k == 'dmarker':
        return f"(LDataMarker {cq_bytes(l[1])} {cq_bool(l[2])} {cq_value(l[3])})"
    if k == 'dregex':
        return f"(LDataRegex {cq_regex(l[1])} {cq_bool(l[2])} {cq_value(l[3])})"
    if k == 'deos':
        return f"(LDataEos {cq_value(l[1])})"
    raise ValueError(l)


def cq_elem(e):
    if e[0] == 'leaf':
        return f"(ELeafE {cq_leaf(e[1])})"
    if e[0] == 'refpkt':
        return f"(ERefPkt {e[1]} {cq_slots(e[2])})"
    if e[0] == 'refsel':
        return f"(ERefSel {cq_expr(e[1])} {cq_value(e[3])})"
    raise ValueError(e)


def cq_body(b):
    if b[0] == 'elem':
        return f"(SElem {cq_elem(b[1])})"
    if b[0] == 'bits':
        return f"(SBits {b[1]} {cq_value(b[2])})"
    if b[0] == 'em':
        return "SEm"
    if b[0] == 'seq':
        _, el, count, until, when, dflt, al = b
        ce = lambda x: cq_expr(x[0])
        return (f"(SSeq {cq_elem(el)} {cq_opt(count, ce)} {cq_opt(until, ce)} {cq_opt(when, ce)} "
                f"{cq_opt(dflt, cq_value)} {cq_opt(al, z)})")
    if b[0] == 'opt':
        return f"(SOpt {cq_elem(b[1])} {cq_expr(b[2][0])} {cq_value(b[3])})"
    raise ValueError(b)


def cq_field(fd):
    mv = fd.get('move')
    if mv:
        arg, ref, al, _ = mv
        a = {'const': lambda: f"MConst {z(arg[1])}", 'field': lambda: f"MField (FN {arg[1]})",
             'fun': lambda: f"MFun {cq_expr(arg[1])}"}[arg[0]]()
        m = f"(Some ({a}, {ref}, {cq_bool(al)}))"
    else:
        m = "None"
    return f"{{| fd_move := {m}; fd_body := {cq_body(fd['body'])} |}}"


def cq_class(pc):
    return ("{| pc_endianness := " + ENDS[pc.get('end')] + f"; pc_align := {cq_opt(pc.get('align'), z)}; "
            f"pc_sbl := {cq_opt(pc.get('sbl'), z)}; pc_gen_pack := {cq_bool(pc.get('gp', True))}; "
            f"pc_gen_unpack := {cq_bool(pc.get('gu', True))}; pc_vectorize := {cq_bool(pc.get('vec', True))};\n"
            "   pc_fields := [" + ";\n     ".join(cq_field(f) for f in pc['fields']) + "] |}")


def cq_table(table):
    """table: {cid: pclass} -> Gallina list (cid * pclass), nested classes first"""
    return "[" + ";\n ".join(f"({c}, {cq_class(pc)})" for c, pc in sorted(table.items())) + "]"


# ------------------------------------------------------------------ names in outcomes
def parse_fname(name):
    """python attribute / error-report name -> Gallina fname"""
    import re
    m = re.fullmatch(r"f(\d+)", name)
    if m:
        return f"FN {m.group(1)}"
    m = re.fullmatch(r"_shift_to_f(\d+)", name)
    if m:
        return f"FShift {m.group(1)}"
    m = re.fullmatch(r"between 'f(\d+)' and 'f(\d+)'", name)
    if m:
        return f"FRun {m.group(1)} {m.group(2)}"
    m = re.fullmatch(r"_seq_elem__f(\d+)", name)
    if m:
        return f"FSeqElem {m.group(1)}"
    m = re.fullmatch(r"_opt_elem__f(\d+)", name)
    if m:
        return f"FOptElem {m.group(1)}"
    return "FN (-1)"


def cq_canon(v):
    """canonical implementation value (harness/impl_pkt.py canon) -> Gallina cval"""
    if v is None:
        return "CNone"
    if isinstance(v, bool):
        return f"(CInt {int(v)})"
    if isinstance(v, int):
        return f"(CInt {z(v)})"
    if isinstance(v, list):
        return "(CList [" + "; ".join(cq_canon(x) for x in v) + "])"
    if isinstance(v, dict):
        if 'x' in v:
            return f"(CBytes {cq_bytes(bytes.fromhex(v['x']))})"
        if 'p' in v:
            fs = "; ".join(f"({parse_fname(n)}, {'None' if (isinstance(x, dict) and x.get('unset')) else '(Some ' + cq_canon(x) + ')'})"
                           for n, x in v['f'])
            return f"(CPkt {int(v['p'][1:])} [{fs}])"
    return "COther"


def cq_stack(st):
    return "[" + "; ".join(f"({z(o)}, {parse_fname(f)}, {int(c[1:]) if c[1:].isdigit() else -1})" for o, f, c in st) + "]"
