#!/usr/bin/env python3
"""Inventory of bisturi/*.py: which functions / methods are tied to the Coq development by a template-matched kernel
(Tie A, harness/pygen.py), and which are not.  Prints one line per function and a summary per file."""
import ast, os, sys
sys.path.insert(0, os.path.dirname(os.path.abspath(__file__)))
import pygen

REPO = pygen.REPO
covered = {}
for kid, k in pygen.KERNELS.items():
    for cls, fn in k['functions']:
        covered.setdefault((k['pyfile'], cls, fn), []).append(kid)
tot = {}
for f in sorted(os.listdir(os.path.join(REPO, 'bisturi'))):
    if not f.endswith('.py'):
        continue
    path = 'bisturi/' + f
    tree = ast.parse(open(os.path.join(REPO, path)).read())
    items = []
    for n in tree.body:
        if isinstance(n, ast.FunctionDef):
            items.append((None, n))
        elif isinstance(n, ast.ClassDef):
            for m in n.body:
                if isinstance(m, ast.FunctionDef):
                    items.append((n.name, m))
    for cls, fn in items:
        lines = fn.end_lineno - fn.lineno + 1
        ks = covered.get((path, cls, fn.name), [])
        t = tot.setdefault(path, [0, 0, 0, 0])
        t[0] += 1; t[2] += lines
        if ks:
            t[1] += 1; t[3] += lines
        if '-v' in sys.argv:
            print(f"{path}:{fn.lineno:<5} {(cls + '.' if cls else '') + fn.name:<55} {lines:>4}  {','.join(ks) or '-'}")
for path, (n, c, l, cl) in tot.items():
    print(f"{path:<32} functions {c:>3}/{n:<3}  lines {cl:>4}/{l:<4}")
