#!/usr/bin/env python3
"""Mutation analysis of the checks (a measurement, not part of any check): first-order syntactic mutants of /repo/bisturi/*.py
that still pass the pinned test suite are applied, one at a time, to a scratch worktree of /repo; the quick checks whose kernels
cover the mutated function (plus the general whole-packet checks) are run against it through BISTURI_REPO; the verdicts are
tabulated: detected with a concrete failing input / detected by a broken obligation only (no-failing-input-found) / survived.

The checks run from a scratch copy of /verif (so /verif/coq/Gen, /verif/evidence and /verif/replays are left alone and other work can
go on meanwhile).

usage: mutate.py <n mutants> <seed> <out.json> [operator-class ...]    (scratch worktree and copy under /tmp, removed afterwards)
operator classes: compare binop boolop constant if bool delete augassign return not   (default: all)"""
import ast, os, sys, json, random, subprocess, importlib, re
HERE = os.path.dirname(os.path.abspath(__file__))
sys.path.insert(0, HERE)
sys.path.insert(0, os.path.join(HERE, 'props'))
import pygen

N, SEED, OUT = int(sys.argv[1]), int(sys.argv[2]), sys.argv[3]
CLASSES = set(sys.argv[4:])
VCOPY = '/tmp/mutverif_%d' % os.getpid()
REPO = '/repo'
TREE = '/tmp/mutrepo_%d' % os.getpid()
FILES = ['field.py', 'structural_fields.py', 'packet.py', 'fragments.py', 'codegen.py', 'deferred.py', 'descriptor.py', 'pattern_matching.py', 'packet_builder.py']
CMP = {ast.Lt: '<=', ast.LtE: '<', ast.Gt: '>=', ast.GtE: '>', ast.Eq: '!=', ast.NotEq: '==', ast.Is: 'is not', ast.IsNot: 'is'}
BIN = {ast.Add: '-', ast.Sub: '+', ast.Mult: '+', ast.FloorDiv: '*', ast.Mod: '//', ast.LShift: '>>', ast.RShift: '<<', ast.BitAnd: '|', ast.BitOr: '&'}
BOOL = {ast.And: 'or', ast.Or: 'and'}


def sh(cmd, **kw):
    return subprocess.run(cmd, shell=True, stdout=subprocess.PIPE, stderr=subprocess.STDOUT, text=True, **kw)


def covered_functions():
    """(file, class, function) -> kernels that template-match it"""
    out = {}
    for kid, k in pygen.KERNELS.items():
        for cls, fn in k['functions']:
            out.setdefault((os.path.basename(k['pyfile']), cls, fn), []).append(kid)
    return out


def checks_for(kernels):
    res = []
    for i in range(1, 21):
        pid = f"C{i:02d}"
        mod = importlib.import_module(pid)
        if any(k in mod.KERNELS for k in kernels):
            res.append(pid)
    return res


def candidates(fname):
    """list of (lineno, description, start, end, replacement) text edits"""
    src = open(os.path.join(REPO, 'bisturi', fname)).read()
    lines = src.split('\n')
    starts = [0]
    for l in lines:
        starts.append(starts[-1] + len(l) + 1)
    pos = lambda ln, col: starts[ln - 1] + len(lines[ln - 1].encode()[:col].decode())
    tree = ast.parse(src)
    out = []
    for top in tree.body:
        funcs = []
        if isinstance(top, ast.FunctionDef):
            funcs.append((None, top))
        elif isinstance(top, ast.ClassDef):
            funcs += [(top.name, m) for m in top.body if isinstance(m, ast.FunctionDef)]
        for cls, fn in funcs:
            for n in ast.walk(fn):
                if isinstance(n, ast.Compare) and len(n.ops) == 1 and type(n.ops[0]) in CMP:
                    a, b = pos(n.left.end_lineno, n.left.end_col_offset), pos(n.comparators[0].lineno, n.comparators[0].col_offset)
                    out.append((cls, fn.name, n.lineno, f"compare -> {CMP[type(n.ops[0])]}", a, b, f" {CMP[type(n.ops[0])]} "))
                elif isinstance(n, ast.BinOp) and type(n.op) in BIN and not isinstance(n.left, ast.Constant) or \
                        (isinstance(n, ast.BinOp) and type(n.op) in BIN and isinstance(n.left, ast.Constant) and not isinstance(n.left.value, (str, bytes))):
                    if isinstance(n.left, ast.Constant) and isinstance(n.left.value, (str, bytes)):
                        continue
                    if isinstance(n.op, ast.Mod) and isinstance(n.left, (ast.Constant, ast.JoinedStr)):
                        continue
                    a, b = pos(n.left.end_lineno, n.left.end_col_offset), pos(n.right.lineno, n.right.col_offset)
                    if '(' in src[a:b] or ')' in src[a:b]:
                        continue
                    out.append((cls, fn.name, n.lineno, f"binop -> {BIN[type(n.op)]}", a, b, f" {BIN[type(n.op)]} "))
                elif isinstance(n, ast.BoolOp) and len(n.values) == 2:
                    a, b = pos(n.values[0].end_lineno, n.values[0].end_col_offset), pos(n.values[1].lineno, n.values[1].col_offset)
                    if '(' in src[a:b] or ')' in src[a:b]:
                        continue
                    out.append((cls, fn.name, n.lineno, f"boolop -> {BOOL[type(n.op)]}", a, b, f" {BOOL[type(n.op)]} "))
                elif isinstance(n, ast.Constant) and isinstance(n.value, int) and not isinstance(n.value, bool) and 0 <= n.value <= 8:
                    a, b = pos(n.lineno, n.col_offset), pos(n.end_lineno, n.end_col_offset)
                    out.append((cls, fn.name, n.lineno, f"constant {n.value} -> {n.value + 1}", a, b, str(n.value + 1)))
                elif isinstance(n, ast.If) and not isinstance(n.test, ast.Constant):
                    a, b = pos(n.test.lineno, n.test.col_offset), pos(n.test.end_lineno, n.test.end_col_offset)
                    out.append((cls, fn.name, n.lineno, "if -> if not", a, b, "not (" + src[a:b] + ")"))
                elif isinstance(n, ast.Constant) and isinstance(n.value, bool):
                    a, b = pos(n.lineno, n.col_offset), pos(n.end_lineno, n.end_col_offset)
                    out.append((cls, fn.name, n.lineno, f"bool {n.value} -> {not n.value}", a, b, str(not n.value)))
                elif isinstance(n, (ast.Assign, ast.Expr)) and n.lineno == n.end_lineno and not (isinstance(n, ast.Expr) and isinstance(n.value, ast.Constant)):
                    a, b = pos(n.lineno, n.col_offset), pos(n.end_lineno, n.end_col_offset)
                    if isinstance(n, ast.Assign) and all(isinstance(t, ast.Name) for t in n.targets):
                        continue      # deleting a local binding only produces a NameError
                    out.append((cls, fn.name, n.lineno, "delete statement", a, b, "pass"))
                elif isinstance(n, ast.AugAssign) and type(n.op) in BIN:
                    a, b = pos(n.target.end_lineno, n.target.end_col_offset), pos(n.value.lineno, n.value.col_offset)
                    out.append((cls, fn.name, n.lineno, f"augassign -> {BIN[type(n.op)]}=", a, b, f" {BIN[type(n.op)]}= "))
                elif isinstance(n, ast.Return) and n.value is not None and not (isinstance(n.value, ast.Constant) and n.value.value is None) and n.lineno == n.end_lineno:
                    a, b = pos(n.value.lineno, n.value.col_offset), pos(n.value.end_lineno, n.value.end_col_offset)
                    out.append((cls, fn.name, n.lineno, "return -> None", a, b, "None"))
                elif isinstance(n, ast.UnaryOp) and isinstance(n.op, ast.Not):
                    a, b = pos(n.lineno, n.col_offset), pos(n.operand.lineno, n.operand.col_offset)
                    if src[a:b].strip() == 'not':
                        out.append((cls, fn.name, n.lineno, "not -> (dropped)", a, b, ""))
    return src, out


def main():
    rng = random.Random(SEED)
    cov = covered_functions()
    pool = []
    for f in FILES:
        src, cands = candidates(f)
        for c in cands:
            if not CLASSES or c[3].split()[0] in CLASSES:
                pool.append((f, src, c))
    rng.shuffle(pool)
    assert sh('git -C /repo status --porcelain').stdout.strip() == ''
    print(sh(f'git -C /repo worktree add --detach {TREE} HEAD').stdout[-200:])
    env = dict(os.environ, PYTHONPATH=TREE, PYTHONHASHSEED='0', BISTURI_REPO=TREE)
    results = []
    print(sh(f'rsync -a --exclude .git --exclude replays /verif/ {VCOPY}/').stdout[-200:])
    try:
        for f, src, (cls, fn, ln, what, a, b, rep) in pool:
            if len(results) >= N:
                break
            mutated = src[:a] + rep + src[b:]
            try:
                ast.parse(mutated)
            except SyntaxError:
                continue
            path = os.path.join(TREE, 'bisturi', f)
            open(path, 'w').write(mutated)
            t = subprocess.run(f'cd {TREE} && timeout 300 /venv/bin/python -m pytest -q -x -p no:cacheprovider tests', shell=True,
                               stdout=subprocess.PIPE, stderr=subprocess.STDOUT, text=True, env=env)
            if '40 passed' not in t.stdout:
                open(path, 'w').write(src)
                continue
            kernels = cov.get((f, cls, fn), [])
            checks = checks_for(kernels)
            general = [p for p in ('C01', 'C02', 'C12') if p not in checks]
            rng.shuffle(checks)
            todo = (checks[:6] + general)[:7]
            verdict, detail = 'survived', {}
            for p in todo:
                r = subprocess.run(f'cd {VCOPY} && timeout 900 python3 check.py {p} --tier quick', shell=True, stdout=subprocess.PIPE,
                                   stderr=subprocess.STDOUT, text=True, env=env)
                v = [l for l in r.stdout.split('\n') if l.startswith('VIOLATION')]
                if v:
                    detail[p] = 'tie-only' if v[0].endswith('no-failing-input-found') else 'input'
            if 'input' in detail.values():
                verdict = 'input'
            elif detail:
                verdict = 'tie-only'
            results.append(dict(file=f, cls=cls, fn=fn, line=ln, mutation=what, text=src[max(0, a - 40):b + 40].replace('\n', ' '), kernels=kernels, checks=todo,
                                verdict=verdict, per_check=detail))
            print(len(results), f, ln, what, verdict, detail, flush=True)
            open(path, 'w').write(src)
            json.dump(results, open(OUT, 'w'), indent=1)
    finally:
        sh(f'git -C /repo worktree remove --force {TREE}; rm -rf {TREE} {VCOPY}; git -C /repo worktree prune')
    tally = {}
    for r in results:
        tally[r['verdict']] = tally.get(r['verdict'], 0) + 1
    print('TALLY', tally)


if __name__ == '__main__':
    main()
