"""Implementation driver for C10: calls structural_fields.Move.unpack / Move.pack directly at a given cursor and
innermost-packet position; move argument given as a constant, through a field of a stub packet, or a callable."""
import sys, json
from bisturi.structural_fields import Move
from bisturi.fragments import Fragments
from bisturi.field import Int


class Stub:
    pass


def run(c):
    al, ref, mv, cur, ipp, direction, form = c
    if form == 'const':
        arg = mv
        pkt = Stub()
    elif form == 'field':
        arg = Int(1)
        arg.field_name = 'pos'
        pkt = Stub()
        pkt.pos = mv
    else:
        arg = (lambda **k: mv)
        pkt = Stub()
    m = Move(arg, ref, bool(al))
    k = {'innermost-pkt-pos': ipp}
    try:
        if direction == 'u':
            return ['ok', m.unpack(pkt=pkt, raw=b'', offset=cur, **k)]
        fr = Fragments()
        fr.current_offset = cur
        m.pack(pkt=pkt, fragments=fr, **k)
        return ['ok', fr.current_offset]
    except Exception as e:
        return ['err', type(e).__name__]


if __name__ == '__main__':
    payload = json.load(open(sys.argv[1]))
    json.dump([run(c) for c in payload['cases']], open(sys.argv[2], 'w'), default=lambda o: {'object': type(o).__name__})
