"""C17 Auto/AutoLength fields always read and serialize consistently (descriptor.py + its drivers)."""
import os, itertools
from common import *

PID = 'C17'
TARGETS = ['Properties/C17.vo', 'Bridge/DescBridge.vo', 'Bridge/InitBridge.vo', 'Bridge/PlumbingBridge.vo', 'Bridge/MiscAutoBridge.vo', 'Bridge/RefBridge.vo', 'Bridge/CodegenBridge.vo']
KERNELS = ['G7_auto', 'G15_init', 'G17_builder', 'G20c_auto_ctor', 'G16_ref', 'G11_codegen']     # G11_codegen: generated pack code decides where the descriptor hooks are called      # G15_init: the constructor path that hands a keyword to the descriptor
PROP_FILE = 'Properties/C17.v'

HEADER_COQ = """From Coq Require Import ZArith List Bool.
From Bisturi Require Import Kernel.Desc.
Import ListNotations. Open Scope Z_scope.
(* the tracked value is represented by what the descriptor computes from it: its length (AutoLength) or t (Auto) *)
Definition compute (kind : Z) (t : Z) : Z := if kind =? 0 then t else t * 2 + 1.
Definition start : cstate Z := {| tracked := 0; real := 0; enabled := None |}.
Definition obs_eqb (a b : list (Z * option Z)) : bool :=
  (Z.of_nat (length a) =? Z.of_nat (length b)) &&
  forallb (fun p => (fst (fst p) =? fst (snd p)) &&
                    match snd (fst p), snd (snd p) with Some x, Some y => x =? y | None, None => true | _, _ => false end) (combine a b).
Fixpoint bad (i : Z) (cs : list (Z * list (dop Z) * list (Z * option Z))) : list Z :=
  match cs with
  | [] => []
  | (kind, ops, want) :: r =>
      if obs_eqb (c_run Z (compute kind) start ops) want then bad (i + 1) r else i :: bad (i + 1) r
  end.
"""


def spec_run(kind, ops):
    """the property itself: explicit value if assigned and not deleted, else the computed one; pack emits the reading"""
    comp = (lambda t: t) if kind == 0 else (lambda t: t * 2 + 1)
    tracked, explicit = 0, None
    out = []
    for op in ops:
        w = None
        if op[0] == 'construct':
            tracked, explicit = op[1], op[2]
        elif op[0] == 'unpack':
            tracked, explicit = op[1], None
        elif op[0] == 'set_tracked':
            tracked = op[1]
        elif op[0] == 'set':
            explicit = op[1]
        elif op[0] == 'del':
            explicit = None
        read = explicit if explicit is not None else comp(tracked)
        if op[0] == 'pack':
            w = read
        out.append((read, w))
    return out


def cq_op(op):
    k = op[0]
    if k == 'construct':
        return f"DConstruct Z {op[1]} 0 {'None' if op[2] is None else '(Some ' + str(op[2]) + ')'}"
    if k == 'unpack':
        return f"DUnpack Z {op[1]} {op[2]}"
    if k == 'set_tracked':
        return f"DSetTracked Z {op[1]}"
    if k == 'set':
        return f"DSet Z {op[1]}"
    if k == 'del':
        return "DDel Z"
    return "DPack Z"


def run(tier, seed, rng):
    maxlen = 3 if tier == 'quick' else 4
    starts = [('construct', 0, None), ('construct', 2, None), ('construct', 1, 5), ('construct', 2, 0), ('unpack', 2, 2), ('unpack', 1, 1)]
    steps = [('set_tracked', 0), ('set_tracked', 3), ('set', 7), ('set', 0), ('del',), ('pack',), ('construct', 1, None),
             ('construct', 2, 9), ('construct', 3, 0), ('unpack', 3, 3)]
    hs = []
    for cls in ('LenG', 'LenL', 'FunG', 'FunL', 'EmbG', 'EmbL', 'PlaG', 'PlaL', 'FunA', 'RefG', 'RefL', 'WidG', 'WidL', 'FunW'):      # Wid*, FunW: a described integer of 3 / 5 bytes (no struct code)
             # Pla*, FunA: the described field is positioned (.at / class-wide align)      # Emb*: the described field lives in a packet embedded with Ref(.., embed=True)
        for st in starts:
            if cls.startswith(('Len', 'Emb', 'Pla', 'Ref', 'Wid')) and st[0] == 'unpack' and st[1] != st[2]:
                continue
            for L in range(0, maxlen + 1):
                for combo in itertools.product(steps, repeat=L):
                    hs.append(dict(cls=cls, ops=[list(st)] + [list(o) for o in combo]))
    # random longer histories
    for _ in range(400 if tier == 'quick' else 4000):
        cls = rng.choice(['LenG', 'LenL', 'FunG', 'FunL', 'EmbG', 'EmbL', 'PlaG', 'PlaL', 'FunA', 'RefG', 'RefL', 'WidG', 'WidL', 'FunW'])
        hs.append(dict(cls=cls, ops=[list(rng.choice(starts[:3]))] + [list(rng.choice(steps)) for _ in range(rng.randint(5, 12))]))
    # unpack of the Len classes parses `parsed` data bytes: tracked length = parsed
    for h in hs:
        if h['cls'].startswith(('Len', 'Emb', 'Pla', 'Ref', 'Wid')):
            for op in h['ops']:
                if op[0] == 'unpack':
                    op[1] = op[2]
    parts = shard(hs, len(hs) // NPROC + 1)
    outs = run_impl_parallel(os.path.join(VERIF, 'harness', 'impl_desc.py'), [dict(histories=p) for p in parts])
    outcomes = [o for p in outs for o in p]
    failures, lines = [], []
    dist = dict(steps=0, packs=0, reads_explicit=0, reads_computed=0, exceptions=0, has_dict=0, two_described_histories=0)
    for h, o in zip(hs, outcomes):
        kind = 0 if h['cls'].startswith(('Len', 'Emb', 'Pla', 'Ref', 'Wid')) else 1
        want = spec_run(kind, h['ops'])
        got = []
        for step in o:
            if step[0] != 'ok':
                dist['exceptions'] += 1
                got.append(('exc', step[1]))
                break
            got.append((step[1], step[2]))
            dist['steps'] += 1
            dist['packs'] += step[2] is not None
            dist['has_dict'] += bool(step[3])
            if step[3]:
                failures.append(dict(kind='oracle', sig='desc-dict', what='instances of a class with a described field have a __dict__', history=h))
        if got != want:
            failures.append(dict(kind='oracle', sig='desc-history', what='Auto/AutoLength: a read or a serialized value differs from the specification',
                                 history=h, observed=got, required=want))
        obs = "[" + "; ".join(f"({g[0]}, {'None' if g[1] is None else 'Some ' + str(g[1])})" for g in got if g[0] != 'exc') + "]"
        if any(g[0] == 'exc' or not isinstance(g[0], int) or not (g[1] is None or isinstance(g[1], int)) for g in got):
            obs = "[(-1, None)]"       # an exception or a read that is not an integer: never agrees with the model
        lines.append(f"({kind}, [{'; '.join(cq_op(op) for op in h['ops'])}], {obs})")
    for h in hs:
        for (r, w), op in zip(spec_run(0 if h['cls'].startswith(('Len', 'Emb', 'Pla', 'Ref', 'Wid')) else 1, h['ops']), h['ops']):
            pass
    # ---- TWO described fields in one packet (names chosen alike: size / csize, len / dlen, id / crc): whatever is done to one of them
    # -- set, delete, change of its tracked field -- the other keeps reading as computed and is serialized as such
    tsrc = "from bisturi.packet import Packet\nfrom bisturi.field import Int, Data\nfrom bisturi.descriptor import AutoLength\n"
    pairs = [('size', 'csize'), ('len_', 'dlen_'), ('id', 'crc'), ('n', 'nn')]
    for k, (a, b) in enumerate(pairs):
        for g, conf in (('G', '{}'), ('L', "{'generate_for_pack': False, 'generate_for_unpack': False}")):
            tsrc += (f"class Two{g}{k}(Packet):\n    __bisturi__ = {conf}\n    {a} = Int(1).describe(AutoLength('body'))\n    {b} = Int(1).describe(AutoLength('comment'))\n"
                     f"    body = Data({a})\n    comment = Data({b})\n")
    tsrc += ("def two_run(cls, a, b, ops):\n    p = cls(body=b'xy', comment=b'q')\n    out = []\n    for op in ops:\n"
             "        if op == 'setA': setattr(p, a, 7)\n        elif op == 'delA': delattr(p, a)\n        elif op == 'bodyA': p.body = p.body + b'z'\n"
             "        elif op == 'setB': setattr(p, b, 5)\n        elif op == 'delB': delattr(p, b)\n        elif op == 'commentB': p.comment = p.comment + b'w'\n"
             "        elif op == 'pack': p.pack()\n        out.append([getattr(p, a), getattr(p, b), list(p.pack()[:2]), len(p.body), len(p.comment)])\n    return out\n")
    import itertools as _it2
    tops = ['setA', 'delA', 'bodyA', 'setB', 'delB', 'commentB', 'pack']
    tcases, tmeta = [], []
    for k, (a, b) in enumerate(pairs):
        for g in 'GL':
            for L in (1, 2, 3):
                for combo in _it2.product(tops, repeat=L):
                    if L == 3 and (k or g == 'L') and (tops.index(combo[0]) * 49 + tops.index(combo[1]) * 7 + tops.index(combo[2])) % 5:
                        continue
                    tcases.append(dict(cls=f"Two{g}{k}", op='default', value={"py": f"two_run(Two{g}{k}, {a!r}, {b!r}, {list(combo)!r})"}))
                    tmeta.append((f"Two{g}{k}", a, b, combo))
    tres = run_impl(os.path.join(VERIF, 'harness', 'impl_pkt.py'), dict(header='', blocks=[dict(name='two', src=tsrc)], modname='c17t', cases=tcases))
    dist['two_described_histories'] = len(tcases)
    for (cls, a, b, combo), o in zip(tmeta, tres['outcomes']):
        expA = expB = None          # None: computed
        want = []
        nb, nc = 2, 1
        for op in combo:
            if op == 'setA': expA = 7
            elif op == 'delA': expA = None
            elif op == 'bodyA': nb += 1
            elif op == 'setB': expB = 5
            elif op == 'delB': expB = None
            elif op == 'commentB': nc += 1
            ra, rb = (nb if expA is None else expA), (nc if expB is None else expB)
            want.append([ra, rb, [ra, rb], nb, nc])
        if o.get('ok') != want:
            failures.append(dict(kind='oracle', sig='two-described-fields', what=f"{cls}: described fields {a!r} (tracks body) and {b!r} (tracks comment), operations {list(combo)}: after each step [read {a}, read {b}, first two bytes of pack(), len(body), len(comment)] must be {want}; observed {str(o)[:300]}",
                                 classes=tsrc, cls=cls, history=list(combo), observed=o, required=want))
    # ---- a described field that is OPTIONAL (Int(1).when(has_n).describe(...)): None is a legal explicit value there ("leave the
    # field out of the wire"): assigned or given to the constructor it reads back as None until deleted, and pack() omits the field
    osrc = ("from bisturi.packet import Packet\nfrom bisturi.field import Int, Data\nfrom bisturi.descriptor import Auto, AutoLength\n"
            "class OptG(Packet):\n    has_n = Int(1)\n    n = Int(1).when(has_n).describe(AutoLength('a'))\n    a = Data(until_marker=b'\\x00')\n"
            "class OptL(Packet):\n    __bisturi__ = {'generate_for_pack': False, 'generate_for_unpack': False}\n    has_n = Int(1)\n"
            "    n = Int(1).when(has_n).describe(Auto(lambda pkt: len(pkt.a)))\n    a = Data(until_marker=b'\\x00')\n"
            "def opt_run(cls, start, ops):\n    p = cls(has_n=1, a=b'xyz', **start)\n    out = [[p.n, list(p.pack())]]\n    for op in ops:\n"
            "        if op == 'set7': p.n = 7\n        elif op == 'setNone': p.n = None\n        elif op == 'set0': p.n = 0\n        elif op == 'del': del p.n\n"
            "        elif op == 'grow': p.a = p.a + b'w'\n        elif op == 'pack': p.pack()\n        out.append([p.n, list(p.pack())])\n    return out\n")
    oops = ['set7', 'setNone', 'set0', 'del', 'grow', 'pack']
    ocases, ometa = [], []
    for cls in ('OptG', 'OptL'):
        for start in ({}, {'n': None}, {'n': 5}, {'n': 0}):
            for L in (0, 1, 2, 3):
                for combo in _it2.product(oops, repeat=L):
                    ocases.append(dict(cls=cls, op='default', value={"py": f"opt_run({cls}, {start!r}, {list(combo)!r})"})); ometa.append((cls, start, combo))
    ores = run_impl(os.path.join(VERIF, 'harness', 'impl_pkt.py'), dict(header='', blocks=[dict(name='optdesc', src=osrc)], modname='c17o', cases=ocases))
    dist['optional_described_histories'] = len(ocases)
    UNSET = object()
    for (cls, start, combo), o in zip(ometa, ores['outcomes']):
        exp, a = start.get('n', UNSET), b'xyz'
        def obs():
            v = len(a) if exp is UNSET else exp
            return [v, list(b'\x01' + (b'' if v is None else bytes([v])) + a + b'\x00')]
        want = [obs()]
        for op in combo:
            if op == 'set7': exp = 7
            elif op == 'setNone': exp = None
            elif op == 'set0': exp = 0
            elif op == 'del': exp = UNSET
            elif op == 'grow': a += b'w'
            want.append(obs())
        if o.get('ok') != want:
            failures.append(dict(kind='oracle', sig='optional-described-field', what=f"{cls}(has_n=1, a=b'xyz'{''.join(', %s=%r' % kv for kv in start.items())}), operations {list(combo)}: after each step [read n, pack()] must be {want}; observed {str(o)[:300]}",
                                 classes=osrc, cls=cls, history=list(combo), observed=o, required=want))
    csize = 700
    files = [(f"cases_{i}", HEADER_COQ + "Definition cases : list (Z * list (dop Z) * list (Z * option Z)) := [\n" + ";\n".join(p) +
              "\n].\nEval vm_compute in (bad 0 cases).\n") for i, p in enumerate(shard(lines, csize))]
    outs = coq_eval_files(files)
    disagreements = []
    for i in range(len(files)):
        for j in parse_coq_list(outs[f"cases_{i}"]):
            disagreements.append(dict(kind='correspondence', history=hs[i * csize + j], implementation=outcomes[i * csize + j],
                                      what='model Kernel/Desc.v and the implementation differ on this history'))
    return dict(evaluations=len(hs), distinct_nontrivial=len({json.dumps(h) for h in hs if len(h['ops']) >= 3}), exhaustive=True,
                rule=("exhaustive: every history of up to the tier's length over {set tracked (2 values), set described (2 values), delete, pack, "
                      "construct without / with the keyword, unpack} after each of 5 starting operations, for AutoLength and for Auto with a "
                      "function, with generated and with generic code; plus random histories of 6..13 steps; non-trivial = at least 3 steps"),
                samples=[dict(history=hs[i], observed=outcomes[i]) for i in (7, len(hs) // 2, len(hs) - 1)],
                distribution=dist, failures=failures, disagreements=disagreements)


def replay(f):
    if 'history' not in f:
        return True, f
    o = run_impl(os.path.join(VERIF, 'harness', 'impl_desc.py'), dict(histories=[f['history']]))[0]
    kind = 0 if f['history']['cls'].startswith(('Len', 'Emb', 'Pla', 'Ref', 'Wid')) else 1
    want = spec_run(kind, f['history']['ops'])
    got = [(s[1], s[2]) if s[0] == 'ok' else ('exc', s[1]) for s in o]
    return got != want, dict(observed=got, required=want)
