"""C10 Positioning and alignment act identically when parsing and serializing (structural_fields.Move, Sequence)."""
import os, itertools
from common import *

PID = 'C10'
TARGETS = ['Properties/C10.vo', 'Bridge/MoveBridge.vo', 'Bridge/RefBridge.vo', 'Bridge/FragBridge.vo']
KERNELS = ['G3_move', 'G4_seq', 'G16_ref', 'G1_frag']
PROP_FILE = 'Properties/C10.v'
REFS = ['innermost-pkt', 'begins', 'current-offset']
COQ_REF = {'innermost-pkt': 'RInner', 'begins': 'RBegins', 'current-offset': 'RCur'}
HEADER_PY = "from bisturi.packet import Packet\nfrom bisturi.field import Int, Data, Ref, Bits, Em\n"

HEADER_COQ = """From Coq Require Import ZArith List Bool.
From Bisturi Require Import Kernel.Align.
Import ListNotations. Open Scope Z_scope.
Definition eq_oz (a b : option Z) : bool := match a, b with Some x, Some y => x =? y | None, None => true | _, _ => false end.
Inductive case := MU (al : bool) (r : reference) (mv c ipp : Z) (want : option Z)
                | MP (al : bool) (r : reference) (mv c ipp : Z) (want : option Z)
                | SA (a c : Z) (want : option Z).
Definition agrees (c : case) : bool :=
  match c with
  | MU al r mv c ipp want => eq_oz (move_unpack al r mv c ipp) want
  | MP al r mv c ipp want => eq_oz (move_pack al r mv c ipp) want
  | SA a c want => eq_oz (seq_align a c) want
  end.
Fixpoint bad (i : Z) (cs : list case) : list Z :=
  match cs with [] => [] | c :: r => if agrees c then bad (i + 1) r else i :: bad (i + 1) r end.
"""


def ref_move(al, ref, mv, cur, ipp):
    """the property, independently: least advance to a multiple / the stated position; negative is an error"""
    if al:
        if mv == 0:
            return None
        start = {'begins': 0, 'current-offset': cur, 'innermost-pkt': ipp}[ref]
        if mv > 0:
            d = 0
            while (cur + d - start) % mv != 0:
                d += 1
            o = cur + d
        else:
            o = cur + ((mv - ((cur - start) % mv)) % mv)    # negative alignment: no claim, mirror of the formula
    else:
        o = {'begins': mv, 'current-offset': cur + mv, 'innermost-pkt': ipp + mv}[ref]
    return None if o < 0 else o


def seq_classes():
    """repeated fields with per-element alignment a, elements of w bytes, read by the count loop (A) and by the until loop (U)"""
    blocks = []
    for a in range(1, 7):
        for w in (1, 2):
            blocks.append(dict(name=f"SeqA{a}w{w}", src=f"class SeqA{a}w{w}(Packet):\n    n = Int(1)\n    xs = Int({w}).repeated(n, aligned={a})\n    t = Int(1)\n"))
            blocks.append(dict(name=f"SeqU{a}w{w}", src=f"class SeqU{a}w{w}(Packet):\n    n = Int(1)\n    xs = Int({w}).repeated(until=lambda pkt, raw=b'', offset=0, **k: len(pkt.xs) >= pkt.n, aligned={a})\n    t = Int(1)\n"))
    return blocks


def run(tier, seed, rng):
    curs = range(0, 16) if tier == 'quick' else range(0, 40)
    ipps = range(0, 8) if tier == 'quick' else range(0, 16)
    mvs = range(-3, 7) if tier == 'quick' else range(-8, 17)
    cases = []
    for al, ref, mv, cur, ipp, d in itertools.product((0, 1), REFS, mvs, curs, ipps, 'up'):
        form = ('const', 'field', 'callable')[(mv + cur + ipp) % 3]
        cases.append([al, ref, mv, cur, ipp, d, form])
    parts = shard(cases, len(cases) // NPROC + 1)
    outs = run_impl_parallel(os.path.join(VERIF, 'harness', 'impl_move.py'), [dict(cases=p) for p in parts])
    outcomes = [o for p in outs for o in p]
    failures, lines = [], []
    dist = dict(ok=0, err=0, align=0, jump=0, nested=0)
    for c, o in zip(cases, outcomes):
        al, ref, mv, cur, ipp, d, form = c
        want = ref_move(al, ref, mv, cur, ipp)
        got = o[1] if o[0] == 'ok' else None
        dist['ok' if o[0] == 'ok' else 'err'] += 1
        dist['align' if al else 'jump'] += 1
        dist['nested'] += ipp != 0
        if got != want and not (al and mv < 0):
            failures.append(dict(kind='oracle', sig='move', what='Move: position differs from the declared one (or differs between parse and serialize)',
                                 case=c, observed=o, required=want))
        w = 'None' if got is None else f"Some {zlit(got)}"
        lines.append(f"{'MU' if d == 'u' else 'MP'} {'true' if al else 'false'} {COQ_REF[ref]} {zlit(mv)} {cur} {ipp} ({w})")
    # symmetry, directly on the implementation: same (al, ref, mv, cur, ipp) -> same result both directions
    by = {}
    for c, o in zip(cases, outcomes):
        by.setdefault(tuple(c[:5]), {})[c[5]] = o
    for k, v in by.items():
        if v.get('u', [None])[0:2] != v.get('p', [None])[0:2] and not (v['u'][0] == 'err' and v['p'][0] == 'err'):
            failures.append(dict(kind='oracle', sig='move-symmetry', what='Move.unpack and Move.pack disagree at the same cursor',
                                 case=list(k), observed=v))
    # per-element alignment of repeated fields, through real classes at several start offsets
    blocks = seq_classes()
    scases, smeta = [], []
    for a in range(1, 7):
        for off in range(0, 8 if tier == 'quick' else 32):
            for n in (0, 1, 2, 3):
                for w in (1, 2):
                    # build an input: offset padding, n, then elements each at the next multiple of a (absolute)
                    raw = bytearray(b'P' * off) + bytes([n])
                    pos = off + 1
                    elems = []
                    for i in range(n):
                        while pos % a:
                            raw.append(0x2e); pos += 1
                        raw += bytes([0] * (w - 1) + [0x41 + i]); elems.append(0x41 + i); pos += w
                    raw.append(0x7a); pos += 1
                    scases.append(dict(cls=f"SeqA{a}w{w}", op='roundtrip', raw=bytes(raw).hex(), offset=off))
                    smeta.append((a, off, n, elems, pos, bytes(raw)))
                    if n >= 1:
                        scases.append(dict(cls=f"SeqU{a}w{w}", op='roundtrip', raw=bytes(raw).hex(), offset=off))
                        smeta.append((a, off, n, elems, pos, bytes(raw)))
                    lines_pos = off + 1
                    for i in range(n):
                        got = lines_pos + ((a - lines_pos % a) % a)
                        lines.append(f"SA {a} {lines_pos} (Some {got})")
                        lines_pos = got + w
    res = run_impl(os.path.join(VERIF, 'harness', 'impl_pkt.py'), dict(header=HEADER_PY, blocks=blocks, modname='c10', cases=scases))
    for (a, off, n, elems, end, raw), o in zip(smeta, res['outcomes']):
        ok = 'ok' in o and dict(o['ok']['f'])['xs'] == elems and o.get('end') == end and dict(o['ok']['f'])['t'] == 0x7a
        if not ok:
            failures.append(dict(kind='oracle', sig='seq-align', what='repeated(count or until, aligned=a): elements not read at the next multiples of a',
                                 aligned=a, offset=off, raw=raw.hex(), observed=o, required=dict(xs=elems, end=end)))
        elif off == 0:
            # serializing: skipped bytes filled with '.', same positions (start offset 0: see finding D10 for other offsets)
            want = raw.hex()
            if o['packed'] != {'ok': want}:
                failures.append(dict(kind='oracle', sig='seq-align-pack', what='repeated(aligned=a): pack does not reproduce positions / fill',
                                     aligned=a, raw=raw.hex(), observed=o['packed'], required=want))
    # ---- a referenced packet whose LAST field is placed before the end of another of its fields, followed by more fields of
    # the outer packet: "the current position" after the reference must be the same on input and on output
    nsrc = ("class Inner(Packet):\n    a = Int(1).at(6, 'innermost-pkt')\n    b = Int(1).at(2, 'innermost-pkt')\n"
            "class OutPlain(Packet):\n    h = Int(1)\n    inner = Ref(Inner)\n    t = Int(1)\n"
            "class OutShift(Packet):\n    h = Int(1)\n    inner = Ref(Inner)\n    t = Int(1).shift(1)\n"
            "class OutAlign(Packet):\n    h = Int(2)\n    inner = Ref(Inner)\n    t = Int(1).aligned(4, 'current-offset')\n"
            "class OutSeq(Packet):\n    h = Int(1)\n    inners = Ref(Inner).repeated(count=2)\n    t = Int(1)\n"
            "class OutDeep(Packet):\n    g = Int(1)\n    o = Ref(OutPlain)\n    u = Int(1)\n")
    # expected layouts (positions of h/g, b, t, a ... ; '.' = 0x2e elsewhere), built by hand from the declarations
    def lay(n, placed):
        raw = bytearray(b'.' * n)
        for pos, val in placed:
            raw[pos] = val
        return bytes(raw)
    nexp = {'OutPlain': lay(8, [(0, 1), (3, 2), (4, 3), (7, 4)]),             # h@0 | inner@1: b@3 a@7, ends at 4 | t@4
            'OutShift': lay(8, [(0, 1), (3, 2), (5, 3), (7, 4)]),             # t@4+1
            'OutAlign': lay(9, [(0, 0), (1, 1), (4, 2), (8, 4), (5, 3)]),     # h@0..1 | inner@2: b@4 a@8, ends at 5 | t aligned to 4 from 5: 5 (advance 0)
            'OutSeq': lay(11, [(0, 1), (3, 2), (7, 4), (6, 5), (10, 6), (7, 4)]),  # placeholder, fixed below
            'OutDeep': lay(9, [(0, 9), (1, 1), (4, 2), (5, 3), (8, 4), (6, 7)])}  # g@0 | o@1: h@1 inner@2: b@4 a@8 ends 5, t@5 | u@6
    del nexp['OutSeq']
    ncases = [dict(cls=k, op='roundtrip', raw=v.hex(), offset=0) for k, v in nexp.items()]
    nres = run_impl(os.path.join(VERIF, 'harness', 'impl_pkt.py'), dict(header=HEADER_PY, blocks=[dict(name='nested', src=nsrc)], modname='c10n', cases=ncases))
    dist['nested_last_field_placed_early'] = len(ncases)
    for c, o in zip(ncases, nres['outcomes']):
        if 'ok' not in o or o.get('packed') != {'ok': c['raw']}:
            failures.append(dict(kind='oracle', sig='ref-position', what='after a referenced packet whose last field is placed before the end of another of its fields, the following fields are not serialized where they are parsed',
                                 classes=nsrc, cls=c['cls'], raw=c['raw'], offset=0, observed=o, required=dict(packed=c['raw'])))
    # ---- a packet reached through a reference whose prototype is decided at RUN TIME (a callable, a selector expression), nested
    # at every start offset 1..6: positions relative to the start of the DATA ('begins': aligned(), at(N, 'begins'), per-element and
    # class-wide alignment) are the same on output as on input, and the same as through a static reference
    def al(x, a):
        return x + (-x) % a
    def enc_inner(T, start):
        cells = []
        if T == 'RPt':
            cells = [(start, b'\x00\x07'), (al(start + 2, 4), b'\x00\x09')]
        elif T == 'RPin':
            cells = [(start, b'\x05'), (9, b'\x06')]
        elif T == 'RSeq':
            pos = start + 1; cells = [(start, b'\x02')]
            for e in (0x11, 0x12):
                pos = al(pos, 4); cells.append((pos, bytes([e]))); pos += 1
        return cells
    rsrc = ("class RPt(Packet):\n    x = Int(2)\n    y = Int(2).aligned(4)\n"
            "class RPin(Packet):\n    a = Int(1)\n    b = Int(1).at(9, 'begins')\n"
            "class RSeq(Packet):\n    n = Int(1)\n    xs = Int(1).repeated(count=n, aligned=4)\n"
            "class RCls(Packet):\n    __bisturi__ = {'align': 4}\n    a = Int(1)\n    b = Int(2)\n")
    rvals = {'RPt': "RPt(x=7, y=9)", 'RPin': "RPin(a=5, b=6)", 'RSeq': "RSeq(n=2, xs=[17, 18])", 'RCls': "RCls(a=3, b=4)"}
    for T in ('RPt', 'RPin', 'RSeq', 'RCls'):
        rsrc += (f"class St{T}(Packet):\n    name = Data(until_marker=b'\\0')\n    p = Ref({T})\n    t = Int(1)\n"
                 f"class Dy{T}(Packet):\n    name = Data(until_marker=b'\\0')\n    p = Ref(lambda pkt, **k: {T}(), default={T}())\n    t = Int(1)\n"
                 f"class Ex{T}(Packet):\n    name = Data(until_marker=b'\\0')\n    p = Ref((name[0:1] == b'q').chooses([{T}(), {T}()]), default={T}())\n    t = Int(1)\n")
    rcases, rmeta = [], []
    for T in ('RPt', 'RPin', 'RSeq', 'RCls'):
        for L in range(0, 6):
            nm = b'qrstu'[:L]
            start = L + 1
            cells = enc_inner(T, start)
            raw = None
            if cells:
                end = max(pos + len(b) for pos, b in cells)
                buf = bytearray(b'.' * (end + 1)); buf[0:start] = nm + b'\x00'
                for pos, b in cells:
                    buf[pos:pos + len(b)] = b
                buf[end] = 0x21
                raw = bytes(buf)
            for H in ('St', 'Dy', 'Ex'):
                if raw is not None:
                    rcases.append(dict(cls=H + T, op='roundtrip', raw=raw.hex(), offset=0)); rmeta.append((H, T, L, 'rt', raw))
                rcases.append(dict(cls=H + T, op='pack', value={"py": f"{H}{T}(name={nm!r}, p={rvals[T]}, t=33)"})); rmeta.append((H, T, L, 'pack', raw))
    rres = run_impl(os.path.join(VERIF, 'harness', 'impl_pkt.py'), dict(header=HEADER_PY, blocks=[dict(name='dynref', src=rsrc)], modname='c10r', cases=rcases))
    dist['runtime_reference_begins_positions'] = len(rcases)
    rstat = {}
    for (H, T, L, kind, raw), o in zip(rmeta, rres['outcomes']):
        txt = json.dumps(o, sort_keys=True).replace(H + T, 'H' + T)
        if H == 'St':
            rstat[(T, L, kind)] = txt
            want = None if raw is None else ({'ok': raw.hex()} if kind == 'pack' else raw.hex())
            bad = raw is not None and ((kind == 'pack' and o != want) or (kind == 'rt' and ('ok' not in o or o.get('packed') != {'ok': want})))
            what = f"a packet nested at offset {L + 1} through a static reference: the layout {raw.hex() if raw else ''} is not what is parsed and serialized"
        else:
            bad = txt != rstat[(T, L, kind)]
            what = (f"a packet nested at offset {L + 1} through a reference whose prototype is a {'callable' if H == 'Dy' else 'selector expression'}: positions relative to the start of the data "
                    f"differ from the static reference, which gives {rstat[(T, L, kind)][:300]}")
        if bad:
            failures.append(dict(kind='oracle', sig='runtime-ref-begins', what=what, classes=rsrc, cls=H + T, **(dict(raw=raw.hex(), offset=0) if kind == 'rt' else dict(value=f"{H}{T}(name={b'qrstu'[:L]!r}, p={rvals[T]}, t=33)")), observed=o))
    # ---- a forward jump that leaves a hole, then a BACKWARD shift into the hole that fills it only partly (every position and
    # length): the bytes left unwritten are holes on output too, every field lands where it is parsed from; alone and referenced at 1
    gsrc, gcases, gmeta = "", [], []
    for K in range(2, 8):
        for S in range(2, K + 1):
            for L in range(1, 4):
                start = K + 1 - S
                if start < 1 or start + L > K:
                    continue
                nm = f"Gap{K}_{S}_{L}"
                gsrc += (f"class {nm}(Packet):\n    a = Int(1)\n    i = Int(1).at({K})\n    d = Data({L}).shift(-{S})\n"
                         f"class O{nm}(Packet):\n    tag = Int(1)\n    gap = Ref({nm})\n")
                buf = bytearray(b'.' * (K + 1)); buf[0] = 1; buf[K] = 0xff; buf[start:start + L] = b'DEF'[:L]
                gcases.append(dict(cls=nm, op='roundtrip', raw=bytes(buf).hex(), offset=0)); gmeta.append((nm, bytes(buf)))
                gcases.append(dict(cls='O' + nm, op='roundtrip', raw=(b'\x07' + bytes(buf)).hex(), offset=0)); gmeta.append(('O' + nm, b'\x07' + bytes(buf)))
    gres = run_impl(os.path.join(VERIF, 'harness', 'impl_pkt.py'), dict(header=HEADER_PY, blocks=[dict(name='gaps', src=gsrc)], modname='c10g', cases=gcases))
    dist['hole_then_backward_shift'] = len(gcases)
    for (nm, raw), o in zip(gmeta, gres['outcomes']):
        if 'ok' not in o or o.get('packed') != {'ok': raw.hex()}:
            failures.append(dict(kind='oracle', sig='hole-backward', what=f"a hole left by a forward jump and partly filled by a backward shift: the output {o.get('packed')} does not hold the fields where they were read ({raw.hex()})",
                                 classes='class ' + 'class '.join(c for c in gsrc.split('class ')[1:] if c.startswith((nm.lstrip('O') + '(', nm + '('))), cls=nm, raw=raw.hex(), offset=0, observed=o, required=dict(packed=raw.hex())))
    # ---- an EMPTY field placed inside bytes written before it, then a field placed further on: on output the later field must land
    # where it was read (an empty chunk in the middle must not move the cursor the fill is measured from); every position of the
    # empty field, lengths 0..2, targets 8..11, directly and nested at offset 1 (start offset 0: see finding D10 for other offsets)
    zsrc, zcases, zmeta = "", [], []
    for K in (8, 9, 11):
        zsrc += (f"class ZA{K}(Packet):\n    o = Int(1)\n    n = Int(1)\n    body = Data(6)\n    e = Data(n).at(o)\n    t = Int(2).at({K})\n"
                 f"class ZE{K}(Packet):\n    o = Int(1)\n    n = Int(1)\n    body = Data(6)\n    e = Em().at(o)\n    t = Int(2).at({K}, 'begins')\n"
                 f"class ZS{K}(Packet):\n    o = Int(1)\n    n = Int(1)\n    body = Data(6)\n    e = Data(0).shift(-3)\n    t = Int(2).at({K})\n"
                 f"class ZO{K}(Packet):\n    tag = Int(1)\n    z = Ref(ZA{K})\n    u = Int(1)\n")
        for o in range(0, K + 3):
            for n in (0, 1, 2):
                raw = bytes([o, n]) + b'ABCDEF' + b'.' * (K - 8) + b'\xbe\xef'
                inside = n == 0 or (o >= 8 and o + n <= K)
                if not inside:
                    continue
                raw = raw + b'.' * max(0, o + n - len(raw))
                for cls in ([f"ZA{K}", f"ZO{K}"] + ([f"ZE{K}", f"ZS{K}"] if n == 0 else [])):
                    r = (b'\x07' + raw + b'\x21') if cls.startswith('ZO') else raw
                    zcases.append(dict(cls=cls, op='roundtrip', raw=r.hex(), offset=0))
                    zmeta.append((cls, o, n, K, r))
    zres = run_impl(os.path.join(VERIF, 'harness', 'impl_pkt.py'), dict(header=HEADER_PY, blocks=[dict(name='zero', src=zsrc)], modname='c10z', cases=zcases))
    dist['empty_field_inside_earlier_bytes'] = len(zcases)
    for (cls, o, n, K, r), oo in zip(zmeta, zres['outcomes']):
        if 'ok' not in oo:
            continue            # e.g. the nested variant when the following field would re-read: not this family's subject
        want = r.hex()
        pk = oo.get('packed')
        dist['empty_field_parsed'] = dist.get('empty_field_parsed', 0) + 1
        if pk != {'ok': want}:
            failures.append(dict(kind='oracle', sig='empty-inside', what=f"an empty field placed at {o} inside earlier bytes, then a field placed at {K}: the output {pk} does not hold the fields where they were read ({want})",
                                 classes=zsrc, cls=cls, raw=want, offset=0, observed=oo, required=dict(packed=want)))
    # ---- the target of at / shift is a DESCRIBED field (Auto): the position is the number on the wire, when parsing as when
    # serializing, whether the user forced it or the descriptor computed it
    dsrc = ("from bisturi.descriptor import Auto\n"
            "class DAt(Packet):\n    off = Int(1).describe(Auto(lambda pkt: 3))\n    body = Data(4).at(off)\n    t = Int(1)\n"
            "class DAtL(Packet):\n    __bisturi__ = {'generate_for_pack': False, 'generate_for_unpack': False}\n    off = Int(1).describe(Auto(lambda pkt: 3))\n    body = Data(4).at(off)\n    t = Int(1)\n"
            "class DShift(Packet):\n    k = Int(1).describe(Auto(lambda pkt: 1))\n    body = Data(2).shift(k)\n    t = Int(1)\n"
            "class DOut(Packet):\n    h = Int(1)\n    r = Ref(DAt)\n")
    dcases, dmeta = [], []
    for cls in ('DAt', 'DAtL'):
        for off in (None, 3, 1, 5, 8):
            kw = "body=b'BODY', t=7" + ("" if off is None else f", off={off}")
            o2 = 3 if off is None else off
            raw = bytes([o2]) + b'.' * (o2 - 1) + b'BODY' + b'\x07'
            dcases.append(dict(cls=cls, op='pack', value={"py": f"{cls}({kw})"})); dmeta.append(('pack', cls, raw, kw))
            dcases.append(dict(cls=cls, op='roundtrip', raw=raw.hex(), offset=0)); dmeta.append(('unpack', cls, raw, kw))
            if cls == 'DAt':
                dcases.append(dict(cls='DOut', op='roundtrip', raw=(b'\x09' + raw).hex(), offset=0)); dmeta.append(('unpack-nested', 'DOut', b'\x09' + raw, kw))
    for k in (None, 1, 0, 3):
        kw = "body=b'xy', t=7" + ("" if k is None else f", k={k}")
        k2 = 1 if k is None else k
        raw = bytes([k2]) + b'.' * k2 + b'xy' + b'\x07'
        dcases.append(dict(cls='DShift', op='pack', value={"py": f"DShift({kw})"})); dmeta.append(('pack', 'DShift', raw, kw))
        dcases.append(dict(cls='DShift', op='roundtrip', raw=raw.hex(), offset=0)); dmeta.append(('unpack', 'DShift', raw, kw))
    dres = run_impl(os.path.join(VERIF, 'harness', 'impl_pkt.py'), dict(header=HEADER_PY, blocks=[dict(name='desc', src=dsrc)], modname='c10d', cases=dcases))
    dist['described_targets'] = len(dcases)
    for (kind, cls, raw, kw), o in zip(dmeta, dres['outcomes']):
        if kind == 'pack':
            ok = o.get('ok') == raw.hex()
        else:
            body = None
            if 'ok' in o:
                f = dict(o['ok']['f'])
                if kind == 'unpack-nested':
                    f = dict(f['r']['f'])
                body = f.get('body')
            ok = 'ok' in o and body == {'x': (b'BODY' if cls != 'DShift' else b'xy').hex()} and o.get('end') == len(raw)       # (what pack() gives afterwards is C17's subject: the described field reads as computed again)
        if not ok:
            failures.append(dict(kind='oracle', sig='described-target', what=f"{cls}({kw}): a field placed at / shifted by a described field must be written and read at the position the number on the wire says ({raw.hex()}); {kind} gives {str(o)[:300]}",
                                 classes=dsrc, cls=cls, raw=raw.hex(), offset=0, observed=o))
    csize = 800
    files = [(f"cases_{i}", HEADER_COQ + "Definition cases : list case := [\n" + ";\n".join(p) + "\n].\nEval vm_compute in (bad 0 cases).\n")
             for i, p in enumerate(shard(lines, csize))]
    outs = coq_eval_files(files)
    disagreements = []
    for i in range(len(files)):
        for j in parse_coq_list(outs[f"cases_{i}"]):
            disagreements.append(dict(kind='correspondence', case=lines[i * csize + j],
                                      what='model Kernel/Align.v and bisturi Move/Sequence differ on this case (the case shows the implementation result)'))
    return dict(evaluations=len(lines) + len(scases), distinct_nontrivial=len(set(lines)), exhaustive=True,
                rule=("exhaustive: alignment flag x 3 references x move values x cursors x innermost-packet positions x both directions, "
                      "the move argument given as constant / field / callable in rotation (direct calls of Move.unpack and Move.pack); "
                      "classes with repeated(aligned=1..6) parsed at every start offset and element count 0..3 and re-serialized; "
                      "distinct = distinct model cases"),
                samples=[lines[0], lines[len(lines) // 2], lines[-1], scases[5]],
                distribution=dist, failures=failures, disagreements=disagreements)


def replay(f):
    if 'case' in f and len(f['case']) >= 7:
        o = run_impl(os.path.join(VERIF, 'harness', 'impl_move.py'), dict(cases=[f['case']]))[0]
        al, ref, mv, cur, ipp = f['case'][:5]
        want = ref_move(al, ref, mv, cur, ipp)
        got = o[1] if o[0] == 'ok' else None
        return got != want, dict(observed=o, required=want)
    return True, dict(note='re-run the check to re-evaluate', failure=f)
