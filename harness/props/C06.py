"""C06 Byte-string fields take exactly the declared bytes or stop at the first delimiter (bisturi/field.py Data)."""
import os, itertools, re
from common import *
import decl, pktcases, pktprops

PID = 'C06'
TARGETS = ['Properties/C06.vo', 'Bridge/RefBridge.vo', 'Bridge/DataBridge.vo', 'Bridge/PlumbingBridge.vo']
KERNELS = ['G8_data', 'G19_field_ctor', 'G16b_optional']     # G16b: Sequence/Optional._compile hand the class configuration (search window) to the wrapped field
PROP_FILE = 'Properties/C06.v'


def naive_find(hay, needle):
    for i in range(len(hay) - len(needle) + 1):
        if hay[i:i + len(needle)] == needle:
            return i
    return None


def naive_regex(alts, hay):
    """leftmost start, first alternative, greedy byte run"""
    for i in range(len(hay) + 1):
        for a in alts:
            if a[0] == 'lit':
                if hay[i:i + len(a[1])] == a[1]:
                    return i, i + len(a[1])
            else:
                n = 0
                while i + n < len(hay) and hay[i + n] == a[1]:
                    n += 1
                if n:
                    return i, i + n
    return None


def ref(cfg, raw, off):
    """the property: (value, cursor after the field) or None when it must be an error"""
    kind = cfg[0]
    if kind == 'sized':
        n = cfg[1](raw, off) if callable(cfg[1]) else cfg[1]
        if n is None or n < 0 or off + n > len(raw) and n > 0:
            return None
        return raw[off:off + n], off + n
    if kind == 'eos':
        return raw[off:], len(raw)
    sbl = cfg[3]
    window = raw[off:] if not sbl else raw[off:off + sbl]
    if kind == 'marker':
        c = naive_find(window, cfg[1])
        if c is None:
            return None
        return (raw[off:off + c + len(cfg[1])] if cfg[2] else raw[off:off + c]), off + c + len(cfg[1])
    if kind == 'regex':
        m = naive_regex(cfg[1], window)
        if m is None:
            return None
        return (raw[off:off + m[1]] if cfg[2] else raw[off:off + m[0]]), off + m[1]
    if kind == 'eos':
        return raw[off:], len(raw)


def table_for(cfg):
    """a one-class table: [n = Int(1, signed) for the sized-by-field modes] then the Data field, then a 1-byte tail
    is NOT added: the cursor after the field is observed through unpack_impl's return value"""
    kind = cfg[0]
    fields = []
    conf = dict(end=None, align=None, sbl=None, gp=True, gu=True, vec=True, ann=True)
    if kind == 'sized':
        how = cfg[2]
        if how == 'const':
            n = cfg[1]
            fields.append({'move': None, 'body': ('elem', ('leaf', ('dsized', ('lit', n), 'const', b'')))})
            if n < 0:
                conf['gp'] = conf['gu'] = False      # struct.calcsize rejects a negative count at class definition
        else:
            fields.append({'move': None, 'body': ('elem', ('leaf', ('int', 1, True, None, 0)))})
            e = ('field', 0) if how in ('field', 'lambda') else ('bin', 'Sub', ('bin', 'Mul', ('field', 0), ('lit', 2)), ('field', 0))
            fields.append({'move': None, 'body': ('elem', ('leaf', ('dsized', e, how, b'')))})
    elif kind == 'marker':
        conf['sbl'] = cfg[3]
        leaf = ('leaf', ('dmarker', cfg[1], cfg[2], b''))
        wrap = cfg[4] if len(cfg) > 4 else None
        if wrap == 'seq':        # the same field as the single element of a repeated field: the search window must reach it
            fields.append({'move': None, 'body': ('seq', leaf, (('lit', 1), 'const'), None, None, None, None)})
        elif wrap == 'opt':      # ... and behind an optional that is present
            fields.append({'move': None, 'body': ('opt', leaf, (('lit', 1), 'lambda'), None)})
        else:
            fields.append({'move': None, 'body': ('elem', leaf)})
    elif kind == 'regex':
        conf['sbl'] = cfg[3]
        fields.append({'move': None, 'body': ('elem', ('leaf', ('dregex', cfg[1], cfg[2], b'')))})
    else:
        conf['sbl'] = cfg[1] if len(cfg) > 1 else None
        fields.append({'move': None, 'body': ('elem', ('leaf', ('deos', b'')))})
    conf['fields'] = fields
    return {0: conf}


def run(tier, seed, rng):
    maxlen = 6 if tier == 'quick' else 8
    alphabet = b'ab'
    inputs = [bytes(t) for L in range(maxlen + 1) for t in itertools.product(alphabet, repeat=L)]
    cfgs = []
    for L in (1, 2, 3):
        for m in itertools.product(alphabet, repeat=L):
            for incl in (False, True):
                for sbl in (None, 0, 1, 2, 3, 4):
                    cfgs.append(('marker', bytes(m), incl, sbl))
    for m in (b'a', b'ab', b'bab'):
        for incl in (False, True):
            for sbl in (None, 2, 3):
                for wrap in ('seq', 'opt'):
                    cfgs.append(('marker', m, incl, sbl, wrap))
    # bytes markers made of regular-expression metacharacters: a bytes marker is searched LITERALLY
    METAS = [b'.', b'|', b'$', b'a?', b'.*', b'a|b', b'^a', b'\\', b'(', b'[a]', b'a+', b'\\d']
    for m in METAS:
        for incl in (False, True):
            cfgs.append(('marker', m, incl, None))
    rx = [[('plus', 97)], [('lit', b'ab'), ('lit', b'a')], [('lit', b'b'), ('lit', b'ab')], [('lit', b'aa'), ('plus', 98)],
          [('plus', 98), ('lit', b'ba')], [('lit', b'aba')]]
    for alts in rx:
        for sbl in (None, 2, 3):
            cfgs.append(('regex', alts, True, sbl))
    for sbl in (None, 0, 2, 3):
        cfgs.append(('eos', sbl))      # read-to-end does not honour the search window
    for n in range(-2, 6):
        cfgs.append(('sized', n, 'const'))
    for how in ('field', 'expr', 'lambda'):
        cfgs.append(('sized', None, how))
    groups, meta = [], []
    for gid, cfg in enumerate(cfgs):
        g = pktcases.Group(table_for(cfg), gid)
        if cfg[0] == 'sized' and cfg[2] != 'const':
            # first byte is the signed size: exhaust sizes -2..5 against every tail up to length 4
            for n in range(-2, 6):
                for tail in inputs:
                    if len(tail) <= 4:
                        for off in (0, 1):
                            raw = b'x' * off + bytes([n % 256]) + tail
                            g.add_unpack(0, raw, off)
                            meta.append((cfg, raw, off, n))
        else:
            raws = inputs
            if cfg[0] == 'marker' and cfg[1] in METAS:
                alpha2 = sorted(set(cfg[1]) | {97, 100})
                raws = [bytes(t) for L in range(4) for t in itertools.product(alpha2, repeat=L)] + [b'a' + cfg[1] + b'a', cfg[1] + cfg[1], b'ad' + cfg[1]]
            for raw in raws:
                for off in (0, 1):
                    if off and len(raw) > maxlen - 1:
                        continue
                    r = b'b' * off + raw
                    g.add_unpack(0, r, off)
                    meta.append((cfg, r, off, None))
        groups.append(g)
    records, disagreements = pktcases.run_groups(groups, 'c06')
    rt = [r for r in records if r['kind'] == 'roundtrip']
    failures = []
    dist = dict(ok=0, err=0, marker=0, regex=0, sized=0, eos=0, straddles_window=0, empty_value=0)
    if len(rt) != len(meta):
        # some class could not even be declared (reported through the correspondence: the model declares it): nothing to line up
        return dict(evaluations=len(records), distinct_nontrivial=0, exhaustive=False, rule='class definitions failed', samples=[],
                    distribution=dist, failures=failures, disagreements=disagreements)
    for r, (cfg, raw, off, n) in zip(rt, meta):
        o = r['outcome']
        dist[cfg[0]] += 1
        if cfg[0] == 'sized' and cfg[2] != 'const':
            want = ref(('sized', n), raw, off + 1)
            fidx = 1
        elif cfg[0] == 'sized':
            want = ref(('sized', cfg[1]), raw, off)
            fidx = 0
        else:
            want = ref(cfg, raw, off)
            fidx = 0
        if 'ok' in o:
            fv = dict(o['ok']['f'])[f'f{fidx}']
            if isinstance(fv, list) and len(fv) == 1:     # wrapped in a one-element repeated field
                fv = fv[0]
            got = (bytes.fromhex(fv['x']), o['end']) if isinstance(fv, dict) and 'x' in fv else ('odd', str(fv))
        elif o.get('err') == 'unpacking':
            got = None
        else:
            got = ('exc', str(o))
        dist['ok' if got else 'err'] += 1
        if got and got[0] == b'':
            dist['empty_value'] += 1
        if cfg[0] == 'marker' and cfg[3] and want is None and naive_find(raw[off:], cfg[1]) is not None:
            dist['straddles_window'] += 1
        if got != want:
            failures.append(dict(kind='oracle', sig='data-unpack', what='Data unpack: not exactly the declared bytes / not the first delimiter in the window',
                                 classes=decl.py_class(0, table_for(cfg)[0]), raw=raw.hex(), offset=off,
                                 observed=str(got), required=str(want)))
        elif got and 'packed' in o and cfg[0] == 'marker':
            # pack re-emits the value followed by the excluded literal delimiter
            want_p = (raw[off:got[1]]).hex()
            if o['packed'].get('ok') != want_p:
                failures.append(dict(kind='oracle', sig='data-pack', what='Data pack: value + excluded delimiter not re-emitted',
                                     classes=decl.py_class(0, table_for(cfg)[0]), raw=raw.hex(), offset=off,
                                     observed=str(o['packed']), required=want_p))
    # ---- CONSTRUCTED values (never parsed): pack emits exactly value + excluded literal delimiter, whatever the value's bytes are
    # (ending with the marker, ending with a prefix of it, containing it); included delimiters: exactly the value
    cmarks = [b'\x00', b'ab', b'\r\n', b':', b'aa', b'abc']
    csrc, ccases, cmeta = "", [], []
    for mi, mk in enumerate(cmarks):
        for incl in (False, True):
            for sbl in (None, 8):
                for gen in (True, False):
                    nm = f"CV{mi}{'i' if incl else 'x'}{'w' if sbl else ''}{'' if gen else 'L'}"
                    conf = {}
                    if sbl: conf['search_buffer_length'] = sbl
                    if not gen: conf.update(generate_for_pack=False, generate_for_unpack=False)
                    csrc += f"class {nm}(Packet):\n" + (f"    __bisturi__ = {conf!r}\n" if conf else "") + f"    name = Data(until_marker={mk!r}, include_delimiter={incl})\n    tail = Int(1)\n"
                    for val in (b'', b'q', mk, b'q' + mk, mk + mk, b'q' + mk[:1], mk[-1:], b'q' + mk + b'r', mk + b'q', b'xy' + mk[:-1] if len(mk) > 1 else b'xy'):
                        ccases.append(dict(cls=nm, op='pack', value={"py": f"{nm}(name={val!r}, tail=7)"})); cmeta.append((nm, mk, incl, val))
    cres = run_impl(os.path.join(VERIF, 'harness', 'impl_pkt.py'), dict(header=decl.HEADER_PY, blocks=[dict(name='cvals', src=csrc)], modname='c06c', cases=ccases))
    dist['constructed_value_pack_cases'] = len(ccases)
    for (nm, mk, incl, val), o in zip(cmeta, cres['outcomes']):
        want_p = (val + (b'' if incl else mk) + b'\x07').hex()
        if o.get('ok') != want_p:
            failures.append(dict(kind='oracle', sig='data-pack-constructed', what=f"Data pack of a constructed value {val!r} (marker {mk!r}, include_delimiter={incl}): the value followed by the excluded delimiter, byte for byte",
                                 classes=[c for c in csrc.split('class ') if c.startswith(nm + '(')][0].join(['class ', '']), cls=nm, value=f"{nm}(name={val!r}, tail=7)",
                                 observed=str(o), required=want_p))
    # ---- LONG values: the first occurrence of the marker at / straddling every distance around 64, 128, 256 ... 65536 from the
    # cursor (block-wise or two-stage searches), a second occurrence later on; any cursor position; with and without a window
    lmarks = [b'\x00', b'\r\n', b'abc', b'aab', b'\n\n\n\n']
    lsrc, lcases, lmeta = "", [], []
    lens = sorted(set(list(range(56, 70)) + [b + d for b in (128, 256, 512, 1024, 4096, 8192, 65536) for d in (-3, -2, -1, 0, 1, 2)]))
    if tier == 'quick':
        lens = [L for L in lens if L < 5000]
    for mi, mk in enumerate(lmarks):
        for incl in (False, True):
            for sbl in (None, 0, 70000):
                nm = f"LV{mi}{'i' if incl else 'x'}{'' if sbl is None else 'w%d' % sbl}"
                conf = f"    __bisturi__ = {{'search_buffer_length': {sbl}}}\n" if sbl is not None else ""
                lsrc += f"class {nm}(Packet):\n{conf}    d = Data(until_marker={mk!r}, include_delimiter={incl})\n    t = Int(1)\n"
                for L in lens:
                    for fillv in (b'z', mk[:1]):
                        if fillv == mk[:1] and len(mk) == 1:
                            continue
                        for off in (0, 3):
                            body = (fillv * L) if fillv == b'z' else (b'z' * (L - 1) + fillv)     # ... or a marker prefix right before the marker
                            if naive_find(body + mk, mk) != L:
                                continue
                            raw = b'...'[:off] + body + mk + b'second' + mk + b'\x07'
                            lcases.append(dict(cls=nm, op='roundtrip', raw=raw.hex(), offset=off)); lmeta.append((nm, mk, incl, L, off, raw))
    lres = run_impl(os.path.join(VERIF, 'harness', 'impl_pkt.py'), dict(header=decl.HEADER_PY, blocks=[dict(name='longv', src=lsrc)], modname='c06l', cases=lcases))
    dist['long_value_cases'] = len(lcases)
    for (nm, mk, incl, L, off, raw), o in zip(lmeta, lres['outcomes']):
        end = off + L + len(mk)
        want = dict(d=raw[off:end if incl else off + L].hex(), t=raw[end], end=end + 1, packed=raw[off:end + 1].hex())
        f = dict(o['ok']['f']) if 'ok' in o else {}
        got = dict(d=(f.get('d') or {}).get('x'), t=f.get('t'), end=o.get('end'), packed=(o.get('packed') or {}).get('ok')) if 'ok' in o else None
        if got != want:
            failures.append(dict(kind='oracle', sig='data-unpack-long', what=f"a value of {L} bytes before the first {mk!r} (cursor {off}): the field must stop at the FIRST occurrence (value of {L} bytes, end {end + 1})",
                                 classes=[c for c in lsrc.split('class ') if c.startswith(nm + '(')][0].join(['class ', '']), cls=nm, raw=raw.hex(), offset=off,
                                 observed=(str(got)[:300] if got else str(o)[:300]), required=str({k: (v if not isinstance(v, str) or len(v) < 60 else v[:20] + '...' + v[-30:]) for k, v in want.items()})))
    # ---- regex delimiters whose match depends on context (look-behind, word boundary, anchors), for a field that does NOT start
    # at offset 0: "the first match at or after the cursor" is decided on the bytes from the cursor on, never on what precedes it
    import re as _re
    zoo = [rb'(?<!\\);', rb'\bX', rb'^a', rb'(?<=a);', rb'X\b', rb'(?m)^;', rb'\B;', rb'(?<![a-z])X']
    alpha = [0x61, 0x3b, 0x5c, 0x58, 0x20]
    zsrc, zcases, zmeta = "", [], []
    for zi, pat in enumerate(zoo):
        for incl in (True, False):
            nm = f"Z{zi}{'i' if incl else 'x'}"
            zsrc += f"class {nm}(Packet):\n    p = Data(1)\n    d = Data(until_marker=re.compile({pat!r}), include_delimiter={incl})\n    t = Int(1)\n"
            bodies = [bytes(t) for L in range(0, 4) for t in itertools.product(alpha, repeat=L)]
            if tier == 'quick':
                bodies = bodies[:6] + rng.sample(bodies[6:], 30)
            for body in bodies:
                for pre in (0x5c, 0x61, 0x20):
                    raw = bytes([pre]) + body + b'\x07'
                    zcases.append(dict(cls=nm, op='roundtrip', raw=raw.hex(), offset=0)); zmeta.append((nm, pat, incl, raw))
    zres = run_impl(os.path.join(VERIF, 'harness', 'impl_pkt.py'), dict(header=decl.HEADER_PY, blocks=[dict(name='zoo', src=zsrc)], modname='c06z', cases=zcases))
    dist['context_sensitive_regex_cases'] = len(zcases)
    for (nm, pat, incl, raw), o in zip(zmeta, zres['outcomes']):
        m = _re.compile(pat).search(raw[1:])
        want = None
        if m is not None and 1 + m.end() < len(raw):
            want = (raw[1:1 + (m.end() if incl else m.start())], 1 + m.end() + 1)
        got = (bytes.fromhex(dict(o['ok']['f'])['d']['x']), o['end']) if 'ok' in o else None
        if got != want:
            failures.append(dict(kind='oracle', sig='data-unpack-regex-context', what='a regex-delimited string that does not start at offset 0: not the first match at or after the cursor, decided on the bytes from the cursor on',
                                 classes=[c for c in zsrc.split('class ') if c.startswith(nm + '(')][0].join(['class ', '']), cls=nm, raw=raw.hex(), offset=0,
                                 observed=str(got), required=str(want)))
    # ---- regex delimiters that can match the EMPTY string (an alternative with $, a starred atom): a present delimiter even when
    # the field begins exactly at the end of the input (value b'', cursor unchanged) -- never "delimiter missing"
    ezoo = [rb'X+|$', rb'\r?\n|$', rb'X*', rb'(?:;|$)', rb'$|;', rb'\Z']
    esrc, ecases, emeta = "", [], []
    for zi, pat in enumerate(ezoo):
        for incl in (True, False):
            for sbl in (None, 2):
                nm = f"E{zi}{'i' if incl else 'x'}{'w' if sbl else ''}"
                conf = f"    __bisturi__ = {{'search_buffer_length': {sbl}}}\n" if sbl else ""
                esrc += f"class {nm}(Packet):\n{conf}    p = Data(1)\n    d = Data(until_marker=re.compile({pat!r}), include_delimiter={incl})\n"
                for body in (b'', b'a', b'X', b'aX', b'XX', b'a\n', b'a\r\n', b';', b'ab;', b'\n'):
                    for off in (0, 2):
                        raw = b'..'[:off] + b'p' + body
                        ecases.append(dict(cls=nm, op='roundtrip', raw=raw.hex(), offset=off)); emeta.append((nm, pat, incl, sbl, raw, off))
    eres = run_impl(os.path.join(VERIF, 'harness', 'impl_pkt.py'), dict(header=decl.HEADER_PY, blocks=[dict(name='ezoo', src=esrc)], modname='c06e', cases=ecases))
    dist['empty_matching_regex_cases'] = len(ecases)
    for (nm, pat, incl, sbl, raw, off), o in zip(emeta, eres['outcomes']):
        start = off + 1
        window = raw[start:] if sbl is None else raw[start:start + sbl]
        if pat == rb'$' or False:
            continue
        m = _re.compile(pat).search(window)
        want = None
        if m is not None:
            want = (raw[start:start + (m.end() if incl else m.start())], start + m.end())
        got = (bytes.fromhex(dict(o['ok']['f'])['d']['x']), o['end']) if 'ok' in o else None
        if got == want and want is not None and o.get('packed') != {'ok': raw[off:want[1]].hex()}:
            # serializing right after this parse gives back exactly the bytes it consumed: the value and THIS parse's delimiter
            # (possibly empty), not the delimiter some earlier parse of the class left behind
            failures.append(dict(kind='oracle', sig='data-pack-regex-empty', what=f"pack() right after the parse gives {o.get('packed')}, the parse consumed {raw[off:want[1]].hex()}",
                                 classes=[c for c in esrc.split('class ') if c.startswith(nm + '(')][0].join(['class ', '']), cls=nm, raw=raw.hex(), offset=off, observed=o))
        if got != want:
            failures.append(dict(kind='oracle', sig='data-unpack-regex-empty', what='a regex delimiter that can match the empty string: the value must end at the first match in the search window, the empty match at the end of the input included',
                                 classes=[c for c in esrc.split('class ') if c.startswith(nm + '(')][0].join(['class ', '']), cls=nm, raw=raw.hex(), offset=off,
                                 observed=str(got), required=str(want)))
    return dict(evaluations=len(rt), distinct_nontrivial=len({(str(m[0]), m[1], m[2]) for m in meta if len(m[1]) > 1}), exhaustive=True,
                classes=len(cfgs),
                rule=("exhaustive: every marker of length 1..3 over {a,b} x include_delimiter x search_buffer_length in {unset,0,1,2,3,4}, "
                      "six regex delimiters of the modelled class x window, read-to-end, constant sizes -2..5, sizes -2..5 given by a field / "
                      "an expression / a callable; against every input over {a,b} up to the tier's length at start offsets 0 and 1; "
                      "non-trivial = input longer than one byte"),
                samples=[dict(cls=decl.py_class(0, table_for(meta[i][0])[0]), raw=meta[i][1].hex(), offset=meta[i][2], outcome=rt[i]['outcome'])
                         for i in (3, len(rt) // 3, len(rt) // 2, len(rt) - 5)],
                distribution=dist, failures=failures, disagreements=disagreements)


def replay(f):
    return pktprops.generic_replay(f)
