"""C20 Packet equality is structural and total."""
import os
from common import *
import decl, gen, pktcases, pktprops

PID = 'C20'
TARGETS = ['Properties/C20.vo', 'Bridge/EqBridge.vo', 'Bridge/PlumbingBridge.vo', 'Bridge/InitBridge.vo', 'Bridge/RefBridge.vo']
KERNELS = ['G10_eq', 'G17_builder', 'G15_init', 'G15b_init_structural', 'G16_ref']     # G16: what a parse stores for a referenced / selected packet
PROP_FILE = 'Properties/C20.v'
WHOLE_PACKET = True      # Tie A over all of the pack / unpack machinery (check.py: WHOLE_PACKET_KERNELS)


def change_one(table, v, rng):
    """(path, new value): one field somewhere inside v replaced by a different value of the same kind"""
    c, env = v[1], v[2]
    idx = [i for i in env]
    rng.shuffle(idx)
    for i in idx:
        x = env[i]
        name = f"f{i}"
        if isinstance(x, bool):
            continue
        body = table[c]['fields'][i]['body']
        optional = body[0] == 'opt'
        # an absent optional against a present but "empty" one (None vs 0, None vs b'') and back: unequal like any other difference
        if optional and x in (0, b'') and rng.random() < 0.7:
            return [name], None
        if isinstance(x, int):
            return [name], x + 1
        if isinstance(x, bytes):
            return [name], x + b'!'
        if x is None:
            el = body[1] if optional else None
            if el is not None and el[0] == 'leaf':
                return [name], (0 if el[1][0] == 'int' else b'') if rng.random() < 0.7 else (1 if el[1][0] == 'int' else b'x')
            return [name], 1
        if isinstance(x, tuple) and x[0] == 'pkt':
            sub = change_one(table, x, rng)
            if sub:
                return [name] + sub[0], sub[1]
        if isinstance(x, list):
            if x and isinstance(x[-1], tuple):
                sub = change_one(table, x[-1], rng)
                if sub:
                    return [name, len(x) - 1] + sub[0], sub[1]
            elif x and isinstance(x[-1], int):
                return [name, len(x) - 1], x[-1] + 1
            else:
                return [name], x + [0] if not x else None
    return None


def set_path(v, path, new):
    c, env = v[1], dict(v[2])
    i = int(path[0][1:])
    if len(path) == 1:
        env[i] = new
    elif isinstance(path[1], int):
        lst = list(env[i])
        if len(path) == 2:
            lst[path[1]] = new
        else:
            lst[path[1]] = set_path(lst[path[1]], path[2:], new)
        env[i] = lst
    else:
        env[i] = set_path(env[i], path[1:], new)
    return ('pkt', c, env)


def run(tier, seed, rng):
    ng = 60 if tier == 'quick' else 2500
    feats = lambda g: dict(move=True, em=True, clsopts=True)
    groups, meta = [], []
    for gid in range(ng):
        g = gen.Gen(rng, feats(gid))
        table = g.make_table(rng.choice([2, 3]))
        # make positioning frequent: it is what used to break == and repr (finding D4)
        for pc in table.values():
            for fd in pc['fields']:
                if fd.get('move') is None and rng.random() < 0.35 and fd['body'][0] != 'bits':
                    fd['move'] = g.move([])
            if rng.random() < 0.3:
                pc['fields'].append({'move': g.move([]) if rng.random() < 0.5 else None, 'body': ('em',)})
        # user-supplied defaults that hold mutable objects (lists of packets / integers): default-built packets must not share them
        for c, pc in table.items():
            for fd in pc['fields']:
                b = fd['body']
                if b[0] == 'seq' and b[5] is None and rng.random() < 0.6:
                    if b[1][0] == 'refpkt':
                        fd['body'] = b[:5] + ([('pkt', b[1][1], {}) for _ in range(rng.randint(1, 2))],) + b[6:]
                    elif b[1][0] == 'leaf' and b[1][1][0] == 'int':
                        fd['body'] = b[:5] + ([rng.randrange(3) for _ in range(rng.randint(1, 2))],) + b[6:]
        G = pktcases.Group(table, gid)
        G.local = (gid % 4 == 3)      # a quarter of the tables: classes declared inside a function (prototypes cloned from the live object)
        for c in sorted(table):
            G.add_extra(c, dict(op='default_pair', value=pktcases.jvalue(('pkt', c, {}))))
            G.add_extra(c, dict(op='default_pair_each', value=pktcases.jvalue(('pkt', c, {}))))
        vg = gen.ValGen(rng, table)
        cs = sorted(table)
        for c in cs:
            vals = [v for v in (vg.try_value(c) for _ in range(5)) if v is not None]
            if len(vals) >= 2:
                # run-time selected packets alternate between parses: every packet kept alive must stay equal to a fresh parse of its bytes
                G.add_extra(c, dict(op='eq_interleaved', values=[pktcases.jvalue(v) for v in vals + vals[:2]]))
            for _ in range(3):
                v = vg.try_value(c)
                if v is None:
                    continue
                other = next((o for o in cs if o != c), None)
                ch = change_one(table, v, rng)
                # implementation-only: parse twice, compare, change one field, other class, other type, repr
                G.add_extra(c, dict(op='eq', raw=None, _value=v, other=decl.cname(other) if other is not None else None,
                                    change=(dict(path=ch[0], value=pktcases.jvalue(ch[1])) if ch and ch[1] is not None else None)))
                meta.append((gid, c, v, ch))
                # model and implementation: == and != of constructed packets
                G.add_eq(c, v, v)
                if ch and ch[1] is not None:
                    try:
                        G.add_eq(c, v, set_path(v, ch[0], ch[1]))
                    except Exception:
                        pass
                if other is not None:
                    G.add_eq(c, v, ('pkt', other, {}))
                G.add_eq(c, ('pkt', c, {}), ('pkt', c, {}))
        groups.append(G)
    # ---- a reference whose selector hands out one shared packet instance per key, two packet options: parses in which the
    # selected option alternates (A B A B ...), all packets kept alive
    for variant, how in enumerate(('expr', 'lambda')):
        opts = [('lit', ('pkt', 0, {})), ('lit', ('pkt', 1, {}))]
        sel = ('choosed', ('field', 0), [1, 2], opts)
        stable = {0: dict(end=None, align=None, sbl=None, gp=True, gu=True, vec=True, ann=True,
                          fields=[{'move': None, 'body': ('elem', ('leaf', ('int', 1, False, None, 0)))}]),
                  1: dict(end=None, align=None, sbl=None, gp=True, gu=True, vec=True, ann=True,
                          fields=[{'move': None, 'body': ('elem', ('leaf', ('int', 2, False, None, 0)))}]),
                  2: dict(end=None, align=None, sbl=None, gp=True, gu=(variant == 0), vec=True, ann=True,
                          fields=[{'move': None, 'body': ('elem', ('leaf', ('int', 1, False, None, 0)))},
                                  {'move': None, 'body': ('elem', ('refsel', sel, how, ('pkt', 0, {})))}]),
                  3: dict(end=None, align=None, sbl=None, gp=True, gu=True, vec=True, ann=True,
                          fields=[{'move': None, 'body': ('seq', ('refpkt', 2, {}), (('lit', 3), 'const'), None, None, None, None)}])}
        G = pktcases.Group(stable, 60000 + variant)
        mk = lambda t, x: ('pkt', 2, {0: t, 1: ('pkt', t - 1, {0: x})})
        seqs = [[mk(1, 5), mk(2, 700), mk(1, 9), mk(2, 3), mk(1, 5)], [mk(2, 1), mk(1, 1), mk(2, 2), mk(1, 2)]]
        for vs in seqs:
            G.add_extra(2, dict(op='eq_interleaved', values=[pktcases.jvalue(v) for v in vs]))
        for cc in (2, 3):          # the declared default of the selected reference is a packet INSTANCE: every constructed packet gets its own copy
            G.add_extra(cc, dict(op='default_pair_each', value=pktcases.jvalue(('pkt', cc, {}))))
        G.add_extra(3, dict(op='eq_interleaved', values=[pktcases.jvalue(('pkt', 3, {0: [mk(1, 5), mk(2, 6), mk(1, 7)]})),
                                                       pktcases.jvalue(('pkt', 3, {0: [mk(2, 8), mk(1, 9), mk(2, 8)]}))]))
        groups.append(G)
    # ---- nesting two levels deep with mutable values at the bottom, classes reachable by name and declared inside a function: two
    # default-built packets, one changed in place at the bottom
    for variant in range(2):
        dtable = {0: dict(end=None, align=None, sbl=None, gp=True, gu=True, vec=True, ann=True,
                          fields=[{'move': None, 'body': ('elem', ('leaf', ('int', 1, False, None, 0)))}, {'move': None, 'body': ('elem', ('leaf', ('int', 2, False, None, 0)))}]),
                  1: dict(end=None, align=None, sbl=None, gp=True, gu=True, vec=True, ann=True,
                          fields=[{'move': None, 'body': ('elem', ('leaf', ('int', 1, False, None, 0)))}, {'move': None, 'body': ('elem', ('refpkt', 0, {}))},
                                  {'move': None, 'body': ('seq', ('leaf', ('int', 1, False, None, 0)), (('lit', 2), 'const'), None, None, [1, 2], None)},
                                  {'move': None, 'body': ('seq', ('refpkt', 0, {}), (('lit', 1), 'const'), None, None, [('pkt', 0, {})], None)}]),
                  2: dict(end=None, align=None, sbl=None, gp=True, gu=True, vec=True, ann=True,
                          fields=[{'move': None, 'body': ('elem', ('leaf', ('int', 1, False, None, 0)))}, {'move': None, 'body': ('elem', ('refpkt', 1, {}))}]),
                  3: dict(end=None, align=None, sbl=None, gp=True, gu=True, vec=True, ann=True,
                          fields=[{'move': None, 'body': ('elem', ('refpkt', 2, {}))}, {'move': None, 'body': ('elem', ('leaf', ('int', 1, False, None, 0)))}])}
        G = pktcases.Group(dtable, 61000 + variant)
        G.local = (variant == 1)
        for c in sorted(dtable):
            G.add_extra(c, dict(op='default_pair', value=pktcases.jvalue(('pkt', c, {}))))
            G.add_extra(c, dict(op='default_pair_each', value=pktcases.jvalue(('pkt', c, {}))))
        groups.append(G)
    # ---- optional fields: absent (None) against present but empty (0, b''), everything else equal -- packets that differ in exactly one
    # field; constructed, and one level down inside a reference
    cond1 = ('bin', 'Eq', ('bin', 'BAnd', ('field', 0), ('lit', 1)), ('lit', 1))
    cond2 = ('bin', 'Eq', ('bin', 'BAnd', ('field', 0), ('lit', 2)), ('lit', 2))
    otable = {0: dict(end=None, align=None, sbl=None, gp=True, gu=True, vec=True, ann=True,
                      fields=[{'move': None, 'body': ('elem', ('leaf', ('int', 1, False, None, 0)))},
                              {'move': None, 'body': ('opt', ('leaf', ('int', 1, False, None, 0)), (cond1, 'expr'), None)},
                              {'move': None, 'body': ('opt', ('leaf', ('dmarker', b';', False, b'')), (cond2, 'expr'), None)},
                              {'move': None, 'body': ('opt', ('leaf', ('int', 2, True, None, 0)), (cond1, 'lambda'), None)}]),
              1: dict(end=None, align=None, sbl=None, gp=True, gu=True, vec=True, ann=True,
                      fields=[{'move': None, 'body': ('elem', ('leaf', ('int', 1, False, None, 0)))}, {'move': None, 'body': ('elem', ('refpkt', 0, {}))}])}
    OG = pktcases.Group(otable, 62000)
    must_differ = []
    base = {0: 0, 1: None, 2: None, 3: None}
    for i, empty in ((1, 0), (2, b''), (3, 0)):
        for other in (empty, 7 if isinstance(empty, int) else b'x'):
            a = ('pkt', 0, dict(base)); bb = dict(base); bb[i] = other; b = ('pkt', 0, bb)
            for x, y in ((a, b), (b, a), (('pkt', 1, {0: 5, 1: a}), ('pkt', 1, {0: 5, 1: b}))):
                OG.add_eq(x[1], x, y)
                must_differ.append((62000, len([o for o in OG.ops if o.get('op') == 'eqvals']) - 1, decl.py_value(x), decl.py_value(y)))
    groups.append(OG)
    # ---- field kinds the generator does not produce: EMBEDDED references (Ref(..., embed=True): the fields of the referenced packet
    # live in the holder), Em(), bit fields, described fields -- ==, != and repr on PARSED packets, one field changed
    xsrc = ("class XPt(Packet):\n    x = Int(1)\n    y = Int(1)\n"
            "class XP3(Packet):\n    point_2d = Ref(XPt(x=1, y=2), embed=True)\n    z = Int(1)\n"
            "class XP3L(Packet):\n    __bisturi__ = {'generate_for_pack': False, 'generate_for_unpack': False}\n    point_2d = Ref(XPt, embed=True)\n    z = Int(1)\n"
            "class XHd(Packet):\n    name = Data(until_marker=b'\\x00')\n    kind = Int(1)\n"
            "class XMsg(Packet):\n    tag = Data(until_marker=b':')\n    header = Ref(XHd, embed=True)\n    body = Int(2)\n    items = Ref(XP3).repeated(count=lambda pkt, **k: pkt.kind)\n"
            "class XBits(Packet):\n    a = Bits(3)\n    b = Bits(5)\n    c = Int(1)\n    e = Em()\n"
            "class XOuter(Packet):\n    h = Int(1)\n    inner = Ref(XP3)\n    t = Int(1)\n")
    xcases, xmeta = [], []
    for cls_, raw, changes in (('XP3', bytes([3, 4, 5]), ['x', 'y', 'z']), ('XP3L', bytes([3, 4, 5]), ['x', 'y', 'z']),
                               ('XMsg', b'ab:nm\x00\x02\x00\x09\x01\x02\x03\x04\x05\x06', ['tag', 'name', 'body']), ('XMsg', b':\x00\x00\x00\x09', ['kind', 'body']),
                               ('XBits', bytes([0xab, 7]), ['a', 'b', 'c']), ('XOuter', bytes([1, 3, 4, 5, 9]), ['h', 't'])):
        for ch in changes:
            newv = {"x": "7a7a"} if ch in ('tag', 'name') else 6
            other = {'XP3': 'XP3L', 'XP3L': 'XP3'}.get(cls_, 'XPt')
            xcases.append(dict(cls=cls_, op='eq', raw=raw.hex(), offset=0, other=other, change=dict(path=[ch], value=newv))); xmeta.append((cls_, raw, ch))
    # described fields (Auto / AutoLength): equality is about the values the packets HOLD (what was parsed), not about what the
    # descriptor would compute: wires that differ in the described byte only give unequal packets; == never runs into user code failing
    xsrc += ("from bisturi.descriptor import Auto, AutoLength\n"
             "class XFrame(Packet):\n    crc = Int(1).describe(Auto(lambda pkt: sum(pkt.body) & 0xff))\n    body = Data(3)\n    e = Em().aligned(4)\n"
             "class XNote(Packet):\n    length = Int(1).describe(AutoLength('msg'))\n    flag = Int(1)\n    msg = Data(length).when(flag)\n"
             "class XLen(Packet):\n    length = Int(1).describe(AutoLength('a'))\n    a = Data(2)\n    t = Int(1)\n")
    two = [('XFrame', b'\x06\x01\x02\x03', b'\x07\x01\x02\x03', False), ('XFrame', b'\x06\x01\x02\x03', b'\x06\x01\x02\x03', True), ('XFrame', b'\x00\x01\x02\x03', b'\x06\x03\x02\x01', False),
           ('XNote', b'\x00\x00', b'\x00\x00', True), ('XNote', b'\x00\x00', b'\x05\x00', False), ('XNote', b'\x02\x01ab', b'\x02\x01ab', True), ('XNote', b'\x02\x01ab', b'\x02\x01ac', False),
           ('XLen', b'\x02ab\x07', b'\x09ab\x07', False), ('XLen', b'\x09ab\x07', b'\x09ab\x07', True), ('XLen', b'\x02ab\x07', b'\x02ab\x08', False)]
    n_single = len(xcases)
    for cls_, r1, r2, same in two:
        xcases.append(dict(cls=cls_, op='eq_two', raw=r1.hex(), raw2=r2.hex(), offset=0))
    xres = run_impl(os.path.join(VERIF, 'harness', 'impl_pkt.py'), dict(header=decl.HEADER_PY, blocks=[dict(name='embed', src=xsrc)], modname='c20x', cases=xcases))
    embed_failures = []
    for (cls_, r1, r2, same), o in zip(two, xres['outcomes'][n_single:]):
        oo = o.get('ok') or {}
        want = dict(eq=same, ne=not same, eq_rev=same, eq_self=[True, True, False], repr_same=same)
        if {k: (list(v) if isinstance(v, (list, tuple)) else v) for k, v in oo.items()} != want:
            embed_failures.append(dict(kind='oracle', sig='eq-described', what=f"two parses of {r1.hex()} and {r2.hex()} (a class with a described field) must compare {'equal' if same else 'unequal'}: expected {want}",
                                       classes=xsrc, cls=cls_, raw=r1.hex(), raw2=r2.hex(), offset=0, observed=o))
    for (cls_, raw, ch), o in zip(xmeta, xres['outcomes']):
        oo = o.get('ok') or {}
        bad = []
        if oo.get('eq_same') is not True: bad.append(f"two parses of the same bytes: == gives {oo.get('eq_same')}")
        if oo.get('ne_same') is not False: bad.append(f"two parses of the same bytes: != gives {oo.get('ne_same')}")
        if oo.get('eq_self') is not True: bad.append(f"p == p gives {oo.get('eq_self')}")
        if oo.get('repr') is not True: bad.append(f"repr gives {oo.get('repr')}")
        if list(oo.get('eq_default') or []) != [True, False]: bad.append(f"two default packets: ==, != give {oo.get('eq_default')}")
        if list(oo.get('eq_other_type') or []) != [False, True, False]: bad.append(f"against 5, 5, None: {oo.get('eq_other_type')}")
        if list(oo.get('eq_other_class') or []) != [False, True]: bad.append(f"against a packet of another class: {oo.get('eq_other_class')}")
        if oo.get('changed') != 'SAME' and list(oo.get('changed') or []) != [False, True, False]: bad.append(f"after changing {ch}: ==, !=, reversed == give {oo.get('changed')}")
        if bad:
            embed_failures.append(dict(kind='oracle', sig='eq-embedded', what='; '.join(bad) + ' (a class with an embedded reference / Em / bit fields)', classes=xsrc, cls=cls_, raw=raw.hex(), offset=0, change=ch, observed=o))
    # the 'eq' operation needs bytes: take the encoding of the value (pack through the implementation first)
    for G in groups:
        for op in G.ops:
            if op.get('op') == 'eq':
                op['op'] = 'eq_from_value'
                op['value'] = pktcases.jvalue(op.pop('_value'))
    records, disagreements = pktcases.run_groups(groups, 'c20')
    failures_early = list(embed_failures)
    failures = failures_early
    dist = dict(pairs=0, positioned=0, changed=0, other_class=0, constructed_pairs=0)
    for r in records:
        if r['kind'] == 'extra:default_pair' and isinstance(r['outcome'], dict) and 'ok' in r['outcome']:
            o = r['outcome']['ok']
            dist_pairs = 1
            if o['changed'] and (o['eq'] or not o['ne'] or o['eq_rev']):
                failures_early.append(dict(kind='oracle', sig='eq-default-pair', what=f"two default-constructed packets, one changed in place (lists grown, nested packets changed), still compare {o}",
                                           classes=pktprops.class_source(groups, r['group']), cls=decl.cname(r['c'])))
    dist['interleaved'] = 0
    dist['single_places_changed'] = 0
    for r in records:
        if r['kind'] == 'extra:default_pair_each' and isinstance(r['outcome'], dict) and 'ok' in r['outcome']:
            o = r['outcome']['ok']
            dist['single_places_changed'] += o['places']
            for path, kind, what in o['bad']:
                failures.append(dict(kind='oracle', sig='eq-default-pair-one-place', what=f"two default-constructed packets, ONE value of one of them changed in place at {path} ({kind}): they still compare {what}",
                                     classes=pktprops.class_source(groups, r['group']), cls=decl.cname(r['c'])))
    for r in records:
        if r['kind'] == 'extra:eq_interleaved' and isinstance(r['outcome'], dict) and 'ok' in r['outcome']:
            o = r['outcome']['ok']
            dist['interleaved'] += o['parsed']
            for k, raw, what in o['bad']:
                failures.append(dict(kind='oracle', sig='eq-interleaved', what=f"packets of one class parsed one after the other from {o['inputs']} and kept: packet {k} no longer equals a fresh parse of its own bytes {raw}: {what}",
                                     classes=pktprops.class_source(groups, r['group']), cls=decl.cname(r['c']), raw=raw, inputs=o['inputs']))
    ex = [r for r in records if r['kind'] == 'extra:eq_from_value' or r['kind'] == 'extra:eq']
    for r, (gid, c, v, ch) in zip(ex, meta):
        o = r['outcome']
        if 'ok' not in o:
            if o.get('err') or o.get('exc') == 'KeyError':
                continue        # the value could not be encoded / parsed back: nothing to compare
            failures.append(dict(kind='oracle', sig='eq-raise', what=f"comparison raised: {o}", classes=pktprops.class_source(groups, gid)))
            continue
        res = o['ok']
        dist['pairs'] += 1
        table = pktprops.table_of(groups, gid)
        dist['positioned'] += pktprops.has_feature(table, lambda k, x: k == 'move' or (k == 'body' and x[0] == 'em') or (k == 'class' and x.get('align')))
        want = dict(eq_same=True, ne_same=False, repr=True, eq_self=True, eq_default=[True, False], repr_default=True,
                    eq_other_type=[False, True, False])
        if 'eq_other_class' in res:
            want['eq_other_class'] = [False, True]
            dist['other_class'] += 1
        if 'changed' in res and res['changed'] != 'SAME':
            want['changed'] = [False, True, False]
            dist['changed'] += 1
        bp = res.get('built_vs_parsed')
        if isinstance(bp, list) and bp[0] and bp[1:] != [True, True, False]:
            failures.append(dict(kind='oracle', sig='eq-provenance', what=f"a constructed packet and the parse of its own encoding hold equal fields but compare {bp[1:]} (==, reversed ==, !=)",
                                 classes=pktprops.class_source(groups, gid), cls=decl.cname(c), value=decl.py_value(v)))
        elif isinstance(bp, str):
            failures.append(dict(kind='oracle', sig='eq-raise', what=f"comparing a constructed packet with its re-parse raised {bp}",
                                 classes=pktprops.class_source(groups, gid), cls=decl.cname(c), value=decl.py_value(v)))
        for k, w in want.items():
            got = res.get(k)
            if got != w:
                failures.append(dict(kind='oracle', sig='eq', what=f"{k}: observed {got}, required {w} (==, != and repr must be total, structural and discriminating)",
                                     classes=pktprops.class_source(groups, gid), cls=decl.cname(c), value=decl.py_value(v), change=str(ch)))
    for r in records:
        if r['kind'] == 'eq' and r['group'] == 62000:
            k = dist.setdefault('_oidx', 0)
            dist['_oidx'] = k + 1
            if 'ok' in r['outcome'] and (r['outcome']['ok'][0] or not r['outcome']['ok'][1]):
                failures.append(dict(kind='oracle', sig='eq-optional-empty', what=f"{must_differ[k][2]} and {must_differ[k][3]} differ in exactly one (optional) field -- absent against present -- but compare == {r['outcome']['ok'][0]}, != {r['outcome']['ok'][1]}",
                                     classes=pktprops.class_source(groups, 62000)))
        if r['kind'] == 'eq':
            dist['constructed_pairs'] += 1
            if 'ok' not in r['outcome'] and r['outcome'].get('exc') not in ('KeyError',):
                failures.append(dict(kind='oracle', sig='eq-raise', what=f"== / != / repr of constructed packets raised: {r['outcome']}",
                                     classes=pktprops.class_source(groups, r['group'])))
    dist.pop('_oidx', None)
    return dict(evaluations=len(records), distinct_nontrivial=dist['pairs'] + dist['constructed_pairs'],
                rule=("random class tables in which at/shift/aligned modifiers, the class-wide align option and Em are frequent; per class and "
                      "consistent value: the value is encoded, parsed twice and compared (==, !=, repr, with itself, default instances, another "
                      "class, a non-packet), then one field at any depth is changed; constructed packets are compared on model and implementation"),
                samples=[dict(classes=pktprops.class_source(groups, meta[0][0]), outcome=ex[0]['outcome'])] if ex else [],
                distribution=dist, failures=failures, disagreements=disagreements)


def replay(f):
    return pktprops.generic_replay(f)
