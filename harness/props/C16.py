"""C16 The code cache survives crashes and concurrent definitions."""
import os, itertools
from common import *
import cachelib

PID = 'C16'
TARGETS = ['Properties/C16.vo', 'Bridge/CacheBridge.vo', 'Bridge/CodegenBridge.vo']
KERNELS = ['G14_cache', 'G11_codegen']
PROP_FILE = 'Properties/C16.v'
ASSUMPTIONS = ["partial: atomicity of os.replace, the interpreter's import and bytecode rules and real kernel scheduling are assumptions; "
               "interleavings are explored at the granularity of the file operations of bisturi.codegen (interposed from the harness process)"]

LEGACY_HEAD = "\nfrom struct import pack as StructPack, unpack as StructUnpack\nfrom bisturi.fragments import Fragments\nfrom bisturi.packet import PacketError\n\n"


def crash_then_define(args):
    pre, victim, k, nbytes, after, bytecode = args[:6]
    pid = args[6] if len(args) > 6 else None        # not None: the crashed writer's pid is recycled for the process that comes after
    with Scratch('c16') as d:
        if pre:
            cachelib.run_proc(d, [dict(variant=pre)], bytecode=bytecode, tag='pre')
        rc, o, log = cachelib.run_proc(d, [dict(variant=victim)], bytecode=bytecode, mode='crash', crash_at=k, crash_bytes=nbytes, tag='victim', fixed_pid=pid)
        rc2, o2, log2 = cachelib.run_proc(d, [dict(variant=after)], bytecode=bytecode, tag='after', fixed_pid=pid)
        leftovers = sorted(os.listdir(os.path.join(d, '__pkts__'))) if os.path.isdir(os.path.join(d, '__pkts__')) else []
    return rc, rc2, o2, log2, leftovers


def torn_then_define(args):
    layout, cut, variant, bytecode = args
    with Scratch('c16t') as d:
        # a complete cache file for A as the old in-place writer / the new writer lays it out, cut at `cut` bytes
        rc, o, log = cachelib.run_proc(d, [dict(variant='A')], tag='mk')
        path = os.path.join(d, '__pkts__', 'm_P.py')
        data = open(path).read()
        if layout == 'legacy':
            lines = data.split('\n')
            cookie = [l for l in lines if l.startswith('BISTURI_PACKET_COOKIE')][0]
            body = data.replace(cookie + '\n', '')
            # the old writer put the cookie first, under the name it used then
            data = LEGACY_HEAD + cookie.replace('BISTURI_PACKET_COOKIE_AT_END', 'BISTURI_PACKET_COOKIE') + '\n' + body[len(LEGACY_HEAD):]
        n = min(cut, len(data))
        open(path, 'w').write(data[:n])
        rc2, o2, log2 = cachelib.run_proc(d, [dict(variant=variant), dict(variant=variant)], bytecode=bytecode, tag='after')
    return len(data), rc2, o2, log2


def scheduled(args):
    va, vb, schedule, bytecode, pre = args
    with Scratch('c16s') as d:
        if pre:
            cachelib.run_proc(d, [dict(variant=pre)], bytecode=True, tag='pre')
        outs, order = cachelib.run_scheduled(d, [([dict(variant=va)], bytecode), ([dict(variant=vb)], bytecode)], schedule)
    return outs, order


def run(tier, seed, rng):
    from concurrent.futures import ThreadPoolExecutor
    failures = []
    dist = dict(crash_points=0, byte_level_crashes=0, torn_files=0, schedules=0, definitions_after=0, distinct_interleavings=0, recycled_pid_crashes=0)
    # ---- crash points: before every file operation of a cache update, and after n bytes of the write
    nops = 9
    jobs = []
    # (Dal / Dfx: same fields, names, sizes and options; only the hooks of the described field differ)
    import json as _json
    def custom(body):
        return 'custom:' + _json.dumps(dict(conf='{}', body=body), sort_keys=True)
    # declarations whose generated sources are permutations of one another (two names exchanged): same length, same bytes, same sums
    P1, P2 = custom("ab = Int(1)\n    ba = Int(2)"), custom("ba = Int(1)\n    ab = Int(2)")
    Q1, Q2 = custom("r_121 = Int(1)\n    r_202 = Int(2)"), custom("r_202 = Int(1)\n    r_121 = Int(2)")
    for pre, victim, after in (('', 'A', 'A'), ('', 'A', 'C'), ('C', 'A', 'A'), ('C', 'A', 'C'), ('A4', 'A', 'A4'), ('Ale', 'A', 'Ale'), ('Dal', 'Dfx', 'Dal'), ('', 'Dfx', 'Dal'),
                               (P1, P2, P2), (P1, P2, P1), (Q1, Q2, Q2)):
        for k in range(1, nops + 1):
            jobs.append((pre, victim, k, None, after, k % 2 == 0))
    for n in ([0, 1, 50, 200, 700, 1300, 1400] if tier == 'quick' else list(range(0, 1440, 17))):
        jobs.append(('', 'A', 5 if True else 0, n, 'A', False))
        jobs.append(('C', 'A', 6, n, 'C', True))
    jobs += [j + (4242,) for j in jobs]          # ... and the same with the crashed writer's pid recycled
    with ThreadPoolExecutor(max_workers=NPROC) as ex:
        res = list(ex.map(crash_then_define, jobs))
    for job, (rc, rc2, o2, log2, left) in zip(jobs, res):
        dist['crash_points'] += 1
        dist['byte_level_crashes'] += job[3] is not None
        dist['recycled_pid_crashes'] += len(job) > 6
        if o2 is None:
            failures.append(dict(kind='oracle', sig='crash-define', what=f"after a crash (job {job}) the next definition's process died: {log2}", job=list(job)))
            continue
        for rec in o2['steps']:
            dist['definitions_after'] += 1
            why = cachelib.step_ok(rec, job[4])
            if why:
                failures.append(dict(kind='oracle', sig='crash-define', what=f"after a crash at operation {job[2]} (bytes {job[3]}) of a cache update: {why}", job=list(job)))
    # ---- torn and foreign files left on disk (as the pre-fix in-place writer could leave them)
    cuts = [0, 1, 40, 130, 131, 180, 181, 185, 300, 700, 959, 966, 1000, 1300, 1436, 1437] if tier == 'quick' else list(range(0, 1500, 7))
    tjobs = [(layout, c, v, c % 2 == 0) for layout in ('legacy', 'new') for c in cuts for v in ('A', 'C')]
    with ThreadPoolExecutor(max_workers=NPROC) as ex:
        tres = list(ex.map(torn_then_define, tjobs))
    for job, (size, rc2, o2, log2) in zip(tjobs, tres):
        dist['torn_files'] += 1
        if o2 is None:
            failures.append(dict(kind='oracle', sig='torn-define', what=f"with a cache file cut at {job[1]}/{size} bytes ({job[0]} layout) the defining process died: {log2}", job=list(job)))
            continue
        for rec in o2['steps']:
            dist['definitions_after'] += 1
            why = cachelib.step_ok(rec, job[2])
            if why:
                failures.append(dict(kind='oracle', sig='torn-define', what=f"with a cache file cut at {job[1]}/{size} bytes ({job[0]} layout): {why}", job=list(job)))
    # ---- two processes, every interleaving of their file operations (quick: a sample)
    sched = []
    L = 9
    if tier == 'quick':
        picks = [[0] * L + [1] * L, [1] * L + [0] * L, [0, 1] * L, [1, 0] * L, [0, 0, 1, 1] * 5, [0] * 2 + [1] * L + [0] * L,
                 [0] * 7 + [1] * 8 + [0] * 3, [1] * 7 + [0] * 8 + [1] * 3]
        while len(picks) < 40:
            s = [0] * L + [1] * L
            rng.shuffle(s)
            picks.append(s)
    else:
        picks = []
        for comb in itertools.combinations(range(2 * L), L):
            s = [1] * (2 * L)
            for c in comb:
                s[c] = 0
            picks.append(s)
        rng.shuffle(picks)
        picks = picks[:4000]
    for i, s in enumerate(picks):
        va, vb = [('A', 'A'), ('A', 'C'), ('A', 'A4'), ('A', 'Ale'), ('Dal', 'Dfx'), (P1, P2), (Q2, Q1)][i % 7]
        sched.append((va, vb, s, i % 2 == 0, ['', 'C', 'A'][i % 3 if i % 5 else 0]))
    # classes that generate ONE direction only (the generated module of a pack-only class has no unpack half, and the other way
    # round), overtaken by another definition right after their rename into place -- the reload finds somebody else's module
    for va, vb in (('Anu', 'C'), ('Cnu', 'A'), ('Anp', 'C'), ('Cnp', 'A'), ('A', 'Cnu'), ('Anu', 'Cnp')):
        for k in (6, 7, 8):
            for pre in ('', 'C', 'A4'):
                sched.append((va, vb, [0] * k + [1] * L + [0] * L, (k + len(pre)) % 2 == 0, pre))
                sched.append((va, vb, [1] * k + [0] * L + [1] * L, (k + len(pre)) % 2 == 1, pre))
    with ThreadPoolExecutor(max_workers=max(2, NPROC // 2)) as ex:
        sres = list(ex.map(scheduled, sched))
    seen = set()
    for job, (outs, order) in zip(sched, sres):
        dist['schedules'] += 1
        seen.add(tuple(i for i, _ in order))
        for which, (o, v) in enumerate(zip(outs, (job[0], job[1]))):
            if o is None:
                failures.append(dict(kind='oracle', sig='race-define', what=f"process {which} of a concurrent definition died", job=[job[0], job[1], job[2], job[3], job[4]],
                                     interleaving=order))
                continue
            for rec in o['steps']:
                dist['definitions_after'] += 1
                why = cachelib.step_ok(rec, v)
                if why:
                    failures.append(dict(kind='oracle', sig='race-define', what=f"process {which} of two concurrent definitions ({job[0]}, {job[1]}): {why}",
                                         job=[job[0], job[1], job[2], job[3], job[4]], interleaving=order))
                if rec['ops'] and not cachelib.conforms(rec['ops'], rec.get('noload', False)):
                    failures.append(dict(kind='oracle', sig='race-trace', what=f"file operations {rec['ops']} are not a run of the protocol", interleaving=order))
    dist['distinct_interleavings'] = len(seen)
    return dict(evaluations=dist['crash_points'] + dist['torn_files'] + dist['schedules'],
                distinct_nontrivial=len(set(map(str, jobs))) + len(set(map(str, tjobs))) + len(seen),
                traces_validated_against_impl=dist['definitions_after'],
                rule=("crash injection: a process updating the cache is killed before each of its 9 file operations (exists, load, remove, makedirs, "
                      "open, write, close, replace, load) and after n bytes of the write, from an empty directory and over caches of other "
                      "declarations; a fresh process then defines the same or another same-named class; cache files cut at many byte positions in "
                      "the pre-fix (cookie second, written in place) and the new (cookie last) layout; two processes defining identical / different / "
                      "same-size declarations stepped by a scheduler through interleavings of their file operations (quick: 40, thorough: 4000 of "
                      "the 48620), bytecode caching on and off; every definition must succeed and behave as a cache-free twin"),
                samples=[dict(schedule=sched[0][2], interleaving=sres[0][1])],
                distribution=dist, failures=failures, disagreements=[])


def replay(f):
    return True, dict(note='re-run the check: python3 check.py C16', failure=f)
