"""C14 Parsing depends only on the bytes it consumes."""
import os
from common import *
import decl, gen, pktcases, pktprops

PID = 'C14'
TARGETS = ['Properties/C14.vo', 'Bridge/DataBridge.vo', 'Bridge/MoveBridge.vo', 'Bridge/IntBridge.vo', 'Bridge/CodegenBridge.vo', 'Bridge/PlumbingBridge.vo', 'Bridge/ErrorsBridge.vo', 'Bridge/RefBridge.vo']
KERNELS = ['G8_data', 'G3_move', 'G4_seq', 'G6_int', 'G11_codegen', 'G17_builder', 'G9_errors', 'G16_ref', 'G16b_optional']
PROP_FILE = 'Properties/C14.v'
WHOLE_PACKET = True      # Tie A over all of the pack / unpack machinery (check.py: WHOLE_PACKET_KERNELS)


def forward_only(table):
    """every positioning is a non-negative constant jump or a positive constant alignment (hypothesis of C14_prefix)"""
    for pc in table.values():
        for fd in pc['fields']:
            mv = fd.get('move')
            if mv:
                arg, ref, al, _ = mv
                if arg[0] != 'const' or (al and arg[1] <= 0) or (not al and arg[1] < 0):
                    return False
    return True


def closed(table):
    return not pktprops.has_feature(table, lambda k, x: k == 'leaf' and x[0] in ('dregex', 'deos'))


def shift_outcome(o, d):
    """the outcome `o` of unpack(raw, off) as it must look for unpack(pre + raw, off + d)"""
    if 'ok' in o:
        return dict(ok=o['ok'], end=o['end'] + d)
    if 'err' in o:
        return dict(err=o['err'], stack=[[x[0] + d, x[1], x[2]] for x in o['stack']])
    return o


def view(o):
    if 'ok' in o:
        return dict(ok=o['ok'], end=o['end'])
    if 'err' in o:
        return dict(err=o['err'], stack=o['stack'])
    return dict(exc=o.get('exc'))


def run(tier, seed, rng):
    ng = 60 if tier == 'quick' else 2000
    feats = lambda g: dict(begins_ref=False, clsopts=False, neg_moves=(g % 3 == 0), seq_align=False)
    groups = pktprops.make_groups(rng, ng, feats, values_per_class=3 if tier == 'quick' else 5, offsets=(1, 3, 6), maxcuts=6, flips=1,
                                  defaults=False, cut_with_prefix=True)
    # no per-element alignment, no class-wide align (both are start-of-data positioning); class options otherwise free
    for G in groups:
        for pc in G.table.values():
            pc['align'] = None
            pc['sbl'] = rng.choice([None, None, 0, 3, 5])
            pc['end'] = rng.choice([None, 'little'])
            for fd in pc['fields']:
                if fd['body'][0] == 'seq' and fd['body'][6] is not None:
                    fd['body'] = fd['body'][:6] + (None,)
    # ---- regular expressions outside the modelled class (look-behind, word boundaries, anchors): implementation-only groups.
    # Their match must not depend on what precedes the field either.
    import itertools
    zoo = [rb'(?<!\\);', rb'\bX', rb'^a', rb'(?<=a);', rb'X\b', rb'(?m)^;', rb'\B;', rb'(?<![a-z])X']
    alpha = [0x61, 0x3b, 0x5c, 0x58, 0x20]
    zgroups = []
    for zi, pat in enumerate(zoo):
        for incl in (True, False):
            table = {0: dict(end=None, align=None, sbl=None, gp=True, gu=True, vec=True, ann=True,
                             fields=[{'move': None, 'body': ('elem', ('leaf', ('dregex_raw', pat, incl, b'')))},
                                     {'move': None, 'body': ('elem', ('leaf', ('int', 1, False, None, 0)))}])}
            G = pktcases.Group(table, 100000 + len(zgroups))
            G.nomodel = True
            bodies = [bytes(t) for L in range(0, 4) for t in itertools.product(alpha, repeat=L)]
            if tier == 'quick':
                bodies = bodies[:1] + rng.sample(bodies[1:], 40)
            for body in bodies:
                raw = body + b'\x07'
                G.add_unpack(0, raw, 0)
                for pre in ([bytes([a]) for a in alpha] + [b'a\\', b'X ']):
                    G.add_unpack(0, pre + raw, len(pre))
            zgroups.append(G)
    # ---- moves that land on the very first byte of the packet (position 0 when parsed at offset 0): backward shifts and at(0),
    # parsed directly (such packets re-read a byte, so they cannot be produced by pack()); modelled groups
    bgroups = []
    for bi, (mv, k) in enumerate([(('const', -1), 1), (('const', -2), 2), (('const', -1), 2), (('const', 0), 1)]):
        ref = 'RInner' if mv[1] == 0 else 'RCur'
        fields = [{'move': None, 'body': ('elem', ('leaf', ('int', 1, False, None, 0)))} for _ in range(k)]
        fields.append({'move': (mv, ref, False, 'at' if mv[1] == 0 else 'shift'), 'body': ('elem', ('leaf', ('int', 1, False, None, 0)))})
        fields.append({'move': None, 'body': ('elem', ('leaf', ('int', 2, False, None, 0)))})
        for gen_u in (True, False):
            table = {0: dict(end=None, align=None, sbl=None, gp=True, gu=gen_u, vec=True, ann=True, fields=fields)}
            G = pktcases.Group(table, 200000 + len(bgroups))
            for _ in range(4):
                raw = bytes(rng.randrange(1, 256) for _ in range(k + 3))
                G.add_unpack(0, raw, 0)
                for pre in (b'P', b'PQR'):
                    G.add_unpack(0, pre + raw, len(pre))
            bgroups.append(G)
    # ---- fields that consume NO bytes at the very end of the input (a present optional string of size 0, a repeated field of count 0,
    # a sized string of size 0, Em): what they parse to must not depend on whether any byte follows; directly and inside a reference
    tgroups = []
    complete_groups = set()
    cond = ('bin', 'Eq', ('bin', 'BAnd', ('field', 0), ('lit', 1)), ('lit', 1))
    tails = [('opt', ('leaf', ('dsized', ('field', 1), 'field', b'')), (cond, 'expr'), None),
             ('opt', ('leaf', ('dsized', ('field', 1), 'field', b'')), (cond, 'lambda'), None),
             ('seq', ('leaf', ('int', 2, False, None, 0)), (('field', 1), 'field'), None, None, None, None),
             ('seq', ('leaf', ('int', 1, False, None, 0)), (('field', 1), 'field'), None, (cond, 'expr'), None, None),
             ('elem', ('leaf', ('dsized', ('field', 1), 'field', b''))),
             ('opt', ('leaf', ('int', 1, False, None, 0)), (cond, 'expr'), None)]
    # ... and the same behind a relative move that lands BEYOND the end of the input (nothing is read there): padding that is missing
    # after the last record, an empty string placed further on
    moved = [((('const', 4), 'RInner', True, 'aligned'), ('em',)),
             ((('const', 3), 'RCur', False, 'shift'), ('seq', ('leaf', ('int', 2, False, None, 0)), (('field', 1), 'field'), None, None, None, None)),
             ((('const', 6), 'RInner', False, 'at'), ('elem', ('leaf', ('dsized', ('field', 1), 'field', b'')))),
             ((('const', 2), 'RCur', False, 'shift'), ('opt', ('leaf', ('int', 1, False, None, 0)), (cond, 'expr'), None))]
    for ti, tail in enumerate(tails + moved):
        mv = None
        if ti >= len(tails):
            mv, tail = tail
        for gen_u in (True, False):
            table = {0: dict(end=None, align=None, sbl=None, gp=True, gu=gen_u, vec=True, ann=True,
                             fields=[{'move': None, 'body': ('elem', ('leaf', ('int', 1, False, None, 0)))},
                                     {'move': None, 'body': ('elem', ('leaf', ('int', 1, False, None, 0)))},
                                     {'move': mv, 'body': tail}]),
                     1: dict(end=None, align=None, sbl=None, gp=True, gu=True, vec=True, ann=True,
                             fields=[{'move': None, 'body': ('elem', ('leaf', ('int', 1, False, None, 0)))}, {'move': None, 'body': ('elem', ('refpkt', 0, {}))}])}
            G = pktcases.Group(table, 300000 + len(tgroups))
            for flags in (0, 1):
                for size in (0, 1):
                    body = bytes([flags, size]) + b'Q' * (size * (2 if tail[0] == 'seq' and tail[1][1][1] == 2 else 1) if (flags & 1 or tail[0] in ('elem',) or (tail[0] == 'seq' and tail[4] is None)) else 0)
                    # is `body` a complete encoding?  without a move: when the tail consumes exactly what the size says; behind a move that
                    # lands beyond the header: only when nothing at all is read there
                    optint = tail[0] == 'opt' and tail[1][1][0] == 'int'
                    if mv is None:
                        complete = not optint
                    else:
                        complete = tail[0] == 'em' or (optint and not flags & 1) or (not optint and (size == 0 or (tail[0] == 'opt' and not flags & 1) or (tail[0] == 'seq' and tail[4] is not None and not flags & 1)))
                    for c, pre in ((0, b''), (1, b'\x09')):
                        raw = pre + body
                        if complete:
                            complete_groups.add((G.gid, c, raw))
                        G.add_unpack(c, raw, 0)
                        for suf in (b'Z', b'\x00\x01\x02'):
                            G.add_unpack(c, raw + suf, 0)
                        G.add_unpack(c, raw + b'abcdefghij', 0)
                        G.add_unpack(c, b'PP' + raw + b'S', 2)
            tgroups.append(G)
    records, disagreements = pktcases.run_groups(groups + zgroups + bgroups + tgroups, 'c14')
    trecs = [r for r in records if r['group'] >= 300000 and r['kind'] == 'roundtrip']
    tfail, tbase = [], None
    for r in trecs:
        if r['offset'] == 0 and (tbase is None or not (r['raw'].startswith(tbase['raw']) and r['group'] == tbase['group'] and r['c'] == tbase['c'])):
            tbase = r
            continue
        if tbase is None or r['group'] != tbase['group'] or r['c'] != tbase['c']:
            continue
        if 'ok' not in tbase['outcome']:
            # the base input of this family is a complete encoding: if it only parses once bytes are appended, the appended bytes decided
            if 'ok' in r['outcome'] and r['offset'] == 0 and (tbase['group'], tbase['c'], tbase['raw']) in complete_groups:
                tfail.append((tbase, r, dict(note='the input alone must parse exactly as it does with bytes appended')))
            continue
        want = shift_outcome(tbase['outcome'], r['offset'])
        if view(r['outcome']) != view(want):
            tfail.append((tbase, r, want))
    zrecs = [r for r in records if 100000 <= r['group'] < 200000 and r['kind'] == 'roundtrip']
    brecs = [r for r in records if 200000 <= r['group'] < 300000 and r['kind'] == 'roundtrip']
    bfail, bbase = [], None
    for r in brecs:
        if r['offset'] == 0:
            bbase = r
            continue
        if bbase is None or not r['raw'].endswith(bbase['raw']) or r['group'] != bbase['group']:
            continue
        want = shift_outcome(bbase['outcome'], r['offset'])
        if view(r['outcome']) != view(want):
            bfail.append((bbase, r, want))
    zfail = []
    base = None
    for r in zrecs:
        if r['offset'] == 0:
            base = r
            continue
        if base is None or not r['raw'].endswith(base['raw']) or r['group'] != base['group']:
            continue
        want = shift_outcome(base['outcome'], r['offset'])
        if view(r['outcome']) != view(want):
            zfail.append((base, r, want))
    rts = [r for r in records if r['kind'] == 'roundtrip' and r.get('source') is not None and r['group'] < 100000]
    by_src = {}
    for r in rts:
        by_src.setdefault(r['source'], []).append(r)
    failures = []
    dist = dict(prefix_pairs=0, suffix_pairs=0, failing_base=0, ok_base=0, backward_move_tables=0, prefix_of_truncated=0)
    for src, rs in by_src.items():
        base = next((r for r in rs if r['variant'] == 'base'), None)
        if base is None:
            continue
        table = pktprops.table_of(groups, base['group'])
        fwd = forward_only(table)
        dist['backward_move_tables'] += not fwd
        cls = pktprops.class_source(groups, base['group'])
        pairs = []
        last_cut = None
        for r in rs:
            if r['variant'] == 'prefix':
                pairs.append((base, r, 'prefix'))
            elif r['variant'] == 'cut2':
                last_cut = r
            elif r['variant'] == 'prefix-of-cut2' and last_cut is not None:
                pairs.append((last_cut, r, 'prefix'))
                dist['prefix_of_truncated'] += 1
            elif r['variant'] == 'suffix':
                pairs.append((base, r, 'suffix'))
            elif r['variant'] == 'prefix+suffix':
                pairs.append((base, r, 'prefix+suffix'))
        for b, r, kind in pairs:
            ob, orr = b['outcome'], r['outcome']
            dist['ok_base' if 'ok' in ob else 'failing_base'] += 1
            if kind == 'prefix':
                dist['prefix_pairs'] += 1
                want = shift_outcome(ob, r['offset'] - b['offset'])
                if view(orr) != view(want):
                    sig = 'context-prefix'
                    if not fwd and 'err' in ob:
                        sig = 'D13 a relative move to before the start offset reads the bytes that precede the packet'
                    failures.append(dict(kind='oracle', sig=sig, what='unpack(pre + raw, offset + len(pre)) differs from unpack(raw, offset) shifted by len(pre)',
                                         classes=cls, cls=decl.cname(r['c']), raw=b['raw'].hex(), raw_with_context=r['raw'].hex(),
                                         offset=r['offset'], observed=view(orr), required=view(want)))
            else:
                if 'ok' not in ob or not closed(table):
                    continue
                dist['suffix_pairs'] += 1
                want = shift_outcome(ob, r['offset'] - b['offset'])
                if view(orr) != view(want):
                    failures.append(dict(kind='oracle', sig='context-suffix', what='bytes appended after the parsed region changed a successful parse',
                                         classes=cls, cls=decl.cname(r['c']), raw=b['raw'].hex(), raw_with_context=r['raw'].hex(),
                                         offset=r['offset'], observed=view(orr), required=view(want)))
    dist['zero_byte_tail_pairs'] = len(trecs)
    for b, r, want in tfail[:20]:
        failures.append(dict(kind='oracle', sig='context-suffix-zero-tail', what='a field that consumes no bytes at the very end of the input parses differently when bytes follow (or precede) the packet',
                             classes=pktprops.class_source(tgroups, r['group']), cls=decl.cname(r['c']), raw=b['raw'].hex(), raw_with_context=r['raw'].hex(),
                             offset=r['offset'], observed=view(r['outcome']) if 'note' not in want else view(b['outcome']), required=view(want) if 'note' not in want else want))
    dist['first_byte_move_pairs'] = sum(1 for r in brecs if r['offset'] != 0)
    for b, r, want in bfail[:20]:
        failures.append(dict(kind='oracle', sig='context-prefix-move0', what='a packet with a move landing on its first byte parses differently at offset 0 and behind a prefix',
                             classes=pktprops.class_source(bgroups, r['group']), cls='K0', raw=b['raw'].hex(), raw_with_context=r['raw'].hex(),
                             offset=r['offset'], observed=view(r['outcome']), required=view(want)))
    # ---- positions declared in UNUSUAL ORDERS or through wrappers the generator never writes (a position given before .when(), before
    # .repeated(), packet-relative alignment of optional / repeated fields, of a referenced packet at an odd offset): whatever the
    # declaration means, it must mean the same at every start offset -- unpack(pre + raw + suf, len(pre)) against unpack(raw)
    osrc = ("class ORec(Packet):\n    kind = Int(1)\n    value = Int(2).aligned(4, 'innermost-pkt').when(kind)\n    tail = Int(1)\n"
            "class ORec2(Packet):\n    kind = Int(1)\n    value = Int(2).when(kind).aligned(4, 'innermost-pkt')\n    tail = Int(1)\n"
            "class OAt(Packet):\n    kind = Int(1)\n    value = Int(2).at(4).when(kind)\n    tail = Int(1)\n"
            "class OSh(Packet):\n    kind = Int(1)\n    value = Int(2).shift(2).when(kind)\n    tail = Int(1)\n"
            "class OSeq(Packet):\n    n = Int(1)\n    xs = Int(1).aligned(4, 'innermost-pkt').repeated(n)\n    tail = Int(1)\n"
            "class OSeq2(Packet):\n    n = Int(1)\n    xs = Int(1).repeated(n).aligned(4, 'innermost-pkt')\n    tail = Int(1)\n"
            "class ORefAl(Packet):\n    tag = Int(1)\n    rec = Ref(ORec).aligned(2, 'innermost-pkt')\n    t = Int(1)\n"
            "class OEm(Packet):\n    a = Int(1)\n    e = Em().aligned(4, 'innermost-pkt').when(a)\n    b = Int(1)\n")
    for k in ('ORec', 'ORec2', 'OAt', 'OSh', 'OSeq', 'OSeq2', 'OEm'):
        osrc += f"class F{k}(Packet):\n    tag = Int(1)\n    rec = Ref({k})\n    t = Int(1)\n"
    obase = bytes([0x01, 0xAA, 0xBB, 0xCC, 0x00, 0x07, 0x09, 0x55, 0x66, 0x77, 0x02, 0x03, 0x04, 0x05, 0x06, 0x08])
    ocases, ometa = [], []
    for cls in ['ORec', 'ORec2', 'OAt', 'OSh', 'OSeq', 'OSeq2', 'ORefAl', 'OEm'] + ['F' + k for k in ('ORec', 'ORec2', 'OAt', 'OSh', 'OSeq', 'OSeq2', 'OEm')]:
        for first in (0x01, 0x00, 0x02):
            raw = bytes([first]) + obase[1:] if not cls.startswith('F') else bytes([0x0b, first]) + obase[1:]
            for pre in range(0, 8):
                for suf in (b'', b'\x99\x98'):
                    ocases.append(dict(cls=cls, op='unpack_end', raw=(b'p' * pre + raw + suf).hex(), offset=pre)); ometa.append((cls, first, pre, suf))
    ores = run_impl(os.path.join(VERIF, 'harness', 'impl_pkt.py'), dict(header=decl.HEADER_PY, blocks=[dict(name='orders', src=osrc)], modname='c14o', cases=ocases))
    dist['unusual_order_position_pairs'] = len(ocases)
    obase_out = {}
    for (cls, first, pre, suf), c, o in zip(ometa, ocases, ores['outcomes']):
        norm = dict(o)
        if isinstance(norm.get('end'), int):
            norm['end'] -= pre
        if 'stack' in norm:
            norm['stack'] = [[x[0] - pre if isinstance(x[0], int) else x[0]] + list(x[1:]) for x in norm['stack']]
            norm.pop('msg', None)
        if pre == 0 and suf == b'':
            obase_out[(cls, first)] = (norm, c)
        elif 'ok' in obase_out[(cls, first)][0] and norm != obase_out[(cls, first)][0]:
            failures.append(dict(kind='oracle', sig='context-unusual-order', what=f"unpack behind a prefix of {pre} bytes (and {len(suf)} bytes after) differs from unpack of the packet alone, offsets shifted",
                                 classes=osrc, cls=cls, raw=obase_out[(cls, first)][1]['raw'], raw_with_context=c['raw'], offset=pre, observed=str(norm)[:400], required=str(obase_out[(cls, first)][0])[:400]))
    failures += pktprops.public_api_failures(groups, records)[:20]
    dist['regex_zoo_pairs'] = sum(1 for r in zrecs if r['offset'] != 0)
    for b, r, want in zfail[:20]:
        failures.append(dict(kind='oracle', sig='context-prefix-regex', what='a regex-delimited field parses differently depending on the bytes BEFORE the start offset',
                             classes=pktprops.class_source(zgroups, r['group']), cls='K0', raw=b['raw'].hex(), raw_with_context=r['raw'].hex(),
                             offset=r['offset'], observed=view(r['outcome']), required=view(want)))
    return dict(evaluations=len(records), distinct_nontrivial=dist['prefix_pairs'] + dist['suffix_pairs'] + dist['regex_zoo_pairs'],
                rule=("random class tables without start-of-data positioning and without raw/offset callbacks; per consistent value: the encoding, "
                      "truncations, a flip; each then parsed again behind prefixes of 1, 3 and 6 arbitrary bytes (delimiter bytes included), with "
                      "arbitrary bytes appended, and both; also a truncated (failing) input behind a prefix; the implementation's outcomes are "
                      "compared pairwise (values, end offset, error stack shifted); distinct_nontrivial = number of compared pairs"),
                samples=[dict(classes=pktprops.class_source(groups, rts[0]['group']), raw=rts[0]['raw'].hex(), offset=rts[0]['offset'],
                              variant=rts[0]['variant'], outcome=view(rts[0]['outcome']))] if rts else [],
                distribution=dist, failures=failures, disagreements=disagreements)


def replay(f):
    res = run_impl(os.path.join(VERIF, 'harness', 'impl_pkt.py'),
                   dict(header=decl.HEADER_PY, blocks=[dict(name='all', src=f['classes'])], modname='c14r',
                        cases=[dict(cls=f['cls'], op='roundtrip', raw=f['raw_with_context'], offset=f['offset'])]))
    o = res['outcomes'][0]
    return view(o) != f['required'], dict(observed=view(o), required=f['required'])
