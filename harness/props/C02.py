"""C02 Serialize-then-parse reproduces the packet."""
import os, json
from common import *
import decl, gen, pktcases, pktprops

PID = 'C02'
TARGETS = ['Properties/C02.vo', 'Proofs/PackUnpackX.vo', 'Bridge/FragBridge.vo', 'Bridge/IntBridge.vo', 'Bridge/DataBridge.vo', 'Bridge/MoveBridge.vo', 'Bridge/BitsBridge.vo',
           'Bridge/CodegenBridge.vo', 'Bridge/RefBridge.vo', 'Bridge/PlumbingBridge.vo']
KERNELS = ['G1_frag', 'G6_int', 'G8_data', 'G3_move', 'G4_seq', 'G5_bits', 'G11_codegen', 'G16_ref', 'G16b_optional', 'G17_builder', 'G19_field_ctor']
PROP_FILE = 'Properties/C02.v'
WHOLE_PACKET = True      # Tie A over all of the pack / unpack machinery (check.py: WHOLE_PACKET_KERNELS)


def same(v, parsed):
    """constructed generator value vs parsed (uncanon'ed) value, field for field"""
    if isinstance(v, tuple) and v[0] == 'pkt':
        if not (isinstance(parsed, tuple) and parsed[0] == 'pkt' and parsed[1] == v[1]):
            return False
        return all(same(x, parsed[2].get(i)) for i, x in v[2].items())
    if isinstance(v, list):
        return isinstance(parsed, list) and len(v) == len(parsed) and all(same(a, b) for a, b in zip(v, parsed))
    if isinstance(v, bool):
        return parsed == int(v)
    return v == parsed


def reference_encoding(table, v, host_big):
    """in-order concatenation of each field's encoding, for declarations without positioning (None when not applicable)"""
    c, env = v[1], v[2]
    pc = table[c]
    if pc.get('align') is not None:
        return None
    out = b''

    def leaf(l, x):
        if l[0] == 'int':
            e = l[3] if l[3] is not None else (pc.get('end') or 'big')
            big = e in ('big', 'network') or (e == 'local' and host_big)
            return int(x).to_bytes(l[1], 'big' if big else 'little', signed=l[2])
        if l[0] == 'dmarker':
            return x + (b'' if l[2] else l[1])
        return x

    def elem(el, x):
        if el[0] == 'leaf':
            return leaf(el[1], x)
        if el[0] == 'refpkt':
            return reference_encoding(table, x, host_big)
        return None
    bits = []
    for i, fd in enumerate(pc['fields']):
        if fd.get('move'):
            return None
        b = fd['body']
        if b[0] != 'bits' and bits:
            return None
        if b[0] == 'bits':
            bits.append((b[1], env[i]))
            nxt = pc['fields'][i + 1]['body'] if i + 1 < len(pc['fields']) else None
            if nxt is None or nxt[0] != 'bits' or pc['fields'][i + 1].get('move'):
                total = sum(w for w, _ in bits)
                I, sh = 0, total
                for w, val in bits:
                    sh -= w
                    I |= (val % (1 << w)) << sh
                out += I.to_bytes(total // 8, 'big')
                bits = []
            continue
        if b[0] == 'em':
            continue
        x = env.get(i)
        if b[0] == 'elem':
            e = elem(b[1], x)
        elif b[0] == 'seq':
            if b[6] not in (None, 1):
                return None
            parts = [elem(b[1], y) for y in x]
            e = None if any(p is None for p in parts) else b''.join(parts)
        elif b[0] == 'opt':
            e = b'' if x is None else elem(b[1], x)
        if e is None:
            return None
        out += e
    return out


def run(tier, seed, rng):
    import sys
    host_big = sys.byteorder == 'big'
    ng = 70 if tier == 'quick' else 2000
    feats = lambda g: dict(regex=False, eos=False, codegen_opts=(g % 3 == 0), move=(g % 2 == 0), move_rate=0.4, refsel=(g % 4 != 3))
    groups = pktprops.make_groups(rng, ng, feats, values_per_class=4 if tier == 'quick' else 8, offsets=(), maxcuts=0, flips=0, defaults=False)
    for G in groups:
        for pc in G.table.values():
            pc['sbl'] = None
        # assert_consistency() on the same constructed values
        for op in list(G.ops):
            if op.get('op') == 'derive':
                G.add_extra(op['_c'], dict(op='consistency', value=op['value'], _src=op))
    # ---- built by attribute assignment on a packet that was serialized / parsed before: pairs of consistent values of one class
    for G in groups:
        by_class = {}
        for op in G.ops:
            if op.get('op') == 'derive':
                by_class.setdefault(op['_c'], []).append(op)
        for c, ops in by_class.items():
            for x, y in zip(ops, ops[1:] + ops[:1]):
                if x is not y and set(x['_value'][2]) == set(y['_value'][2]) == set(range(len(G.table[c]['fields']))) - {i for i, fd in enumerate(G.table[c]['fields']) if fd['body'][0] == 'em'}:
                    G.add_extra(c, dict(op='reassign', a=x['value'], b=y['value'], _b=y['_value']))
    # finding D8: a regex delimiter that is not kept in the value (the property's wording covers it through "delimiter-free bodies")
    d8 = pktcases.Group({0: dict(end=None, align=None, sbl=None, gp=True, gu=True, vec=True, ann=True,
                                 fields=[{'move': None, 'body': ('elem', ('leaf', ('dregex', [('plus', 88)], False, b'')))},
                                         {'move': None, 'body': ('elem', ('leaf', ('int', 1, False, None, 0)))}])}, 90000)
    d8.add_derive(0, ('pkt', 0, {0: b'ab', 1: 7}), seed=1, maxcuts=0, flips=0)
    groups.append(d8)
    # ---- an offset table: two strings placed by absolute positions held in earlier fields, in and out of declaration order,
    # with a hole, abutting (the one packed later ends exactly where the other begins) and nested in a reference
    tfields = [{'move': None, 'body': ('elem', ('leaf', ('int', 1, False, None, 0)))},
               {'move': None, 'body': ('elem', ('leaf', ('int', 1, False, None, 0)))},
               {'move': (('field', 0), 'RInner', False, 'at'), 'body': ('elem', ('leaf', ('dsized', ('lit', 4), 'const', b'')))},
               {'move': (('field', 1), 'RInner', False, 'at'), 'body': ('elem', ('leaf', ('dsized', ('lit', 4), 'const', b'')))}]
    ttable = {0: dict(end=None, align=None, sbl=None, gp=True, gu=True, vec=True, ann=True, fields=tfields),
              1: dict(end=None, align=None, sbl=None, gp=False, gu=False, vec=True, ann=True,
                      fields=[{'move': None, 'body': ('elem', ('leaf', ('int', 2, False, None, 0)))}, {'move': None, 'body': ('elem', ('refpkt', 0, {}))}])}
    tg = pktcases.Group(ttable, 91000)
    for oa, ob in ((2, 6), (6, 2), (7, 2), (2, 7), (10, 6), (6, 10), (3, 12)):
        v = ('pkt', 0, {0: oa, 1: ob, 2: b'AAAA', 3: b'BBBB'})
        tg.add_derive(0, v, seed=1, maxcuts=0, flips=0)
        tg.add_derive(1, ('pkt', 1, {0: 515, 1: v}), seed=1, maxcuts=0, flips=0)
    groups.append(tg)
    # ---- a field selected at run time (the callable builds a fresh field per call) in classes that set a class-wide byte order: what
    # pack writes is what unpack reads, for values that are not byte palindromes
    for variant, (end, how) in enumerate([('little', 'lambda'), ('little', 'expr'), ('local', 'lambda'), (None, 'lambda')]):
        opts = [('lit', ('leaf', ('int', 2, False, None, 0))), ('lit', ('leaf', ('int', 4, True, None, 0)))]
        sel = ('choose', ('bin', 'Mod', ('field', 0), ('lit', 2)), opts)
        fields = [{'move': None, 'body': ('elem', ('leaf', ('int', 1, False, None, 0)))},
                  {'move': None, 'body': ('elem', ('refsel', sel, how, 0))},
                  {'move': None, 'body': ('seq', ('refsel', sel, how, 0), (('lit', 2), 'const'), None, None, None, None)},
                  {'move': None, 'body': ('elem', ('leaf', ('int', 2, False, None, 0)))}]
        stable = {0: dict(end=end, align=None, sbl=None, gp=True, gu=(variant != 2), vec=True, ann=True, fields=fields)}
        SG = pktcases.Group(stable, 92000 + variant)
        for k, (a, b, c2) in enumerate([(0x0102, 0x0304, 0xfffe), (0x01020304, -2, 0x7f000001), (1, 256, 0x8001), (-0x01020304, 5, 0x0100)]):
            sv = ('pkt', 0, {0: k % 2, 1: a if k % 2 == 0 else a, 2: [b, c2] if k % 2 else [b % 65536, c2 % 65536], 3: 0x0a0b})
            if k % 2 == 0:
                sv = ('pkt', 0, {0: 0, 1: a % 65536, 2: [b % 65536, c2 % 65536], 3: 0x0a0b})
            SG.add_derive(0, sv, seed=1, maxcuts=0, flips=0)
        groups.append(SG)
    # ---- tables of THREE and more options (sizes and selected fields given by chooses in its list, dict and lambda forms)
    for variant, how in enumerate(('expr', 'lambda')):
        size3 = ('choosed', ('field', 0), [1, 2, 3], [('lit', 2), ('lit', 4), ('lit', 1)])
        size4 = ('choose', ('bin', 'Mod', ('field', 0), ('lit', 4)), [('lit', 0), ('lit', 3), ('lit', 1), ('lit', 2)])
        opts3 = [('lit', ('leaf', ('int', 1, False, None, 0))), ('lit', ('leaf', ('int', 2, False, None, 0))), ('lit', ('leaf', ('int', 4, False, None, 0)))]
        sel3 = ('choosed', ('field', 0), [1, 2, 3], opts3)
        fields = [{'move': None, 'body': ('elem', ('leaf', ('int', 1, False, None, 0)))},
                  {'move': None, 'body': ('elem', ('leaf', ('dsized', size3, how, b'')))},
                  {'move': None, 'body': ('elem', ('leaf', ('dsized', size4, how, b'')))},
                  {'move': None, 'body': ('elem', ('refsel', sel3, how, 0))},
                  {'move': None, 'body': ('elem', ('leaf', ('int', 1, False, None, 0)))}]
        ctable = {0: dict(end=None, align=None, sbl=None, gp=True, gu=True, vec=True, ann=True, fields=fields)}
        CG = pktcases.Group(ctable, 93000 + variant)
        s3 = {1: 2, 2: 4, 3: 1}; s4 = [0, 3, 1, 2]; w3 = {1: 1, 2: 2, 3: 4}
        for k in (1, 2, 3):
            CG.add_derive(0, ('pkt', 0, {0: k, 1: b'abcdefgh'[:s3[k]], 2: b'XYZ'[:s4[k % 4]], 3: 256 ** (w3[k] - 1) + 5, 4: 9}), seed=1, maxcuts=0, flips=0)
        groups.append(CG)
    records, disagreements = pktcases.run_groups(groups, 'c02')
    failures = []
    # ---- ONE table of field objects handed out by the selectors of TWO fields of a packet (source / destination address by type):
    # each field is serialized from and parsed into its own attribute, also when both select the very same object
    tsrc = ("ADDR = {1: Data(4), 4: Data(6), 2: Int(2)}\n"
            "class Route(Packet):\n    st = Int(1, default=1)\n    src = Ref(st.chooses(ADDR), default=b'\\0\\0\\0\\0')\n    dt = Int(1, default=1)\n    dst = Ref(dt.chooses(ADDR), default=b'\\0\\0\\0\\0')\n    t = Int(1)\n"
            "class RouteL(Packet):\n    __bisturi__ = {'generate_for_pack': False, 'generate_for_unpack': False}\n    st = Int(1, default=1)\n    src = Ref(st.chooses(ADDR), default=b'\\0\\0\\0\\0')\n    dt = Int(1, default=1)\n    dst = Ref(dt.chooses(ADDR), default=b'\\0\\0\\0\\0')\n    t = Int(1)\n"
            "class Hop(Packet):\n    k = Int(1, default=2)\n    via = Ref(k.chooses(ADDR), default=0)\n")
    tvals = {1: (b'\n\x00\x00\x01', b'\n\x00\x00\x02'), 4: (b'abcdef', b'uvwxyz'), 2: (258, 772)}
    def tenc(k, v):
        return bytes([k]) + (v if isinstance(v, bytes) else v.to_bytes(2, 'big'))
    tcases, twant = [], []
    for cls in ('Route', 'RouteL', 'Route'):
        for ks in (1, 4, 2):
            for kd in (1, 4, 2):
                a, b = tvals[ks][0], tvals[kd][1]
                enc = tenc(ks, a) + tenc(kd, b) + b'\x07'
                tcases.append(dict(cls=cls, op='pack', value={"py": f"{cls}(st={ks}, src={a!r}, dt={kd}, dst={b!r}, t=7)"})); twant.append(('pack', enc, None))
                tcases.append(dict(cls=cls, op='roundtrip', raw=enc.hex(), offset=0)); twant.append(('rt', enc, (a, b)))
        tcases.append(dict(cls='Hop', op='pack', value={"py": "Hop(k=2, via=515)"})); twant.append(('pack', b'\x02\x02\x03', None))
    tres = run_impl(os.path.join(VERIF, 'harness', 'impl_pkt.py'), dict(header=decl.HEADER_PY, blocks=[dict(name='sharedaddr', src=tsrc)], modname='c02t', cases=tcases))
    cv = lambda v: {'x': v.hex()} if isinstance(v, bytes) else v
    for c, o, (kind_, enc, ab) in zip(tcases, tres['outcomes'], twant):
        if kind_ == 'pack':
            ok = o.get('ok') == enc.hex()
        else:
            f = dict(o['ok']['f']) if 'ok' in o else {}
            ok = 'ok' in o and f.get('src') == cv(ab[0]) and f.get('dst') == cv(ab[1]) and (o.get('packed') or {}).get('ok') == enc.hex() and o.get('end') == len(enc)
        if not ok:
            failures.append(dict(kind='oracle', sig='shared-option-table-two-fields', what=f"two fields of one packet select from ONE table of field objects: {c.get('value', {}).get('py') or c.get('raw')} must give {enc.hex()}" + ('' if ab is None else f" with src={ab[0]!r}, dst={ab[1]!r}"),
                                 classes=tsrc, cls=c['cls'], **({'raw': c['raw'], 'offset': 0} if 'raw' in c else {'value': c['value']['py']}), observed=o))
    dist = dict(values=0, packed=0, reparsed_equal=0, not_serializable=0, reference_encoding_checked=0, with_positioning=0, census=0, in_sequential_theorem=0, in_extended_theorem=0)
    last_pack = {}
    consistency = {}
    reparse_ok = {}
    dist['reassigned'] = 0
    for r in records:
        if r['kind'] == 'extra:reassign' and isinstance(r['outcome'], dict) and 'ok' in r['outcome']:
            o = r['outcome']['ok']
            for tag in ('after_pack', 'after_unpack'):
                if tag in o:
                    dist['reassigned'] += 1
                    if o[tag] != o['fresh']:
                        failures.append(dict(kind='oracle', sig='pack-history', what=f"a packet that was {'serialized' if tag == 'after_pack' else 'parsed'} before and then had every field assigned "
                                                  f"serializes to {o[tag]}, a fresh packet holding the same values to {o['fresh']}: pack() depends on what the packet held before",
                                             classes=pktprops.class_source(groups, r['group']), cls=decl.cname(r['c']), before=r['op']['a'], assigned=r['op']['b']))
    for r in records:
        if r['kind'] == 'pack':
            dist['values'] += 1
            table = pktprops.table_of(groups, r['group'])
            if 'ok' not in r['outcome'] and r['group'] == 91000:
                failures.append(dict(kind='oracle', sig='pack-consistent', what=f"an offset table whose two strings do not overlap could not be serialized: {r['outcome']}",
                                     classes=pktprops.class_source(groups, r['group']), cls=decl.cname(r['c']), value=decl.py_value(r['value'])))
            if 'ok' not in r['outcome']:
                dist['not_serializable'] += 1
                positioned = pktprops.has_feature(table, lambda k, x: k == 'move' or (k == 'class' and x.get('align') is not None)
                                                  or (k == 'body' and x[0] == 'seq' and x[6] not in (None, 1)))
                if not positioned and r['group'] < 90000:
                    failures.append(dict(kind='oracle', sig='pack-consistent', what=f"a value consistent with a declaration without positioning could not be serialized: {r['outcome']}",
                                         classes=pktprops.class_source(groups, r['group']), cls=decl.cname(r['c']), value=decl.py_value(r['value'])))
                continue
            dist['packed'] += 1
            out = bytes.fromhex(r['outcome']['ok'])
            want = reference_encoding(table, r['value'], host_big)
            if want is not None:
                dist['reference_encoding_checked'] += 1
                if want != out:
                    failures.append(dict(kind='oracle', sig='pack-concatenation', what='the bytes produced are not the in-order concatenation of the fields\' encodings',
                                         classes=pktprops.class_source(groups, r['group']), cls=decl.cname(r['c']), value=decl.py_value(r['value']),
                                         observed=out.hex(), required=want.hex()))
            else:
                dist['with_positioning'] += 1
        elif r['kind'] == 'extra:consistency':
            o = r['outcome']
            dist['assert_consistency'] = dist.get('assert_consistency', 0) + 1
            consistency[(r['group'], json.dumps(r['op'].get('value'), sort_keys=True))] = o
        elif r['kind'] == 'roundtrip' and r.get('variant') == 'base':
            o = r['outcome']
            v = r['source_value']
            sig = 'D8 regex delimiter not kept in the value: a constructed packet packs without delimiter' if r['group'] == 90000 else 'pack-unpack'
            if 'ok' not in o:
                failures.append(dict(kind='oracle', sig=sig, what=f"unpack(p.pack()) failed for a packet built from consistent values (assert_consistency would raise): {o}",
                                     classes=pktprops.class_source(groups, r['group']), cls=decl.cname(r['c']), value=decl.py_value(v), packed=r['raw'].hex()))
                continue
            parsed = pktprops.uncanon(o['ok'])
            table = pktprops.table_of(groups, r['group'])
            positioned = pktprops.has_feature(table, lambda k, x: k == 'move' or (k == 'class' and x.get('align') is not None)
                                              or (k == 'body' and x[0] == 'seq' and x[6] not in (None, 1)))
            whole = True if positioned else (o['end'] == len(r['raw']))      # with positioning the final cursor need not be the end of the string
            if not same(v, parsed) or not whole:
                failures.append(dict(kind='oracle', sig=sig, what='unpack(p.pack()) does not reproduce the packet field for field / does not consume the whole string',
                                     classes=pktprops.class_source(groups, r['group']), cls=decl.cname(r['c']), value=decl.py_value(v), packed=r['raw'].hex(),
                                     observed=dict(parsed=o['ok'], end=o['end'], length=len(r['raw']))))
            else:
                dist['reparsed_equal'] += 1
                reparse_ok[(r['group'], json.dumps(pktcases.jvalue(v), sort_keys=True))] = True
    # assert_consistency() must return True (and not raise) for every value whose serialization parsed back equal
    for key, ok in reparse_ok.items():
        o = consistency.get(key)
        if o is not None and not (isinstance(o, dict) and o.get('ok', {}).get('dont_raise') is True and o['ok'].get('plain') is True):
            failures.append(dict(kind='oracle', sig='assert-consistency', what=f"unpack(p.pack()) reproduces the packet but assert_consistency() says {o}",
                                 classes=pktprops.class_source(groups, key[0]), value=key[1]))
    # ---- census: on how many of the generated values do the hypotheses of the theorems hold (evaluated in Coq on the model's
    # rendering of the same table and value)?  A value inside the hypotheses that fails the oracle would contradict
    # theorem + correspondence; the census also measures how much of the generated space the theorems speak about.
    census_hdr = ("From Coq Require Import ZArith List Bool.\n"
                  "From Bisturi Require Import Base.Bytes Kernel.IntCodec Kernel.Align Kernel.DataK Model.Value Model.Decl Model.Unpack Model.Pack Model.Init Model.Canon Model.Wf Model.WfBits Model.Consistent Model.ConsistentX "
                  "Proofs.RoundTrip Proofs.PackUnpack Proofs.PackUnpackX.\nImport ListNotations. Open Scope Z_scope.\n"
                  "Definition census (tbl : list (cid * pclass)) (vs : list value) : list Z :=\n"
                  "  let ct := mk_ctab tbl in\n"
                  "  map (fun v => match complete FUEL ct v with\n"
                  "                | Some (VPkt c s) =>\n"
                  "                    (if ct_distinct ct && ct_plain ct && consistent FUEL ct c s then 1 else 0) +\n"
                  "                    (if ct_distinct ct && ct_bits_ok ct && consistentx FUEL ct c s && vclean ct (VPkt c s) then 2 else 0)\n"
                  "                | _ => 0 end) vs.\n")
    by_group = {}
    for r in records:
        if r['kind'] == 'pack' and r['group'] < 90000:
            by_group.setdefault(r['group'], []).append(r)
    files = []
    order = []
    for part_i, part in enumerate(shard(sorted(by_group), max(1, len(by_group) // NPROC + 1))):
        text = [census_hdr]
        calls = []
        for gid in part:
            table = pktprops.table_of(groups, gid)
            text.append(f"Definition T{gid} : list (cid * pclass) := {decl.cq_table(table)}.\n")
            text.append(f"Definition V{gid} : list value := [{'; '.join(decl.cq_value(r['value']) for r in by_group[gid])}].\n")
            calls.append(f"census T{gid} V{gid}")
            order += by_group[gid]
        text.append("Eval vm_compute in (" + " ++ ".join(calls) + ").\n")
        files.append((f"census_{part_i}", "".join(text)))
    outs = coq_eval_files(files)
    codes = []
    for name, _ in files:
        codes += parse_coq_list(outs[name])
    dist['in_sequential_theorem'] = sum(1 for c in codes if c & 1)
    dist['in_extended_theorem'] = sum(1 for c in codes if c & 2)
    dist['census'] = len(codes)
    failing_values = {(f.get('cls'), f.get('value')) for f in failures if f.get('sig') in ('pack-unpack', 'pack-consistent')}
    for r, code in zip(order, codes):
        if code and (decl.cname(r['c']), decl.py_value(r['value'])) in failing_values:
            for f in failures:
                if (f.get('cls'), f.get('value')) == (decl.cname(r['c']), decl.py_value(r['value'])):
                    f['inside_theorem_hypotheses'] = True
    # ---- strings ended by a regex delimiter whose match depends on context (anchors, word boundaries, look-behind), delimiter kept in
    # the value: whether a value satisfies the declaration is decided on the string alone, so every such value must survive
    # pack() / unpack() whatever the previous field serialized to (the bytes before the string are not part of it)
    import re as _re, itertools as _it
    zoo = [rb'(?m)^\.\n', rb'(?<!\r)\n', rb'\bX', rb'^a', rb'(?<=a);', rb'X\b', rb'(?<![a-z])X', rb'\B;']
    alpha = [0x61, 0x3b, 0x58, 0x0a, 0x0d, 0x2e, 0x20]
    zsrc, zcases, zmeta = "", [], []
    for zi, pat in enumerate(zoo):
        zsrc += f"class Z{zi}(Packet):\n    p = Data(1)\n    d = Data(until_marker=re.compile({pat!r}), include_delimiter=True)\n    t = Int(1)\n"
        rx = _re.compile(pat)
        cands = [bytes(t) for L in range(1, 4) for t in _it.product(alpha, repeat=L)]
        good = [d for d in cands if (lambda m: m is not None and m.end() == len(d) and m.end() > 0)(rx.search(d))]
        if tier == 'quick' and len(good) > 12:
            good = good[:4] + rng.sample(good[4:], 8)
        for d in good:
            for pre in (b'\n', b'\r', b'a', b'X', b' '):
                val = f"Z{zi}(p={pre!r}, d={d!r}, t=7)"
                raw = pre + d + b'\x07'
                zcases.append(dict(cls=f"Z{zi}", op='pack', value={"py": val})); zmeta.append(('pack', zi, pat, pre, d, raw, val))
                zcases.append(dict(cls=f"Z{zi}", op='roundtrip', raw=raw.hex(), offset=0)); zmeta.append(('unpack', zi, pat, pre, d, raw, val))
                zcases.append(dict(cls=f"Z{zi}", op='consistency', value={"py": val})); zmeta.append(('consistency', zi, pat, pre, d, raw, val))
    zres = run_impl(os.path.join(VERIF, 'harness', 'impl_pkt.py'), dict(header=decl.HEADER_PY, blocks=[dict(name='zoo', src=zsrc)], modname='c02z', cases=zcases))
    dist['context_sensitive_delimiters'] = len(zcases) // 3
    for (kind, zi, pat, pre, d, raw, val), o in zip(zmeta, zres['outcomes']):
        ok = True
        if kind == 'pack':
            ok = o.get('ok') == raw.hex()
        elif kind == 'unpack':
            ok = 'ok' in o and dict(o['ok']['f']) == {'p': {'x': pre.hex()}, 'd': {'x': d.hex()}, 't': 7} and o.get('end') == len(raw)
        else:
            ok = isinstance(o.get('ok'), dict) and o['ok'].get('dont_raise') is True and o['ok'].get('plain') is True
        if not ok:
            failures.append(dict(kind='oracle', sig='context-delimiter', what=f"{val}: the string ends at the first match of its delimiter in the string itself, but {kind} gives {json.dumps(o)[:300]} (expected encoding {raw.hex()})",
                                 classes="class Z%d(Packet):\n    p = Data(1)\n    d = Data(until_marker=re.compile(%r), include_delimiter=True)\n    t = Int(1)\n" % (zi, pat),
                                 cls=f"Z{zi}", value=val, raw=raw.hex(), offset=0, observed=o))
    # ---- read-to-end strings: every body, those ending in a newline and those longer than the class's search window included, comes
    # back whole (the end of the input is the delimiter, not what the regex "$" matches in python)
    esrc = ("class ELine(Packet):\n    kind = Int(1)\n    text = Data(until_marker=re.compile(b'$'))\n"
            "class EWin(Packet):\n    __bisturi__ = {'search_buffer_length': 3}\n    kind = Int(1)\n    text = Data(until_marker=re.compile(b'$'))\n"
            "class EGen(Packet):\n    __bisturi__ = {'generate_for_pack': False, 'generate_for_unpack': False}\n    kind = Int(1)\n    text = Data(until_marker=re.compile(b'$'))\n"
            "class EHdr(Packet):\n    n = Int(1)\n    k = Data(n)\n"
            "class EMsg(Packet):\n    h = Ref(EHdr)\n    body = Data(until_marker=re.compile(b'$'))\n")
    ebodies = [b'', b'x', b'x\n', b'\n', b'a\n\n', b'\r\n', b'a\nb', b'\nab', b'$', b'abcdefgh\n', b'\x00\xff\n', b'line one\nline two\n']
    ecases, emeta = [], []
    for cls in ('ELine', 'EWin', 'EGen', 'EMsg'):
        for body in ebodies:
            if cls == 'EMsg':
                val = f"EMsg(h=EHdr(n=2, k=b'hi'), body={body!r})"; raw = b'\x02hi' + body
                want = {'h': {'p': 'EHdr', 'f': [['n', 2], ['k', {'x': b'hi'.hex()}]]}, 'body': {'x': body.hex()}}
            else:
                val = f"{cls}(kind=7, text={body!r})"; raw = b'\x07' + body
                want = {'kind': 7, 'text': {'x': body.hex()}}
            for kind, case in (('pack', dict(cls=cls, op='pack', value={"py": val})), ('unpack', dict(cls=cls, op='roundtrip', raw=raw.hex(), offset=0)),
                               ('consistency', dict(cls=cls, op='consistency', value={"py": val}))):
                ecases.append(case); emeta.append((kind, cls, val, raw, want))
    eres = run_impl(os.path.join(VERIF, 'harness', 'impl_pkt.py'), dict(header=decl.HEADER_PY, blocks=[dict(name='eos', src=esrc)], modname='c02e', cases=ecases))
    dist['read_to_end_values'] = len(ecases) // 3
    for (kind, cls, val, raw, want), o in zip(emeta, eres['outcomes']):
        if kind == 'pack':
            ok = o.get('ok') == raw.hex()
        elif kind == 'unpack':
            ok = 'ok' in o and dict(o['ok']['f']) == want and o.get('end') == len(raw)
        else:
            ok = isinstance(o.get('ok'), dict) and o['ok'].get('dont_raise') is True and o['ok'].get('plain') is True
        if not ok:
            failures.append(dict(kind='oracle', sig='read-to-end', what=f"{val}: a read-to-end string takes everything up to the end of the input, but {kind} gives {json.dumps(o)[:300]} (expected encoding {raw.hex()})",
                                 classes=esrc, cls=cls, value=val, raw=raw.hex(), offset=0, observed=o))
    return dict(evaluations=len(records), distinct_nontrivial=dist['packed'],
                rule=("random class tables over the language without regex / read-to-end fields and without a search window, with and without "
                      "positioning, code generation options varied; per class several values consistent with the declaration (lengths, counts, "
                      "until/when conditions, selectors, marker-free bodies, boundary integers, empty lists, absent optionals, nested packets); "
                      "each is constructed, serialized, parsed back and compared field for field, the parse must end at the end of the string; "
                      "for declarations without positioning the bytes must equal the concatenation of independently computed field encodings"),
                samples=[dict(classes=pktprops.class_source(groups, r['group']), value=decl.py_value(r['value']), packed=r['outcome'].get('ok'))
                         for r in records if r['kind'] == 'pack'][:2],
                distribution=dist, failures=failures, disagreements=disagreements)


def replay(f):
    if f.get('sig') == 'pack-history':
        res = run_impl(os.path.join(VERIF, 'harness', 'impl_pkt.py'),
                       dict(header=decl.HEADER_PY, blocks=[dict(name='all', src=f['classes'])], modname='replay',
                            cases=[dict(cls=f['cls'], op='reassign', a=f['before'], b=f['assigned'])]))
        o = res['outcomes'][0]
        still = not ('ok' in o and all(o['ok'].get(t, o['ok']['fresh']) == o['ok']['fresh'] for t in ('after_pack', 'after_unpack')))
        return still, dict(now=o, what=f.get('what'))
    return pktprops.generic_replay(f)
