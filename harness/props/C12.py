"""C12 Every failure is a PacketError that locates the failing field."""
import os, copy
from common import *
import decl, gen, pktcases, pktprops

PID = 'C12'
TARGETS = ['Properties/C12.vo', 'Bridge/ErrorsBridge.vo', 'Bridge/CodegenBridge.vo', 'Bridge/PlumbingBridge.vo', 'Bridge/DataBridge.vo']
KERNELS = ['G8_data', 'G9_errors', 'G11_codegen', 'G17_builder']
PROP_FILE = 'Properties/C12.v'
WHOLE_PACKET = True      # Tie A over all of the pack / unpack machinery (check.py: WHOLE_PACKET_KERNELS)


def corrupt(table, v, rng):
    """a value that cannot be serialized: out-of-range / wrong-typed leaf somewhere inside"""
    if not (isinstance(v, tuple) and v[0] == 'pkt'):
        return None
    c, env = v[1], dict(v[2])
    idx = list(env)
    rng.shuffle(idx)
    for i in idx:
        b = table[c]['fields'][i]['body']
        x = env[i]
        if isinstance(x, tuple) and x[0] == 'pkt' and rng.random() < 0.6:
            y = corrupt(table, x, rng)
            if y is not None:
                env[i] = y
                return ('pkt', c, env)
        if b[0] == 'elem' and b[1][0] == 'leaf' and b[1][1][0] == 'int':
            n8, sg = 8 * b[1][1][1], b[1][1][2]
            # far out of range, and the first values beyond either end of the range of THIS width and signedness
            env[i] = rng.choice([2 ** n8 + 3, -(2 ** n8) - 1, None, b'x'] + ([2 ** (n8 - 1), -(2 ** (n8 - 1)) - 1, 2 ** n8 - 1] if sg else [-1, 2 ** n8, -(2 ** (n8 - 1))]))
            return ('pkt', c, env)
        if b[0] == 'elem' and b[1][0] == 'leaf' and b[1][1][0] in ('dsized', 'dmarker', 'deos'):
            env[i] = rng.choice([None, 7, [], [1, 2]])        # wrong types with and without a length
            return ('pkt', c, env)
        if b[0] == 'seq' and isinstance(x, list):
            if x and isinstance(x[0], tuple) and rng.random() < 0.5:
                y = corrupt(table, x[-1], rng)
                if y is not None:
                    env[i] = x[:-1] + [y]
                    return ('pkt', c, env)
            env[i] = rng.choice([None, 7])
            return ('pkt', c, env)
        if b[0] == 'elem' and b[1][0] == 'refpkt':
            env[i] = rng.choice([None, 3])
            return ('pkt', c, env)
        if b[0] == 'bits':
            env[i] = None
            return ('pkt', c, env)
    return None


def check_stack(table, top, o, phase):
    """shape of a PacketError: phase flag, rendering, one entry per nesting level along Ref / sequence / optional fields"""
    if o.get('err') != phase:
        return f"phase flag says {o.get('err')!r}, the failure happened while {phase}"
    if not o.get('str_ok'):
        return "str(PacketError) failed"
    st = o['stack']
    if not st:
        return "empty fields_stack"
    if st[-1][2] != decl.cname(top):
        return f"the outermost entry names class {st[-1][2]}, the packet is {decl.cname(top)}"
    import re
    for k in range(len(st) - 1, -1, -1):
        off, name, cls = st[k]
        if not (isinstance(off, int) and off >= 0):
            return f"entry {k}: offset {off!r}"
        c = int(cls[1:]) if cls[1:].isdigit() else None
        if c not in table:
            return f"entry {k}: unknown class {cls}"
        m = re.fullmatch(r"f(\d+)|_shift_to_f(\d+)|between 'f(\d+)' and 'f(\d+)'", name)
        if not m:
            return f"entry {k}: {name!r} is not a field (or run of fields) of {cls}"
        idxs = [int(x) for x in m.groups() if x is not None]
        if any(i >= len(table[c]['fields']) for i in idxs):
            return f"entry {k}: {name!r} is not a field of {cls}"
        if k > 0:
            # an outer entry must be a field that holds packets: a reference, possibly repeated or optional
            if m.group(1) is None:
                return f"entry {k}: outer entry {name!r} is not a reference field"
            b = table[c]['fields'][idxs[0]]['body']
            el = b[1] if b[0] in ('elem', 'seq', 'opt') else None
            if el is None or el[0] == 'leaf':
                return f"entry {k}: outer entry {name!r} of {cls} cannot contain a nested packet"
            if el[0] == 'refpkt' and st[k - 1][2] != decl.cname(el[1]) and phase == 'unpacking':
                return f"entry {k}: {name!r} refers to {decl.cname(el[1])} but the inner entry is of {st[k - 1][2]}"
    if phase == 'packing' and len({x[0] for x in st}) != 1:
        return f"serializing: the entries carry different cursors {[x[0] for x in st]}"
    if phase == 'unpacking' and any(a[0] < b[0] for a, b in zip(st, st[1:])) and not pktprops.has_feature(table, lambda k, x: k == 'move' or (k == 'class' and x.get('align')) or (k == 'body' and x[0] == 'seq' and x[6] not in (None, 1))):       # per-element alignment positions too: an element aligned beyond the input holds a read-to-end string that hands back the input's end
        return f"parsing: an inner field begins before the field that contains it {[x[0] for x in st]}"
    return None


def run(tier, seed, rng):
    ng = 60 if tier == 'quick' else 2000
    feats = lambda g: dict(codegen_opts=(g % 2 == 1))

    BAD = {}        # values made unserializable on purpose (kept alive: looked up by identity)

    def extra(G, c, vg, rng):
        v = vg.try_value(c)
        if v is not None:
            for _ in range(2):
                bad = corrupt(G.table, v, rng)
                if bad is not None:
                    G.add_pack(c, bad)
                    BAD[id(bad)] = bad
        G.add_extra(c, dict(op='api', raw=bytes(rng.randrange(256) for _ in range(rng.randrange(4))).hex(), offset=0))
    groups = pktprops.make_groups(rng, ng, feats, values_per_class=2 if tier == 'quick' else 4, offsets=(3,), maxcuts=20, flips=4,
                                  defaults=False, extra=extra)
    # ---- corrupted length fields: a string whose computed size is NEGATIVE must fail AT THAT FIELD (named, at the offset where it
    # begins), directly and one / two references deep; sizes -3..3 given as expression, callable and signed field
    negmeta = {}
    for variant, how in enumerate(('expr', 'lambda', 'field')):
        size = ('field', 0) if how == 'field' else ('bin', 'Sub', ('field', 0), ('lit', 3))
        fields = [{'move': None, 'body': ('elem', ('leaf', ('int', 1, how == 'field', None, 0)))},
                  {'move': None, 'body': ('elem', ('leaf', ('int', 1, False, None, 0)))},
                  {'move': None, 'body': ('elem', ('leaf', ('dsized', size, how, b'')))},
                  {'move': None, 'body': ('elem', ('leaf', ('int', 2, False, None, 0)))}]
        table = {0: dict(end=None, align=None, sbl=None, gp=(variant != 1), gu=(variant != 1), vec=True, ann=True, fields=fields),
                 1: dict(end=None, align=None, sbl=None, gp=True, gu=True, vec=True, ann=True,
                         fields=[{'move': None, 'body': ('elem', ('leaf', ('int', 1, False, None, 0)))}, {'move': None, 'body': ('elem', ('refpkt', 0, {}))}]),
                 2: dict(end=None, align=None, sbl=None, gp=False, gu=False, vec=True, ann=True,
                         fields=[{'move': None, 'body': ('elem', ('leaf', ('int', 2, False, None, 0)))}, {'move': None, 'body': ('elem', ('refpkt', 1, {}))}])}
        G = pktcases.Group(table, 53000 + variant)
        for n in range(-3, 4):
            first = (n % 256) if how == 'field' else n + 3
            body = bytes([first, 0x10]) + b'\xbe\xefwxyz'
            for c, pre in ((0, b''), (1, b'\x01'), (2, b'\x02\x03\x01')):
                G.add_unpack(c, pre + body, 0)
                negmeta[(53000 + variant, c, (pre + body).hex())] = (n, len(pre))
        groups.append(G)
    records, disagreements = pktcases.run_groups(groups, 'c12')
    failures = []
    for r in records:
        if r['group'] >= 53000 and r['kind'] in ('unpack', 'roundtrip') and isinstance(r.get('raw'), bytes):
            key = (r['group'], r['c'], r['raw'].hex())
            if key in negmeta and negmeta[key][0] < 0:
                n, depth_off = negmeta[key]
                o = r['outcome']
                want0 = [depth_off + 2, 'f2', 'K0']
                if o.get('err') != 'unpacking' or list(o['stack'][0]) != want0 or len(o['stack']) != r['c'] + 1:
                    failures.append(dict(kind='oracle', sig='negative-size', what=f"a string whose computed size is {n} must fail at that field: PacketError(unpacking) with innermost entry {want0} and {r['c'] + 1} entries; observed {o}",
                                         classes=pktprops.class_source(groups, r['group']), cls=decl.cname(r['c']), raw=r['raw'].hex(), offset=0, observed=o))
    dist = dict(unpack_errors=0, pack_errors=0, depth2plus=0, struct_run_errors=0, api_cases=0, non_packet_errors=0)
    defined = {(r['group'], r['c']): r['outcome'] == 'ok' for r in records if r['kind'] == 'defined'}
    for r in records:
        o = r['outcome']
        table = pktprops.table_of(groups, r['group'])
        if not all(defined.get((r['group'], c), False) for c in table):
            continue
        if r['kind'] == 'extra:api':
            dist['api_cases'] += 1
            sil = o.get('silent')
            if isinstance(sil, dict) and 'exc' in sil:
                failures.append(dict(kind='oracle', sig='silent', what=f"unpack(..., silent=True) raised {sil['exc']}",
                                     classes=pktprops.class_source(groups, r['group']), case=r['op']))
            if o.get('nonbytes') != ['ValueError'] * 4:
                failures.append(dict(kind='oracle', sig='nonbytes', what=f"input that is not bytes was not rejected with ValueError: {o.get('nonbytes')}",
                                     classes=pktprops.class_source(groups, r['group']), case=r['op']))
            continue
        if r['kind'] == 'pack' and id(r.get('value')) in BAD and isinstance(o.get('ok'), str):
            dist['bad_values_accepted'] = dist.get('bad_values_accepted', 0) + 1
            failures.append(dict(kind='oracle', sig='bad-value-accepted', what=f"a value that does not fit its declaration (out of range by one, wrong type) was serialized to {o['ok']} instead of raising a PacketError",
                                 classes=pktprops.class_source(groups, r['group']), cls=decl.cname(r['c']), value=decl.py_value(r['value']), observed=o))
        outs = []
        if r['kind'] == 'roundtrip':
            outs.append((o, 'unpacking'))
            if 'packed' in o:
                outs.append((o['packed'], 'packing'))
        elif r['kind'] == 'pack':
            outs.append((o, 'packing'))
        for oo, phase in outs:
            if 'exc' in oo:
                dist['non_packet_errors'] += 1
                failures.append(dict(kind='oracle', sig='not-a-PacketError', what=f"{phase}: {oo['exc']} escaped instead of a PacketError: {oo.get('msg')}",
                                     classes=pktprops.class_source(groups, r['group']), cls=decl.cname(r['c']),
                                     case={k: (v.hex() if isinstance(v, bytes) else v) for k, v in r.items() if k in ('raw', 'offset')},
                                     value=decl.py_value(r['value']) if 'value' in r else None))
            elif 'err' in oo:
                dist['unpack_errors' if phase == 'unpacking' else 'pack_errors'] += 1
                dist['depth2plus'] += len(oo['stack']) > 1
                dist['struct_run_errors'] += oo['stack'][0][1].startswith('between')
                why = check_stack(table, r['c'], oo, phase)
                if why:
                    failures.append(dict(kind='oracle', sig='stack', what='PacketError does not locate the failure: ' + why,
                                         classes=pktprops.class_source(groups, r['group']), cls=decl.cname(r['c']),
                                         case={k: (v.hex() if isinstance(v, bytes) else v) for k, v in r.items() if k in ('raw', 'offset')},
                                         value=decl.py_value(r['value']) if 'value' in r else None, observed=oo))
    failures += pktprops.public_api_failures(groups, records)[:20]
    # ---- search: when the model and the implementation disagree on an error stack, establish the failing field's begin on the
    # implementation alone: parse the same input with the class cut before the named field (or run); where that parse ends is
    # where the named field begins
    import re as _re, copy as _copy
    cand = [d for d in disagreements if d['case'].get('kind') == 'roundtrip' and isinstance(d['case'].get('outcome'), dict)
            and d['case']['outcome'].get('err') == 'unpacking' and len(d['case']['outcome']['stack']) == 1][:8]
    for d in cand:
        r = records[d['index']]
        off_rep, name, cls = r['outcome']['stack'][0]
        m = _re.fullmatch(r"f(\d+)|between 'f(\d+)' and 'f\d+'", name)
        if not m:
            continue
        i = int(m.group(1) or m.group(2))
        table = _copy.deepcopy(pktprops.table_of(groups, r['group']))
        table[r['c']]['fields'] = table[r['c']]['fields'][:i]
        if any(fd['body'][0] == 'bits' for fd in table[r['c']]['fields'][-1:]) or i == 0:
            begin = r['offset'] if i == 0 else None
        else:
            G = pktcases.Group(table, 0)
            res = run_impl(os.path.join(VERIF, 'harness', 'impl_pkt.py'),
                           dict(header=decl.HEADER_PY, blocks=G.blocks(), modname='c12s',
                                cases=[dict(cls=decl.cname(r['c']), op='roundtrip', raw=r['raw'].hex(), offset=r['offset'])]))
            begin = res['outcomes'][0].get('end')
        if begin is not None and begin != off_rep:
            failures.append(dict(kind='oracle', sig='stack-offset', what=f"PacketError says field {name!r} of {cls} begins at {off_rep}, but the fields before it end at {begin}",
                                 classes=pktprops.class_source(groups, r['group']), cls=cls, case=dict(raw=r['raw'].hex(), offset=r['offset']),
                                 observed=r['outcome']))
    # ---- the same when serializing: the failing field begins where the cursor stands after the fields before it (and its own
    # positioning) have been serialized; established on the implementation with the class cut there
    candp = []
    for d in disagreements:
        cs = d['case']
        oo = cs.get('outcome') if isinstance(cs.get('outcome'), dict) else None
        if cs.get('kind') == 'roundtrip' and oo and isinstance(oo.get('packed'), dict):
            oo = oo['packed']
        if oo and oo.get('err') == 'packing' and len(oo['stack']) == 1:
            candp.append((d, oo))
    for d, oo in candp[:8]:
        r = records[d['index']]
        off_rep, name, cls = oo['stack'][0]
        m = _re.fullmatch(r"f(\d+)|between 'f(\d+)' and 'f\d+'", name)
        if not m or cls != decl.cname(r['c']):
            continue
        i = int(m.group(1) or m.group(2))
        value = r['value'] if r['kind'] == 'pack' else pktprops.uncanon(r['outcome'].get('ok'))
        if not (isinstance(value, tuple) and value[0] == 'pkt'):
            continue
        table = _copy.deepcopy(pktprops.table_of(groups, r['group']))
        fs = table[r['c']]['fields']
        if fs[i]['body'][0] == 'bits' or (i > 0 and fs[i - 1]['body'][0] == 'bits'):
            continue
        table[r['c']]['fields'] = fs[:i] + ([dict(move=fs[i]['move'], body=('em',))] if fs[i].get('move') else [])
        G = pktcases.Group(table, 0)
        cut = ('pkt', value[1], {k: v for k, v in value[2].items() if k < i})
        try:
            res = run_impl(os.path.join(VERIF, 'harness', 'impl_pkt.py'),
                           dict(header=decl.HEADER_PY, blocks=G.blocks(), modname='c12p',
                                cases=[dict(cls=decl.cname(r['c']), op='pack_cursor', value=pktcases.jvalue(cut))]))
        except Exception:
            continue
        begin = res['outcomes'][0].get('cursor')
        if begin is not None and begin != off_rep:
            failures.append(dict(kind='oracle', sig='stack-offset-pack', what=f"serializing: PacketError says field {name!r} of {cls} begins at {off_rep}, but after the fields before it (and its positioning) the cursor stands at {begin}",
                                 classes=pktprops.class_source(groups, r['group']), cls=cls, value=decl.py_value(value), observed=oo))
    # ---- a value of the wrong type that HAS a length (str, tuple, list, bytearray is fine) in every kind of byte-string field, at nesting
    # depth 0..2: serializing must fail with a PacketError (packing) that names the field, never with a bare TypeError from the buffer
    wsrc = ("class WSized(Packet):\n    n = Int(1)\n    d = Data(n)\n    t = Int(1)\n"
            "class WExpr(Packet):\n    n = Int(1)\n    d = Data(n + 1)\n    t = Int(1)\n"
            "class WCall(Packet):\n    n = Int(1)\n    d = Data(lambda pkt, **k: pkt.n)\n"
            "class WIncl(Packet):\n    d = Data(until_marker=b';', include_delimiter=True)\n    t = Int(1)\n"
            "class WMark(Packet):\n    d = Data(until_marker=b';')\n    t = Int(1)\n"
            "class WRegx(Packet):\n    d = Data(until_marker=re.compile(b'X+'), include_delimiter=True)\n"
            "class WEos(Packet):\n    t = Int(1)\n    d = Data(until_marker=re.compile(b'$'))\n"
            "class WFix(Packet):\n    t = Int(1)\n    d = Data(3)\n")
    wkinds = ['WSized', 'WExpr', 'WCall', 'WIncl', 'WMark', 'WRegx', 'WEos', 'WFix']
    for k in wkinds:
        wsrc += f"class In{k}(Packet):\n    h = Int(1)\n    r = Ref({k})\nclass Seq{k}(Packet):\n    c = Int(1)\n    rs = Ref(In{k}).repeated(c)\n"
    wcases, wmeta = [], []
    for k in wkinds:
        for bad in ("'ab'", "''", "['a']", "[]", "(1, 2)", "()", "'ab;'", "'X'"):
            wcases.append(dict(cls=k, op='pack', value={"py": f"{k}(d={bad})"})); wmeta.append((k, 1, bad))
            wcases.append(dict(cls='In' + k, op='pack', value={"py": f"In{k}(r={k}(d={bad}))"})); wmeta.append((k, 2, bad))
            wcases.append(dict(cls='Seq' + k, op='pack', value={"py": f"Seq{k}(c=2, rs=[In{k}(), In{k}(r={k}(d={bad}))])"})); wmeta.append((k, 3, bad))
    wres = run_impl(os.path.join(VERIF, 'harness', 'impl_pkt.py'), dict(header=decl.HEADER_PY, blocks=[dict(name='wrongtype', src=wsrc)], modname='c12w', cases=wcases))
    dist['wrong_typed_strings'] = len(wcases)
    for (k, depth, bad), o, cse in zip(wmeta, wres['outcomes'], wcases):
        ok = o.get('err') == 'packing' and o.get('str_ok') and len(o['stack']) == depth and (o['stack'][0][1] == 'd' or (k == 'WFix' and o['stack'][0][1] == "between 't' and 'd'")) and o['stack'][0][2] == k
        if not ok:
            failures.append(dict(kind='oracle', sig='wrong-typed-string', what=f"serializing {cse['value']['py']} must fail with a PacketError (packing) whose innermost entry names field 'd' of {k} below {depth - 1} enclosing entries; observed {json.dumps(o)[:300]}",
                                 classes=wsrc, cls=cse['cls'], value=cse['value']['py'], observed=o))
    # ---- rendering never fails, whatever the text of the wrapped error: user callables raising with awkward messages
    msgs = ['100% wrong', '%s %d %(x)s', '%', 'ends with %', '{0} {x} {', '}', 'caf\xe9 \u2603 \U0001f600', 'x' * 5000, 'nul \x00 byte', 'line\nbreak',
            "unsupported operand type(s) for %: 'int' and 'NoneType'", '%%', '%(', '\\', '']
    hdr = decl.HEADER_PY + "from bisturi.field import Data\nMSGS = " + repr(msgs) + "\ndef _boom(i):\n    raise ValueError(MSGS[i])\n"
    src = ""
    for i in range(len(msgs)):
        src += (f"class M{i}(Packet):\n    a = Int(1)\n    d = Data(lambda pkt, raw=b'', offset=0, **k: _boom({i}))\n"
                f"class N{i}(Packet):\n    h = Int(1)\n    m = Ref(M{i})\n")
    mres = run_impl(os.path.join(VERIF, 'harness', 'impl_pkt.py'),
                    dict(header=hdr, blocks=[dict(name='msgs', src=src)], modname='c12m',
                         cases=[dict(cls=f"{k}{i}", op='unpack', raw='0102030405') for i in range(len(msgs)) for k in 'MN']))
    dist['awkward_messages'] = 0
    for (i, k), o in zip([(i, k) for i in range(len(msgs)) for k in 'MN'], mres['outcomes']):
        dist['awkward_messages'] += 1
        if not (o.get('err') == 'unpacking' and o.get('str_ok') and len(o.get('stack', [])) == (1 if k == 'M' else 2)):
            failures.append(dict(kind='oracle', sig='render', what=f"a failure whose cause reads {msgs[i][:60]!r} is not reported as a PacketError that renders as a string",
                                 classes=f"class M(Packet): a = Int(1); d = Data(lambda ...: raise ValueError({msgs[i][:60]!r}))" + ("; class N(Packet): h = Int(1); m = Ref(M)" if k == 'N' else ''),
                                 observed=o))
    # ---- a packet class that references ITSELF (linked list): one stack entry per enclosing reference, however deep, on both
    # directions (when serializing every entry carries the same cursor and the same field and class names)
    rsrc = ("class Node(Packet):\n    more = Int(1)\n    value = Int(1)\n    nxt = Ref(lambda **k: Node(), default=0).when(more)\n")
    rcases, rwant = [], []
    for depth in range(1, 7):
        raw = b''.join(bytes([1 if i < depth - 1 else 0, 10 + i]) for i in range(depth))
        rcases.append(dict(cls='Node', op='unpack', raw=raw[:-1].hex())); rwant.append(('unpacking', depth))
        val = "None"
        for i in reversed(range(depth)):
            val = f"Node(more={1 if i < depth - 1 else 0}, value={300 if i == depth - 1 else 10 + i}, nxt={val})"
        rcases.append(dict(cls='Node', op='pack', value={"py": val})); rwant.append(('packing', depth))
    rres = run_impl(os.path.join(VERIF, 'harness', 'impl_pkt.py'), dict(header=decl.HEADER_PY, blocks=[dict(name='rec', src=rsrc)], modname='c12r', cases=rcases))
    dist['recursive_class_cases'] = len(rcases)
    for c, o, (phase, depth) in zip(rcases, rres['outcomes'], rwant):
        st = o.get('stack', [])
        ok = o.get('err') == phase and o.get('str_ok') and len(st) == depth and 'value' in st[0][1] and all(x[1] == 'nxt' for x in st[1:]) and all(x[2] == 'Node' for x in st)
        if not ok:
            failures.append(dict(kind='oracle', sig='stack-recursive', what=f"a failure {depth} levels deep in a self-referencing packet class ({phase}) must carry {depth} stack entries: the failing field then one per enclosing reference",
                                 classes=rsrc, cls='Node', case={k: v for k, v in c.items() if k in ('raw', 'value')}, observed=o))
    # ---- moves to a LITERAL position that ends below 0 (documented negative shift after a short string, at(-1) in a packet that starts
    # at offset 0), generated code against its interpreted twin, both directions, top level / nested / in a sequence: the innermost
    # entry names the positioning field at the offset where it BEGINS (never the negative target)
    def _mv(sfx, conf):
        return (f"class Tagged{sfx}(Packet):\n{conf}    name = Data(until_marker=b'\\0')\n    tag = Data(2).shift(-3)\n"
                f"class Envelope{sfx}(Packet):\n{conf}    kind = Int(1)\n    body = Ref(Tagged{sfx})\n"
                f"class Peek{sfx}(Packet):\n{conf}    prev = Int(1).at(-1)\n    cur = Int(1)\n"
                f"class Holder{sfx}(Packet):\n{conf}    pad = Data(2)\n    peeks = Ref(Peek{sfx}).repeated(2)\n"
                f"class Back{sfx}(Packet):\n{conf}    a = Int(1)\n    b = Int(2).shift(-4)\n    c = Int(1).at(-2)\n")
    msrc = _mv('', '') + _mv('L', "    __bisturi__ = {'generate_for_pack': False, 'generate_for_unpack': False}\n")
    mcases, mwant = [], []
    for sfx in ('', 'L'):
        for L in range(0, 4):
            nm = b'abc'[:L]
            for off in (0, 1, 3):
                raw = b'..:'[:off] + nm + b'\x00' + b'zz'
                mcases.append(dict(cls='Tagged' + sfx, op='unpack_end', raw=raw.hex(), offset=off)); mwant.append((off + L + 1, off + L - 2, 1))
                raw = b'..:'[:off] + b'\x05' + nm + b'\x00' + b'zz'
                mcases.append(dict(cls='Envelope' + sfx, op='unpack_end', raw=raw.hex(), offset=off)); mwant.append((off + 1 + L + 1, off + 1 + L - 2, 2))
            mcases.append(dict(cls='Tagged' + sfx, op='pack', value={"py": f"Tagged{sfx}(name={nm!r}, tag=b'xy')"})); mwant.append((L + 1, L - 2, 1))
            mcases.append(dict(cls='Envelope' + sfx, op='pack', value={"py": f"Envelope{sfx}(kind=5, body=Tagged{sfx}(name={nm!r}, tag=b'xy'))"})); mwant.append((1 + L + 1, 1 + L - 2, 2))
        for off in (0, 1, 2):
            mcases.append(dict(cls='Peek' + sfx, op='unpack_end', raw=b'abcd'.hex(), offset=off)); mwant.append((off, off - 1, 1))
            mcases.append(dict(cls='Holder' + sfx, op='unpack_end', raw=b'abcdefgh'.hex(), offset=off)); mwant.append((off + 2, off + 1, 2))
            mcases.append(dict(cls='Back' + sfx, op='unpack_end', raw=b'abcdefgh'.hex(), offset=off)); mwant.append((off + 1, off - 3, 1))
        mcases.append(dict(cls='Peek' + sfx, op='pack', value={"py": f"Peek{sfx}(prev=1, cur=2)"})); mwant.append((0, -1, 1))
        mcases.append(dict(cls='Holder' + sfx, op='pack', value={"py": f"Holder{sfx}(pad=b'pp', peeks=[Peek{sfx}(prev=1, cur=2), Peek{sfx}(prev=3, cur=4)])"})); mwant.append((2, 1, 2))
        mcases.append(dict(cls='Back' + sfx, op='pack', value={"py": f"Back{sfx}(a=1, b=2, c=3)"})); mwant.append((1, -3, 1))
    mres = run_impl(os.path.join(VERIF, 'harness', 'impl_pkt.py'), dict(header=decl.HEADER_PY, blocks=[dict(name='negmove', src=msrc)], modname='c12m', cases=mcases))
    dist['negative_literal_move_cases'] = len(mcases)
    half = len(mcases) // 2
    for i, (c, o, (begin, target, depth)) in enumerate(zip(mcases, mres['outcomes'], mwant)):
        bad = None
        if target < 0:
            st = o.get('stack', [])
            if not (o.get('err') in ('packing', 'unpacking') and o.get('str_ok') and len(st) == depth and st[0][0] == begin and st[0][1].startswith('_shift_to_')):
                bad = f"the move ends at {target} < 0: a PacketError whose innermost entry names the positioning field at offset {begin}, {depth} entries"
        elif 'ok' not in o and c['op'] != 'pack':     # (serializing back over bytes already written is a collision)
            bad = f"the move ends at {target} >= 0: no error"
        twin = mres['outcomes'][i + half] if i < half else None
        if bad is None and twin is not None and (target < 0 or 'ok' in o or 'ok' in twin) and json.dumps(o).replace('L"', '"') != json.dumps(twin).replace('L"', '"'):
            bad = f"generated code and the interpreted twin report differently: {str(twin)[:200]}"
        if bad:
            failures.append(dict(kind='oracle', sig='stack-negative-literal-move', what=bad, classes=msrc, cls=c['cls'], case={k: v for k, v in c.items() if k in ('raw', 'value', 'offset')}, observed=o))
    # ---- serializing: a field placed BEFORE everything written so far and long enough to run into the first fragment (the first
    # thing packed does not start at the lowest offset): a collision like any other -- PacketError (packing) naming that field,
    # one entry per enclosing reference / sequence; lengths that just fit pack fine
    def _vc(sfx, conf):
        src = ""
        for L in (1, 2, 3, 4, 7):
            src += (f"class Vec{L}{sfx}(Packet):\n{conf}    data = Data(4).at(2)\n    tag = Data({L}).at(0)\n"
                    f"class VHold{L}{sfx}(Packet):\n{conf}    vec = Ref(Vec{L}{sfx})\n"
                    f"class VTens{L}{sfx}(Packet):\n{conf}    vecs = Ref(Vec{L}{sfx}).repeated(2)\n"
                    f"class VMid{L}{sfx}(Packet):\n{conf}    h = Int(1).at(9)\n    vec = Ref(Vec{L}{sfx}).at(1)\n")
        return src
    vsrc = _vc('', '') + _vc('L', "    __bisturi__ = {'generate_for_pack': False, 'generate_for_unpack': False}\n")
    vcases, vwant = [], []
    for sfx in ('', 'L'):
        for L in (1, 2, 3, 4, 7):
            v = f"Vec{L}{sfx}(data=b'DDDD', tag={b'T' * L!r})"
            for cls, val, depth in ((f"Vec{L}{sfx}", v, 1), (f"VHold{L}{sfx}", f"VHold{L}{sfx}(vec={v})", 2), (f"VTens{L}{sfx}", f"VTens{L}{sfx}(vecs=[{v}, {v}])", 2), (f"VMid{L}{sfx}", f"VMid{L}{sfx}(h=1, vec={v})", 2)):
                if L <= 2 and cls.startswith('VTens'):
                    continue        # (the second element would begin where the first one's LAST field ended: inside its data)
                vcases.append(dict(cls=cls, op='pack', value={"py": val})); vwant.append((L, depth, sfx))
    vres = run_impl(os.path.join(VERIF, 'harness', 'impl_pkt.py'), dict(header=decl.HEADER_PY, blocks=[dict(name='before', src=vsrc)], modname='c12v', cases=vcases))
    dist['placed_before_first_fragment_cases'] = len(vcases)
    for c, o, (L, depth, sfx) in zip(vcases, vres['outcomes'], vwant):
        st = o.get('stack', [])
        if L <= 2:
            ok = 'ok' in o
            what = f"a field of {L} bytes placed at 0 before a field placed at 2: no collision, pack() succeeds"
        else:
            ok = (o.get('err') == 'packing' and o.get('str_ok') and len(st) == depth and 'tag' in st[0][1] and st[0][2] == f"Vec{L}{sfx}")
            what = f"a field of {L} bytes placed at 0 runs into the field placed at 2: PacketError (packing) naming 'tag' of Vec{L}{sfx}, {depth} stack entries"
        if not ok:
            failures.append(dict(kind='oracle', sig='collision-before-first-fragment', what=what, classes='class ' + 'class '.join(x for x in vsrc.split('class ') if x.startswith((f"Vec{L}{sfx}(", c['cls'] + '('))),
                                 cls=c['cls'], case=dict(value=c['value']['py']), observed=o))
    # ---- finding D12: descriptor hooks run outside the wrapped region
    probe = run_impl(os.path.join(VERIF, 'harness', 'impl_d12.py'), {})
    for cls, bad, what in probe:
        if what != 'PacketError':
            failures.append(dict(kind='oracle', sig='D12 descriptor hook raises outside the wrapped region' if bad != 'explicit' else 'hook-explicit',
                                 what=f"{cls}: length = Int(1).describe(AutoLength('a')); a = Data(length); p.a = {bad}; p.pack() -> {what}, not a PacketError"))
    return dict(evaluations=len(records), distinct_nontrivial=dist['unpack_errors'] + dist['pack_errors'],
                rule=("random class tables, generated and generic code; failing inputs: every truncation (cap 20) of valid encodings, byte flips "
                      "(corrupted lengths/counts/selectors), at a start offset; failing values: out-of-range and wrong-typed integers, strings, "
                      "lists, nested packets at any depth; every error must be a PacketError with the right phase flag, render as a string, and "
                      "its stack must follow the declaration (one entry per nesting level along reference fields); silent=True and non-bytes input"),
                samples=[r['outcome'] for r in records if isinstance(r['outcome'], dict) and r['outcome'].get('err') and len(r['outcome']['stack']) > 1][:3],
                distribution=dist, failures=failures, disagreements=disagreements, d12_probe=probe)


def replay(f):
    return pktprops.generic_replay(f)
