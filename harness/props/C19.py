"""C19 Default-constructed packets hold the declared defaults."""
import os, sys, itertools, json
from common import *
import decl, gen, pktcases, pktprops

PID = 'C19'
TARGETS = ['Properties/C19.vo', 'Bridge/EqBridge.vo', 'Bridge/InitBridge.vo', 'Bridge/RefBridge.vo', 'Bridge/PlumbingBridge.vo', 'Bridge/MiscPacketBridge.vo']
KERNELS = ['G10_eq', 'G15_init', 'G15b_init_structural', 'G16_ref', 'G16c_prototype', 'G17_builder', 'G19_field_ctor', 'G20b_packet_misc']
PROP_FILE = 'Properties/C19.v'
WHOLE_PACKET = True      # Tie A over all of the pack / unpack machinery (check.py: WHOLE_PACKET_KERNELS)


def expected(table, c, kw, depth=0):
    """the property, from the declaration: canonical value of Cls(**kw)"""
    fs = []
    for i, fd in enumerate(table[c]['fields']):
        b = fd['body']
        name = f"f{i}"
        if fd.get('move') or table[c].get('align') is not None:
            fs.append([f"_shift_to_f{i}", {"unset": True}])
        if b[0] == 'em':
            fs.append([name, {"unset": True}])
            continue
        if i in kw:
            fs.append([name, canon_of(table, kw[i], depth)])
            continue
        if b[0] == 'bits':
            v = b[2]
        elif b[0] == 'seq':
            v = b[5] if b[5] is not None else []
        elif b[0] == 'opt':
            v = b[3]
        else:
            el = b[1]
            if el[0] == 'leaf':
                l = el[1]
                if l[0] == 'int':
                    v = l[4]
                elif l[0] == 'dsized':
                    v = l[3] if (l[3] or l[2] != 'const') else b'\x00' * l[1][1]
                elif l[0] == 'deos':
                    v = l[1]
                else:
                    v = l[3]
            elif el[0] == 'refpkt':
                v = ('pkt', el[1], el[2])
            else:
                v = el[3]
        fs.append([name, canon_of(table, v, depth)])
    return {"p": decl.cname(c), "f": fs}


def canon_of(table, v, depth=0):
    if isinstance(v, tuple) and v[0] == 'pkt':
        return expected(table, v[1], v[2], depth + 1)
    if isinstance(v, bytes):
        return {"x": v.hex()}
    if isinstance(v, list):
        return [canon_of(table, x, depth) for x in v]
    if isinstance(v, bool):
        return int(v)
    return v


def explicit(table, v):
    """the same packet with every default spelled out as a keyword"""
    if isinstance(v, tuple) and v[0] == 'pkt':
        c, kw = v[1], v[2]
        out = {}
        for i, fd in enumerate(table[c]['fields']):
            b = fd['body']
            if b[0] == 'em':
                continue
            if i in kw:
                out[i] = explicit(table, kw[i])
            elif b[0] == 'bits':
                out[i] = b[2]
            elif b[0] == 'seq':
                out[i] = explicit(table, b[5] if b[5] is not None else [])
            elif b[0] == 'opt':
                out[i] = explicit(table, b[3])
            else:
                el = b[1]
                if el[0] == 'leaf':
                    l = el[1]
                    out[i] = l[4] if l[0] == 'int' else ((l[3] if (l[3] or l[2] != 'const') else b'\x00' * l[1][1]) if l[0] == 'dsized'
                                                          else (l[1] if l[0] == 'deos' else l[3]))
                elif el[0] == 'refpkt':
                    out[i] = explicit(table, ('pkt', el[1], el[2]))
                else:
                    out[i] = explicit(table, el[3])
        return ('pkt', c, out)
    if isinstance(v, list):
        return [explicit(table, x) for x in v]
    return v


def run(tier, seed, rng):
    ng = 60 if tier == 'quick' else 1500
    groups = []
    meta = []
    for gid in range(ng):
        g = gen.Gen(rng, dict(defaults=True))
        table = g.make_table(rng.choice([2, 3, 4]))
        # user-supplied defaults for repeated and optional fields too
        for c, pc in table.items():
            for fd in pc['fields']:
                b = fd['body']
                if b[0] == 'seq' and b[1][0] == 'leaf' and b[1][1][0] == 'int' and rng.random() < 0.4:
                    fd['body'] = b[:5] + ([rng.randrange(3) for _ in range(rng.randrange(3))],) + b[6:]
                if b[0] == 'opt' and b[1][0] == 'leaf' and b[1][1][0] == 'int' and rng.random() < 0.4:
                    fd['body'] = b[:3] + (rng.randrange(5),)
        G = pktcases.Group(table, gid)
        G.local = (gid % 4 == 3)       # a quarter of the tables: classes declared inside a function (prototypes cloned from the live object)
        vg = gen.ValGen(rng, table)
        for c in table:
            names = [i for i, fd in enumerate(table[c]['fields']) if fd['body'][0] != 'em']
            v = vg.try_value(c)
            subsets = [()] + [(i,) for i in names[:6]]
            if v is not None and len(names) <= 6:
                subsets = [s for k in range(len(names) + 1) for s in itertools.combinations(names, k)]
            # a keyword may also carry None (or another falsy value): it still overrides the field it names
            for i in names[:6]:
                for falsy in (None, 0, b'', []):
                    G.add_default(c, {i: falsy}, tag='falsy')
            # a second default-constructed packet after the first one was mutated in place (lists grown, nested packets changed)
            G.add_extra(c, dict(op='default_after', value=pktcases.jvalue(('pkt', c, {}))))
            for sub in subsets:
                kw = {i: v[2][i] for i in sub if v is not None and i in v[2]}
                G.add_default(c, kw)
                G.add_pack(c, ('pkt', c, kw))
                G.add_pack(c, explicit(table, ('pkt', c, kw)))
                meta.append((gid, c, kw))
        groups.append(G)
    records, disagreements = pktcases.run_groups(groups, 'c19')
    failures = []
    falsy_checked = 0
    for r in records:
        if r['kind'] == 'default' and r.get('tag') == 'falsy':
            table = pktprops.table_of(groups, r['group'])
            want = expected(table, r['c'], r['value'][2])
            falsy_checked += 1
            if r['outcome'].get('ok') != want and 'exc' not in r['outcome']:
                failures.append(dict(kind='oracle', sig='defaults-falsy-keyword', what='a keyword argument with a falsy value (None, 0, b"", []) did not override the field it names',
                                     classes=pktprops.class_source(groups, r['group']), cls=decl.cname(r['c']),
                                     keywords=decl.py_value(r['value']), observed=r['outcome'], required=want))
    after = 0
    for r in records:
        if r['kind'] == 'extra:default_after' and isinstance(r['outcome'], dict) and 'ok' in r['outcome']:
            table = pktprops.table_of(groups, r['group'])
            want = expected(table, r['c'], {})
            after += 1
            if r['outcome']['ok'] != want:
                failures.append(dict(kind='oracle', sig='defaults-after-mutation', what='a packet constructed after another default-constructed packet was mutated in place does not hold the declared defaults',
                                     classes=pktprops.class_source(groups, r['group']), cls=decl.cname(r['c']), observed=r['outcome'], required=want))
    # ---- prototypes whose own fields are described (Auto / AutoLength): the default of the reference is a COPY of the prototype,
    # hidden descriptor state included (a field pinned by keyword in the prototype stays pinned in every default copy)
    psrc = ("from bisturi.descriptor import AutoLength\n"
            "class Chunk(Packet):\n    length = Int(1).describe(AutoLength('payload'))\n    payload = Data(length, default=b'abc')\n")
    pins = [None, 0, 3, 5]
    for i, pin in enumerate(pins):
        arg = '' if pin is None else f"length={pin}"
        psrc += f"class Outer{i}(Packet):\n    tag = Int(1, default=170)\n    chunk = Ref(Chunk({arg}))\n"
        psrc += f"class Deep{i}(Packet):\n    o = Ref(Outer{i})\n    t = Int(1)\n"
    # a run-time selected reference whose declared default is a packet instance: the default is a copy of that instance
    psrc += ("class Plain(Packet):\n    n = Int(1, default=7)\n    m = Int(2, default=515)\n"
             "class SelD(Packet):\n    t = Int(1)\n    a = Ref(t.chooses({3: Plain(), 4: Int(2)}), default=Plain(n=9))\n    z = Int(1, default=1)\n"
             "class SelL(Packet):\n    t = Int(1)\n    a = Ref(lambda pkt, **k: Plain() if pkt.t == 3 else Int(2), default=Plain(m=2))\n")
    # a described field that reaches a class through Ref(.., embed=True): keywords naming it override it, others leave it computed
    for k, conf in (('EmbG', '{}'), ('EmbL', "{'generate_for_pack': False, 'generate_for_unpack': False}")):
        psrc += f"class {k}(Packet):\n    __bisturi__ = {conf}\n    magic = Int(1, default=202)\n    body = Ref(Chunk, embed=True)\n    crc = Int(1)\n"
    ecases, ewant = [], []
    for k in ('EmbG', 'EmbL'):
        for kw, (ln, pl) in (("", (3, b'abc')), ("length=5", (5, b'abc')), ("length=0", (0, b'abc')), ("payload=b'zz'", (2, b'zz')),
                             ("length=7, payload=b'q'", (7, b'q')), ("crc=9, length=1", (1, b'abc')), ("payload=b''", (0, b''))):
            crc = 9 if 'crc=9' in kw else 0
            ecases.append(dict(cls=k, op='default', value={"py": f"(lambda p: [p.magic, p.length, p.payload, p.crc])({k}({kw}))"}))
            ewant.append([202, ln, {"x": pl.hex()}, crc])
            ecases.append(dict(cls=k, op='pack', value={"py": f"{k}({kw})"}))
            ewant.append((bytes([202, ln]) + pl + bytes([crc])).hex())
    eres = run_impl(os.path.join(VERIF, 'harness', 'impl_pkt.py'), dict(header=decl.HEADER_PY, blocks=[dict(name='protos', src=psrc)], modname='c19e', cases=ecases))
    for c, o, w in zip(ecases, eres['outcomes'], ewant):
        if o.get('ok') != w:
            failures.append(dict(kind='oracle', sig='defaults-embedded-descriptor', what='a packet that embeds (embed=True) a packet with a described field: the constructed packet does not hold the declared defaults / the keyword values',
                                 classes=psrc, cls=c['cls'], case=c['value'], observed=o, required=w))
    # a fixed-size string whose declared default is SHORTER (or longer) than the size: the constructed packet holds the declared
    # default itself (what pack() makes of a wrong-sized value is finding D11 and not looked at here)
    psrc += ("class Short(Packet):\n    tag = Data(4, default=b'ab')\n    z = Int(1)\n    w = Data(2, default=b'xyz')\n"
             "class ShortL(Packet):\n    __bisturi__ = {'generate_for_pack': False, 'generate_for_unpack': False}\n    tag = Data(4, default=b'ab')\n    z = Int(1)\n"
             "class HasShort(Packet):\n    h = Int(1)\n    s = Ref(Short)\n    t = Ref(ShortL(z=5))\n")
    # a prototype given as an INSTANCE the user keeps: the declared default is the instance as it was when the class was declared,
    # whatever happens to the user's object afterwards
    psrc += ("TPL = Plain(n=9)\nBAG = HasShort(h=4)\n"
             "class UsesTpl(Packet):\n    a = Ref(TPL)\n    g = Ref(BAG)\n    b = Int(1)\n"
             "class UsesTpl2(Packet):\n    a = TPL\n    b = Int(1)\n"
             "TPL.n = 33\nTPL.m = 1\nBAG.h = 77\nBAG.s.z = 6\n")
    hcases_extra = [dict(cls='UsesTpl', op='default', value={"py": "[UsesTpl().a.n, UsesTpl().a.m, UsesTpl().g.h, UsesTpl().g.s.z, UsesTpl(b=2).a.n]"}),
                    dict(cls='UsesTpl2', op='default', value={"py": "[UsesTpl2().a.n, UsesTpl2().a.m]"})]
    hwant_extra = [[9, 515, 4, 0, 9], [9, 515]]
    hcases = [dict(cls='Short', op='default', value={"py": "[Short().tag, Short().w, Short(z=3).tag, Short(tag=b'ab').tag, Short(tag=b'abcd').tag]"}),
              dict(cls='ShortL', op='default', value={"py": "[ShortL().tag, ShortL(z=3).tag, ShortL().z]"}),
              dict(cls='HasShort', op='default', value={"py": "[HasShort().s.tag, HasShort().s.w, HasShort().t.tag, HasShort().t.z, HasShort(h=2).s.tag]"})]
    hwant = [[{"x": b'ab'.hex()}, {"x": b'xyz'.hex()}, {"x": b'ab'.hex()}, {"x": b'ab'.hex()}, {"x": b'abcd'.hex()}],
             [{"x": b'ab'.hex()}, {"x": b'ab'.hex()}, 0],
             [{"x": b'ab'.hex()}, {"x": b'xyz'.hex()}, {"x": b'ab'.hex()}, 5, {"x": b'ab'.hex()}]]
    hcases += hcases_extra
    hwant += hwant_extra
    hres = run_impl(os.path.join(VERIF, 'harness', 'impl_pkt.py'), dict(header=decl.HEADER_PY, blocks=[dict(name='protos', src=psrc)], modname='c19h', cases=hcases))
    for c, o, w in zip(hcases, hres['outcomes'], hwant):
        if o.get('ok') != w:
            failures.append(dict(kind='oracle', sig='defaults-short-string', what='a fixed-size string with a declared default of another length: the constructed packet must hold the declared default itself',
                                 classes=psrc, cls=c['cls'], case=c['value'], observed=o, required=w))
    scases = [dict(cls='SelD', op='default', value={"py": "[SelD().a.n, SelD().a.m, SelD().z, SelD().a is not SelD().a]"}),
              dict(cls='SelD', op='pack', value={"py": "SelD()"}),
              dict(cls='SelL', op='default', value={"py": "[SelL().a.n, SelL().a.m, SelL().a is not SelL().a]"}),
              dict(cls='SelL', op='pack', value={"py": "SelL()"})]
    swant = [[9, 515, 1, 1], bytes([0, 9, 2, 3, 1]).hex(), [7, 2, 1], bytes([0, 7, 0, 2]).hex()]
    pcases = [dict(cls=f"{k}{i}", op='default', value={"py": f"{k}{i}()" + ('.o' if k == 'Deep' else '') + ".chunk.length"}) for i in range(len(pins)) for k in ('Outer', 'Deep')] + \
             [dict(cls=f"{k}{i}", op='pack', value={"py": f"{k}{i}()"}) for i in range(len(pins)) for k in ('Outer', 'Deep')]
    pres = run_impl(os.path.join(VERIF, 'harness', 'impl_pkt.py'), dict(header=decl.HEADER_PY, blocks=[dict(name='protos', src=psrc)], modname='c19p', cases=pcases))
    sres = run_impl(os.path.join(VERIF, 'harness', 'impl_pkt.py'), dict(header=decl.HEADER_PY, blocks=[dict(name='protos', src=psrc)], modname='c19s', cases=scases))
    for c, o, w in zip(scases, sres['outcomes'], swant):
        if o.get('ok') != w:
            failures.append(dict(kind='oracle', sig='defaults-selected-ref', what='the default of a run-time selected reference is not a copy of the declared default packet',
                                 classes=psrc, cls=c['cls'], case=c['value'], observed=o, required=w))
    half = len(pcases) // 2
    for j, (c, o) in enumerate(zip(pcases, pres['outcomes'])):
        i = (j % half) // 2
        pin = pins[i]
        want_len = 3 if pin is None else pin
        deep = c['cls'].startswith('Deep')
        if j < half:
            ok = o.get('ok') == want_len        # what the attribute reads
        else:
            want = bytes([170, want_len]) + b'abc' + (b'\x00' if deep else b'')
            ok = o.get('ok') == want.hex()
        if not ok:
            failures.append(dict(kind='oracle', sig='defaults-prototype-descriptor', what=f"the default of Ref(Chunk({'length=%s' % pin if pin is not None else ''})) is not a copy of the prototype: its described field 'length' must read / pack {want_len}",
                                 classes=psrc, cls=c['cls'], observed=o))
    # ---- integers of DIFFERENT byte orders separated by fields that have none (fixed byte strings, single bytes), full-size
    # defaults (no D11 ambiguity): pack() of a default- or keyword-constructed packet is the encoding of the held values, each
    # integer in its own byte order -- whatever struct runs the generated code forms
    import itertools as _itx
    xsrc2, xcases2, xwant2 = "", [], []
    layouts = [("M0", {}, [('a', 2, 'little'), ('d', 'D2'), ('b', 2, 'big')]), ("M1", {}, [('a', 4, 'little'), ('o', 1, 'big'), ('b', 2, 'big')]),
               ("M2", {'endianness': 'little'}, [('a', 2, None), ('d', 'D3'), ('o', 1, None), ('b', 4, 'big'), ('c', 2, None)]),
               ("M3", {}, [('a', 2, 'big'), ('d', 'D2'), ('b', 2, 'little'), ('e', 'D1'), ('c', 8, 'big')]),
               ("M4", {'endianness': 'big'}, [('d', 'D2'), ('a', 2, 'little'), ('e', 'D2'), ('b', 2, None)])]
    for nm0, conf0, fl in layouts:
        for gen_ in (True, False):
            nm = nm0 + ('' if gen_ else 'L')
            conf = dict(conf0) if gen_ else dict(conf0, generate_for_pack=False, generate_for_unpack=False)
            xsrc2 += f"class {nm}(Packet):\n    __bisturi__ = {conf!r}\n"
            defaults, encs = {}, {}
            for k, fd in enumerate(fl):
                if fd[1] in ('D1', 'D2', 'D3'):
                    w = int(fd[1][1]); dv = bytes(0x61 + k + j for j in range(w))
                    xsrc2 += f"    {fd[0]} = Data({w}, default={dv!r})\n"
                    defaults[fd[0]] = dv; encs[fd[0]] = lambda v: v
                else:
                    w, en = fd[1], fd[2]
                    dv = int.from_bytes(bytes(range(k * 16 + 1, k * 16 + 1 + w)), 'big')
                    xsrc2 += f"    {fd[0]} = Int({w}{'' if en is None else ', endianness=%r' % en}, default={dv})\n"
                    order = en or conf0.get('endianness', 'big')
                    defaults[fd[0]] = dv; encs[fd[0]] = (lambda w, order: (lambda v: v.to_bytes(w, order)))(w, order)
            names = [fd[0] for fd in fl]
            for r in (0, 1, 2):
                for sub in _itx.combinations(names, r):
                    kw = {n: (defaults[n][::-1] if isinstance(defaults[n], bytes) else (defaults[n] ^ 0x5a)) for n in sub}
                    held = dict(defaults, **kw)
                    xcases2.append(dict(cls=nm, op='pack', value={"py": f"{nm}({', '.join('%s=%r' % kv for kv in kw.items())})"}))
                    xwant2.append((nm, kw, b''.join(encs[n](held[n]) for n in names).hex()))
    xres2 = run_impl(os.path.join(VERIF, 'harness', 'impl_pkt.py'), dict(header=decl.HEADER_PY, blocks=[dict(name='mixedorder', src=xsrc2)], modname='c19m', cases=xcases2))
    for (nm, kw, want), o in zip(xwant2, xres2['outcomes']):
        if o.get('ok') != want:
            failures.append(dict(kind='oracle', sig='defaults-pack-mixed-byte-order', what=f"{nm}({', '.join('%s=%r' % kv for kv in kw.items())}).pack() must be the encoding of the held values, each integer in its own byte order: {want}",
                                 classes='class ' + [c for c in xsrc2.split('class ') if c.startswith(nm + '(')][0], cls=nm, observed=o, required=want))
    dist = dict(constructed=0, with_keywords=0, pack_compared=0, falsy_keywords=falsy_checked, after_mutation=after, prototype_descriptor_cases=len(pcases), embedded_descriptor_cases=len(ecases))
    recs = [r for r in records if r['kind'] in ('default', 'pack') and r.get('tag') != 'falsy']
    it = iter(recs)
    for (gid, c, kw) in meta:
        d, p1, p2 = next(it), next(it), next(it)
        table = pktprops.table_of(groups, gid)
        dist['constructed'] += 1
        dist['with_keywords'] += bool(kw)
        want = expected(table, c, kw)
        if 'ok' not in d['outcome'] or d['outcome']['ok'] != want:
            failures.append(dict(kind='oracle', sig='defaults', what='a constructed packet does not hold the declared defaults / the keyword values',
                                 classes=pktprops.class_source(groups, gid), cls=decl.cname(c), keywords=decl.py_value(('pkt', c, kw)),
                                 observed=d['outcome'], required=want))
        dist['pack_compared'] += 1
        # "pack() of the result is the encoding of those values": against an encoder written from the declaration alone (declarations
        # without positioning), fed with the values the constructed packet holds
        if 'ok' in d['outcome'] and isinstance(p1['outcome'].get('ok'), str):
            try:
                import importlib; _c02 = importlib.import_module("props.C02")
                ref = _c02.reference_encoding(table, pktprops.uncanon(d['outcome']['ok']), sys.byteorder == 'big')
            except Exception:
                ref = None
            if ref is not None:
                dist['pack_vs_reference'] = dist.get('pack_vs_reference', 0) + 1
                if bytes.fromhex(p1['outcome']['ok']) != ref:
                    failures.append(dict(kind='oracle', sig='defaults-pack-reference', what=f"pack() of a constructed packet is {p1['outcome']['ok']}, the encoding of the values it holds is {ref.hex()}",
                                         classes=pktprops.class_source(groups, gid), cls=decl.cname(c), keywords=decl.py_value(('pkt', c, kw)), observed=p1['outcome'], required=ref.hex()))
        if p1['outcome'] != p2['outcome'] and not ('err' in p1['outcome'] and 'err' in p2['outcome']):
            failures.append(dict(kind='oracle', sig='defaults-pack', what='pack() of a default-constructed packet is not the encoding of its declared defaults',
                                 classes=pktprops.class_source(groups, gid), cls=decl.cname(c), keywords=decl.py_value(('pkt', c, kw)),
                                 observed=p1['outcome'], required=p2['outcome']))
    return dict(evaluations=len(records), distinct_nontrivial=len({(g, c, str(sorted(kw))) for g, c, kw in meta}),
                rule=("random class tables with user-supplied defaults on integers, bits, strings, repeated and optional fields and nested "
                      "prototypes with keyword overrides; for classes of up to 6 fields every subset of fields overridden by keyword (else the empty "
                      "set and each single field); the constructed packet is compared with the declared defaults computed from the declaration, "
                      "and its pack() with the pack() of the same packet built with every default spelled out; a second default construction after the first packet was mutated in place (lists grown, nested packets changed) must still hold the declared defaults"),
                samples=[dict(classes=pktprops.class_source(groups, meta[0][0]), keywords=str(meta[0][2]), outcome=recs[0]['outcome'])],
                distribution=dist, failures=failures, disagreements=disagreements)


def replay(f):
    return pktprops.generic_replay(f)
