"""C05 Integer fields encode and decode exact two's-complement values (bisturi/field.py Int, codegen struct runs)."""
import os, sys, itertools
from common import *

PID = 'C05'
TARGETS = ['Properties/C05.vo', 'Bridge/IntBridge.vo', 'Bridge/CodegenBridge.vo', 'Bridge/RefBridge.vo', 'Bridge/PlumbingBridge.vo']
KERNELS = ['G6_int', 'G11_codegen', 'G19_field_ctor', 'G16b_optional']      # G11: the struct runs the code generator builds from adjacent Int fields
PROP_FILE = 'Properties/C05.v'

HEADER_PY = "from bisturi.packet import Packet\nfrom bisturi.field import Int, Data, Ref, Bits\n"
SPELL = {None: 'None', 'big': "'big'", 'little': "'little'", 'network': "'network'", 'local': "'local'"}
COQ_E = {None: 'None', 'big': 'Some EBig', 'little': 'Some ELittle', 'network': 'Some ENetwork', 'local': 'Some ELocal'}


def ref_big(fe, ce):
    e = fe if fe is not None else (ce if ce is not None else 'big')
    return e in ('big', 'network') or (e == 'local' and sys.byteorder == 'big')


def ref_decode(n, signed, big, bs):
    """independent reference: positional value in the stated byte order, minus 2^(8n) when the sign bit is set"""
    if len(bs) != n:
        return None
    seq = bs if big else bs[::-1]
    u = 0
    for b in seq:
        u = u * 256 + b
    if signed and seq[0] >= 128:
        u -= 256 ** n
    return u


def configs(tier):
    widths = [1, 2, 3, 4, 5, 6, 7, 8, 9, 16] if tier == 'thorough' else [1, 2, 3, 4, 5, 8, 9, 16]
    ends = [(fe, None) for fe in (None, 'big', 'little', 'network', 'local')] + [(None, 'little'), (None, 'local'), ('big', 'little')]
    out = []
    for n in widths:
        for signed in (False, True):
            for fe, ce in ends:
                for gen in (True, False):
                    out.append((n, signed, fe, ce, gen))
    return out


def neighbours(tier, rng):
    """classes of 2..4 adjacent Int fields with individually chosen width / signedness / byte order, generated code"""
    out = []
    for k in range(60 if tier == 'quick' else 500):
        ce = rng.choice([None, None, 'little', 'big'])
        fields = [((rng.choice([1, 1, 2, 4, 8, 3]), rng.random() < 0.4, rng.choice([None, 'big', 'little', 'network', 'local'])), ce)
                  for _ in range(rng.choice([2, 3, 3, 4]))]
        conf = {} if ce is None else {'endianness': ce}
        if rng.random() < 0.2:
            conf['vectorize'] = False
        nm = f"N{k}"
        src = (f"class {nm}(Packet):\n    __bisturi__ = {conf!r}\n" +
               "".join(f"    v{i} = Int({n}, signed={sg}, endianness={SPELL[fe]})\n" for i, ((n, sg, fe), _) in enumerate(fields)))
        total = sum(f[0][0] for f in fields)
        raws = [bytes(range(1, total + 1)), bytes([0x80 + i for i in range(total)])] + [bytes(rng.randrange(256) for _ in range(total)) for _ in range(4)]
        out.append((nm, src, fields, raws))
    return out


def cname(cfg):
    n, signed, fe, ce, gen = cfg
    return f"I{n}_{'s' if signed else 'u'}_{fe or 'n'}_{ce or 'n'}_{'g' if gen else 'l'}"


def class_src(cfg):
    n, signed, fe, ce, gen = cfg
    conf = {}
    if ce is not None:
        conf['endianness'] = ce
    if not gen:
        conf['generate_for_pack'] = False
        conf['generate_for_unpack'] = False
    return (f"class {cname(cfg)}(Packet):\n    __bisturi__ = {conf!r}\n"
            f"    v = Int({n}, signed={signed}, endianness={SPELL[fe]})\n")


def decode_inputs(n, rng, exhaustive):
    if exhaustive:
        return [bytes(t) for t in itertools.product(range(256), repeat=n)]
    pats = {bytes(n), b'\xff' * n, b'\x80' + bytes(n - 1), b'\x7f' + b'\xff' * (n - 1), bytes(n - 1) + b'\x80',
            bytes(n - 1) + b'\x01', b'\x01' + bytes(n - 1), bytes(range(1, n + 1))}
    lane_vals = [0, 1, 2, 0x7f, 0x80, 0x81, 0xfe, 0xff] + [rng.randrange(256) for _ in range(4)]
    for lane in range(n):
        for v in lane_vals:
            b = bytearray(rng.randrange(256) for _ in range(n)) if v % 2 else bytearray(n)
            b[lane] = v
            pats.add(bytes(b))
    pats = sorted(pats)
    # short and long inputs
    shorts = [b'', bytes(range(1, n))] + ([bytes([0x81] * (n - 1))] if n > 1 else [])
    return pats + shorts + [bytes(range(1, n + 2))]


def encode_values(n, signed, rng, exhaustive):
    lo = -(2 ** (8 * n - 1)) if signed else 0
    hi = 2 ** (8 * n - 1) if signed else 2 ** (8 * n)
    if exhaustive:
        return list(range(lo - 2, hi + 2))
    vals = {lo - 2, lo - 1, lo, lo + 1, hi - 2, hi - 1, hi, hi + 1, -2, -1, 0, 1, 2, 2 ** (8 * n), -(2 ** (8 * n)), 2 ** (8 * n) - 1}
    for k in range(8 * n + 1):
        for d in (-1, 0, 1):
            vals.add(2 ** k + d)
            vals.add(-(2 ** k) + d)
    for _ in range(6):
        vals.add(rng.randrange(lo, hi))
    return sorted(vals)


HEADER_COQ = """From Coq Require Import ZArith List Bool.
From Bisturi Require Import Base.Bytes Kernel.IntCodec.
Import ListNotations. Open Scope Z_scope.
Definition eqb_bytes (a b : bytes) : bool := (Z.of_nat (length a) =? Z.of_nat (length b)) && forallb (fun p => fst p =? snd p) (combine a b).
Definition eq_oz (a b : option Z) : bool := match a, b with Some x, Some y => x =? y | None, None => true | _, _ => false end.
Definition eq_ob (a b : option bytes) : bool := match a, b with Some x, Some y => eqb_bytes x y | None, None => true | _, _ => false end.
(* a case: n, signed, field endianness, class endianness, host order, then either bytes to decode or a value to encode *)
Inductive case := D (n : Z) (s : bool) (fe ce : option endian) (host : bool) (raw : bytes) (want : option Z)
                | E (n : Z) (s : bool) (fe ce : option endian) (host : bool) (v : Z) (want : option bytes).
Definition agrees (c : case) : bool :=
  match c with
  | D n s fe ce host raw want =>
      eq_oz (match int_unpack n s (is_bigendian (resolve_endianness fe ce) host) raw 0 with Some (v, _) => Some v | None => None end) want
  | E n s fe ce host v want => eq_ob (encode n s (is_bigendian (resolve_endianness fe ce) host) v) want
  end.
Fixpoint bad (i : Z) (cs : list case) : list Z :=
  match cs with [] => [] | c :: r => if agrees c then bad (i + 1) r else i :: bad (i + 1) r end.
"""


def coq_bool(b):
    return 'true' if b else 'false'


def run(tier, seed, rng):
    cfgs = configs(tier)
    host = sys.byteorder == 'big'
    # ---- build the cases
    cases = []   # (cfg, kind, input)
    for cfg in cfgs:
        n, signed, fe, ce, gen = cfg
        ex = (n == 1) or (n == 2 and tier == 'thorough' and fe in (None, 'little') and ce is None)
        for b in decode_inputs(n, rng, ex):
            cases.append((cfg, 'D', b))
        for v in encode_values(n, signed, rng, ex and n == 1):
            cases.append((cfg, 'E', v))
    # ---- run the implementation, sharded by class
    by_cfg = {}
    for i, c in enumerate(cases):
        by_cfg.setdefault(c[0], []).append(i)
    groups = shard(list(by_cfg), max(1, len(by_cfg) // NPROC + 1))
    payloads = []
    index = []
    for g in groups:
        blocks = [dict(name=cname(cfg), src=class_src(cfg)) for cfg in g]
        cs = []
        idx = []
        for cfg in g:
            for i in by_cfg[cfg]:
                _, kind, x = cases[i]
                if kind == 'D':
                    cs.append(dict(cls=cname(cfg), op='unpack', raw=x.hex()))
                else:
                    cs.append(dict(cls=cname(cfg), op='pack', value={"p": cname(cfg), "f": [["v", x]]}))
                idx.append(i)
        payloads.append(dict(header=HEADER_PY, blocks=blocks, modname='c05', cases=cs))
        index.append(idx)
    # the odd values: non-integers must be rejected with PacketError
    odd_cfgs = [c for c in cfgs if c[0] in (1, 3, 4) and c[2] is None and c[3] is None]
    odd_vals = ['1.0', "'x'", 'None', "b'a'", '[1]', '2.5']
    payloads.append(dict(header=HEADER_PY, blocks=[dict(name=cname(c), src=class_src(c)) for c in odd_cfgs], modname='c05odd',
                         cases=[dict(cls=cname(c), op='pack', value={"p": cname(c), "f": [["v", {"py": ov}]]})
                                for c in odd_cfgs for ov in odd_vals] +
                               [dict(cls=cname(c), op='pack', value={"p": cname(c), "f": [["v", {"py": "True"}]]}) for c in odd_cfgs]))
    results = run_impl_parallel(os.path.join(VERIF, 'harness', 'impl_pkt.py'), payloads)
    outcomes = [None] * len(cases)
    failures = []
    for res, idx in zip(results[:-1], index):
        bad_defs = {k: v for k, v in res['defs'].items() if v != 'ok'}
        for k, v in bad_defs.items():
            failures.append(dict(kind='oracle', sig='class-definition', what=f"class {k} cannot be defined: {v}"))
        for i, o in zip(idx, res['outcomes']):
            outcomes[i] = o
    # ---- oracle (implementation only)
    dist = dict(decode_ok=0, decode_err=0, encode_ok=0, encode_err=0, struct_path=0, generic_path=0)
    obs = []     # canonical observation per case: ('D', value|None) / ('E', bytes|None)
    for (cfg, kind, x), o in zip(cases, outcomes):
        n, signed, fe, ce, gen = cfg
        big = ref_big(fe, ce)
        dist['struct_path' if n in (1, 2, 4, 8) else 'generic_path'] += 1
        where = dict(cls=class_src(cfg), n=n, signed=signed, field_endianness=fe, class_endianness=ce, generated=gen)
        if kind == 'D':
            want = ref_decode(n, signed, big, x[:n]) if len(x) >= n else None
            if 'ok' in o:
                got = dict(o['ok']['f'])['v']
            elif 'err' in o and o['err'] == 'unpacking':
                got = None
            else:
                got = ('exc', o)
            obs.append(got if not isinstance(got, tuple) else 'X')
            dist['decode_ok' if got is not None else 'decode_err'] += 1
            if got != want:
                failures.append(dict(kind='oracle', sig='int-decode', what='Int decode differs from the two\'s-complement value',
                                     raw=x.hex(), observed=str(got), required=want, **where))
        else:
            lo = -(2 ** (8 * n - 1)) if signed else 0
            hi = 2 ** (8 * n - 1) if signed else 2 ** (8 * n)
            if 'ok' in o:
                got = bytes.fromhex(o['ok'])
            elif 'err' in o and o['err'] == 'packing':
                got = None
            else:
                got = ('exc', o)
            obs.append(got if not isinstance(got, tuple) else 'X')
            dist['encode_ok' if got is not None else 'encode_err'] += 1
            if lo <= x < hi:
                ok = isinstance(got, bytes) and len(got) == n and ref_decode(n, signed, big, got) == x
            else:
                ok = got is None
            if not ok:
                failures.append(dict(kind='oracle', sig='int-encode', what='Int encode: not the n bytes that decode back / out-of-range not rejected',
                                     value=x, observed=str(got if not isinstance(got, bytes) else got.hex()),
                                     required='PacketError' if not (lo <= x < hi) else 'n bytes decoding to the value', **where))
    res = results[-1]
    k = 0
    for c in odd_cfgs:
        for ov in odd_vals:
            o = res['outcomes'][k]
            k += 1
            if not ('err' in o and o['err'] == 'packing'):
                failures.append(dict(kind='oracle', sig='int-nonint', what=f"Int({c[0]}) packs the non-integer {ov} without PacketError",
                                     observed=o, cls=class_src(c)))
    for c in odd_cfgs:
        o = res['outcomes'][k]
        k += 1   # True is an int in python: encodes as 1
        if not ('ok' in o and int.from_bytes(bytes.fromhex(o['ok']), 'big' if ref_big(c[2], c[3]) else 'little') == 1):
            failures.append(dict(kind='oracle', sig='int-bool', what=f"Int({c[0]}) does not pack True as 1", observed=o, cls=class_src(c)))
    # ---- a non-integer that EQUALS an integer the same field packed a moment ago (7.0, Fraction(7), Decimal(7) after 7; -2.0 after -2):
    # still rejected -- whatever the field remembers of earlier values must not let equal-but-not-integer values through
    msrc = "from fractions import Fraction\nfrom decimal import Decimal\n"
    mcases, mmeta = [], []
    for n in (1, 2, 3, 5, 6, 7, 8, 12, 16):
        for gen_ in (True, False):
            nm = f"Mem{n}{'' if gen_ else 'L'}"
            conf = {} if gen_ else dict(generate_for_pack=False, generate_for_unpack=False)
            msrc += f"class {nm}(Packet):\n    __bisturi__ = {conf!r}\n    v = Int({n}, signed=True)\n    xs = Int({n}, signed=True).repeated(2)\n"
            for v in (7, -2, 0, 100):
                mcases.append(dict(cls=nm, op='pack', value={"py": f"{nm}(v={v}, xs=[{v}, {v}])"})); mmeta.append((nm, n, v, None))
                for alt in (f"{v}.0", f"Fraction({v})", f"Decimal({v})"):
                    mcases.append(dict(cls=nm, op='pack', value={"py": f"{nm}(v={alt}, xs=[1, 2])"})); mmeta.append((nm, n, v, alt))
                    mcases.append(dict(cls=nm, op='pack', value={"py": f"{nm}(v=1, xs=[{alt}, 5])"})); mmeta.append((nm, n, v, 'xs[0]=' + alt))
    mres = run_impl(os.path.join(VERIF, 'harness', 'impl_pkt.py'), dict(header=HEADER_PY, blocks=[dict(name='memo', src=msrc)], modname='c05m', cases=mcases))
    for (nm, n, v, alt), o in zip(mmeta, mres['outcomes']):
        if alt is None:
            want = v.to_bytes(n, 'big', signed=True).hex() * 3
            if o.get('ok') != want:
                failures.append(dict(kind='oracle', sig='int-encode', what=f"Int({n}, signed=True) x3 holding {v}: pack gives {o}, required {want}", cls=nm, value=v, observed=o))
        elif not ('err' in o and o['err'] == 'packing'):
            failures.append(dict(kind='oracle', sig='int-nonint-after-equal-int', what=f"Int({n}, signed=True) packs the non-integer {alt} without PacketError after the equal integer {v} was packed by the same field",
                                 cls='class ' + [c for c in msrc.split('class ') if c.startswith(nm + '(')][0], value=alt, observed=o))
    # ---- integers next to each other: adjacent fixed-size fields are decoded / encoded by one struct call in generated code;
    # each field must still get its OWN byte order, signedness and bytes
    nb = neighbours(tier, rng)
    nb_payloads = []
    for part in shard(nb, max(1, len(nb) // NPROC + 1)):
        nb_payloads.append(dict(header=HEADER_PY, blocks=[dict(name=nm, src=src) for nm, src, _, _ in part], modname='c05n',
                                cases=[dict(cls=nm, op='unpack', raw=raw.hex()) for nm, _, _, raws in part for raw in raws]))
    nb_results = run_impl_parallel(os.path.join(VERIF, 'harness', 'impl_pkt.py'), nb_payloads)
    nb_out = [o for res in nb_results for o in res['outcomes']]
    k = 0
    pack_cases, pack_meta = [], []
    dist['neighbour_classes'] = len(nb)
    dist['neighbour_decodes'] = 0
    for nm, src, fields, raws in nb:
        for raw in raws:
            o = nb_out[k]
            k += 1
            want, pos = [], 0
            for (n, signed, fe), ce in fields:
                want.append(ref_decode(n, signed, ref_big(fe, ce), raw[pos:pos + n]))
                pos += n
            got = [v for _, v in o['ok']['f']] if 'ok' in o else o
            dist['neighbour_decodes'] += 1
            if got != want:
                failures.append(dict(kind='oracle', sig='int-decode-neighbours', what='adjacent Int fields: a field was not decoded from its own bytes in its own byte order',
                                     cls=src, raw=raw.hex(), observed=str(got), required=want))
            else:
                pack_cases.append(dict(cls=nm, op='pack', value={"p": nm, "f": [[f"v{i}", v] for i, v in enumerate(want)]}))
                pack_meta.append((nm, src, raw, want))
    blocks = [dict(name=nm, src=src) for nm, src, _, _ in nb]
    pres = run_impl(os.path.join(VERIF, 'harness', 'impl_pkt.py'), dict(header=HEADER_PY, blocks=blocks, modname='c05np', cases=pack_cases))
    for (nm, src, raw, want), o in zip(pack_meta, pres['outcomes']):
        if o.get('ok') != raw.hex():
            failures.append(dict(kind='oracle', sig='int-encode-neighbours', what='adjacent Int fields: the values do not encode to the bytes that decode to them',
                                 cls=src, values=want, observed=str(o), required=raw.hex()))
    # ---- the class-wide default byte order also reaches an integer that is the element of a repeated field or sits behind
    # an optional (they are compiled through their wrapper)
    wsrc, wcases, wmeta = "", [], []
    k = 0
    for ce in (None, 'little', 'big', 'local', 'network'):
        for n in (2, 3, 4):
            for signed in (False, True):
                for fe in (None, 'little'):
                    nm = f"W{k}"; k += 1
                    conf = {} if ce is None else {'endianness': ce}
                    wsrc += (f"class {nm}(Packet):\n    __bisturi__ = {conf!r}\n"
                             f"    xs = Int({n}, signed={signed}, endianness={SPELL[fe]}).repeated(count=2)\n"
                             f"    o = Int({n}, signed={signed}, endianness={SPELL[fe]}).when(lambda pkt, raw=b'', offset=0, **k: True)\n")
                    for raw in (bytes(range(1, 3 * n + 1)), bytes([0x80 + i for i in range(3 * n)]), bytes(rng.randrange(256) for _ in range(3 * n))):
                        wcases.append(dict(cls=nm, op='roundtrip', raw=raw.hex(), offset=0))
                        wmeta.append((nm, n, signed, fe, ce, raw))
    wres = run_impl(os.path.join(VERIF, 'harness', 'impl_pkt.py'), dict(header=HEADER_PY, blocks=[dict(name='wrapped', src=wsrc)], modname='c05w', cases=wcases))
    dist['wrapped_decodes'] = len(wcases)
    for (nm, n, signed, fe, ce, raw), o in zip(wmeta, wres['outcomes']):
        big = ref_big(fe, ce)
        want = [[ref_decode(n, signed, big, raw[0:n]), ref_decode(n, signed, big, raw[n:2 * n])], ref_decode(n, signed, big, raw[2 * n:3 * n])]
        got = [v for _, v in o['ok']['f']] if 'ok' in o else o
        if got != want or o.get('packed') != {'ok': raw.hex()}:
            failures.append(dict(kind='oracle', sig='int-wrapped', what='an Int that is the element of a repeated field / behind an optional is not decoded (or re-encoded) in the byte order the declaration gives it',
                                 cls=[l for l in wsrc.split('class ') if l.startswith(nm + '(')][0].join(['class ', '']), raw=raw.hex(), observed=str(o)[:300], required=want))
    # ---- Tie B: the model on the same cases
    lines = []
    for (cfg, kind, x), ob in zip(cases, obs):
        n, signed, fe, ce, gen = cfg
        pre = f"{n} {coq_bool(signed)} ({COQ_E[fe]}) ({COQ_E[ce]}) {coq_bool(host)}"
        if ob == 'X':
            want = None   # a non-PacketError exception never agrees with the model
            lines.append(f"D 1 false None None false [] (Some (-1))")
            continue
        if kind == 'D':
            lines.append(f"D {pre} {blit(x)} ({'None' if ob is None else 'Some ' + zlit(ob)})")
        else:
            lines.append(f"E {pre} {zlit(x)} ({'None' if ob is None else 'Some ' + blit(ob)})")
    csize = 600
    files = [(f"cases_{i}", HEADER_COQ + "Definition cases : list case := [\n" + ";\n".join(part) + "\n].\nEval vm_compute in (bad 0 cases).\n")
             for i, part in enumerate(shard(lines, csize))]
    outs = coq_eval_files(files)
    disagreements = []
    for i in range(len(files)):
        for j in parse_coq_list(outs[f"cases_{i}"]):
            idx = i * csize + j
            cfg, kind, x = cases[idx]
            disagreements.append(dict(kind='correspondence', cls=class_src(cfg), op=kind, input=x.hex() if kind == 'D' else x,
                                      implementation=str(obs[idx]), what='model Kernel/IntCodec.v and bisturi Int differ on this case'))
    distinct = len({(c[0][:4], c[1], c[2]) for c in cases})
    return dict(evaluations=len(cases), distinct_nontrivial=distinct, classes=len(cfgs),
                rule=("per Int configuration (width x signed x field endianness spelling x class default x generated/generic code): "
                      "decode of all 2^8 patterns for n=1 (thorough: all 2^16 for n=2 in two orders), boundary patterns, every byte lane "
                      "x 12 lane values, short and over-long inputs; encode of all integers in [lo-2,hi+2) for n=1, boundaries, "
                      "powers of two +-1, random in-range values; non-integers; classes of 2..4 adjacent Int fields of mixed width / signedness / byte order (one struct call in generated code) decoded and re-encoded field by field. distinct = distinct (width, signed, endianness, op, input)"),
                samples=[dict(cls=class_src(cases[i][0]), op=cases[i][1], input=cases[i][2].hex() if cases[i][1] == 'D' else cases[i][2],
                              observed=str(obs[i] if not isinstance(obs[i], bytes) else obs[i].hex()))
                         for i in (0, len(cases) // 3, len(cases) // 2, len(cases) - 1)],
                distribution=dist, failures=failures, disagreements=disagreements)


def replay(f):
    cfgsrc = f['cls']
    name = cfgsrc.split('(')[0].split()[1]
    if 'raw' in f:
        case = dict(cls=name, op='unpack', raw=f['raw'])
    else:
        case = dict(cls=name, op='pack', value={"p": name, "f": [["v", f['value']]]})
    res = run_impl(os.path.join(VERIF, 'harness', 'impl_pkt.py'),
                   dict(header=HEADER_PY, blocks=[dict(name=name, src=cfgsrc)], modname='c05r', cases=[case]))
    o = res['outcomes'][0]
    return str(o) != '' and ('required' in f and str(f['required']) not in str(o)), dict(observed=o, required=f.get('required'))
