"""C13 Packets are independent and pack/unpack are observationally pure."""
import os, copy
from common import *
import decl, gen, pktcases, pktprops

PID = 'C13'
TARGETS = ['Properties/C13.vo', 'Model/Heap.vo', 'Proofs/HeapAdequacy.vo', 'Bridge/RefBridge.vo', 'Bridge/InitBridge.vo', 'Bridge/DataBridge.vo', 'Bridge/PlumbingBridge.vo', 'Bridge/MiscPacketBridge.vo', 'Bridge/DescBridge.vo']
KERNELS = ['G8_data', 'G15_init', 'G15b_init_structural', 'G16_ref', 'G16b_optional', 'G16c_prototype', 'G17_builder', 'G20b_packet_misc', 'G7_auto']
PROP_FILE = 'Properties/C13.v'
WHOLE_PACKET = True      # Tie A over all of the pack / unpack machinery (check.py: WHOLE_PACKET_KERNELS)
ASSUMPTIONS = ["partial: values of the model have no identity, so aliasing of mutable sub-objects and real thread interleavings (bytecode-level, "
               "under the GIL) are not exhibited by the model; they are checked on the implementation only (identity graph, write monitor, threads)"]
# attribute writes on class-level field objects that are known and idempotent: the delimiter remembered by a delimited Data
# (finding D8 when it is a regex match) and the lazy set-up of a Field object that a deferred selector holds as an option
# (it is compiled and named on first use; the same values are written every time)
ALLOWED_ATTRS = {'delimiter_to_be_included', 'field_name', '__compile_cached_result', 'struct_code', 'struct_obj', 'pack', 'unpack',
                 'is_bigendian', 'endianness', 'base', '_search_buffer_length', 'position'}


def cq_path(path):
    return "[" + "; ".join((f"SIndex {st}" if isinstance(st, int) else f"SField (FN {int(st[1:])})") for st in path) + "]"


def cq_step(st):
    return f"(SIndex {st})" if isinstance(st, int) else f"(SField (FN {int(st[1:])}))"


def model_op(op, values):
    """a history operation as a Model/Heap.v wop (None: not expressible -> the history is not compared)"""
    k = lambda slot: int(slot[1:])
    if op[0] == 'new':
        return f"WNew {k(op[1])} {decl.cq_value(values[id(op)])}"
    if op[0] == 'pack':
        return f"WPack {k(op[1])}"
    if op[0] == 'reparse':
        return f"WReparse {k(op[1])} {k(op[2])}"
    if op[0] == 'set':
        return f"WSet {k(op[1])} {cq_path(op[2][:-1])} {cq_step(op[2][-1])} (SrcLit {decl.cq_value(values[id(op)])})"
    if op[0] == 'share':
        return f"WSet {k(op[1])} {cq_path(op[2][:-1])} {cq_step(op[2][-1])} (SrcObj {k(op[3])} {cq_path(op[4])})"
    if op[0] == 'append':
        return f"WAppend {k(op[1])} {cq_path(op[2])} (SrcLit {decl.cq_value(values[id(op)])})"
    return None


VALUES = {}      # id(op) -> the generator value behind its JSON rendering


def histories(rng, table, vg, n):
    cs = sorted(table)
    hs = []
    for _ in range(n):
        h, live = [], []
        for k in range(rng.randint(3, 7)):
            r = rng.random()
            if not live or r < 0.35:
                c = rng.choice(cs)
                v = vg.try_value(c)
                if v is None:
                    continue
                slot = f"p{len(live)}"
                if rng.random() < 0.5:
                    h.append(['new', slot, decl.cname(c), pktcases.jvalue(v)])
                    VALUES[id(h[-1])] = v
                else:
                    h.append(['new', slot, decl.cname(c), pktcases.jvalue(('pkt', c, {}))])
                    VALUES[id(h[-1])] = ('pkt', c, {})
                live.append((slot, c, v))
            elif r < 0.45:
                slot, c, v = rng.choice(live)
                h.append(['pack', slot])
            elif r < 0.6:
                # a further packet parsed from the encoding of a live one
                slot, c, v = rng.choice(live)
                new = f"p{len(live)}"
                h.append(['reparse', new, slot])
                live.append((new, c, v))
            elif r < 0.8:
                slot, c, v = rng.choice(live)
                pc = table[c]
                idx = [i for i, fd in enumerate(pc['fields']) if fd['body'][0] == 'elem' and fd['body'][1][0] == 'leaf' and fd['body'][1][1][0] == 'int']
                bidx = [i for i, fd in enumerate(pc['fields']) if fd['body'][0] == 'bits']
                if bidx and rng.random() < 0.35:
                    # a bit field may be assigned a value wider than its width (it is reduced when serialized, never in the packet)
                    i = rng.choice(bidx)
                    w = pc['fields'][i]['body'][1]
                    h.append(['set', slot, [f"f{i}"], rng.choice([0, 1, 2 ** w, 2 ** w + 3, 2 ** (w + 1) - 1])])
                    VALUES[id(h[-1])] = h[-1][3]
                    h.append(['pack', slot])
                elif idx:
                    i = rng.choice(idx)
                    h.append(['set', slot, [f"f{i}"], rng.randrange(0, 3)])
                    VALUES[id(h[-1])] = h[-1][3]
                else:
                    h.append(['pack', slot])
            elif r < 0.88:
                # the user puts an object of one live packet into another live packet of the same class (allowed sharing),
                # or grows a list in place
                slot, c, v = rng.choice(live)
                mut = [i for i, fd in enumerate(table[c]['fields']) if fd['body'][0] == 'seq' or (fd['body'][0] == 'elem' and fd['body'][1][0] == 'refpkt')]
                same = [l for l in live if l[1] == c and l[0] != slot]
                if mut and same and rng.random() < 0.6:
                    i = rng.choice(mut)
                    h.append(['share', slot, [f"f{i}"], rng.choice(same)[0], [f"f{i}"]])
                elif mut:
                    i = rng.choice(mut)
                    b = table[c]['fields'][i]['body']
                    if b[0] == 'seq':
                        x = ('pkt', b[1][1], {}) if b[1][0] == 'refpkt' else (rng.randrange(3) if (b[1][0] == 'leaf' and b[1][1][0] == 'int') else b'q')
                        h.append(['append', slot, [f"f{i}"], pktcases.jvalue(x)])
                        VALUES[id(h[-1])] = x
                    else:
                        h.append(['pack', slot])
                else:
                    h.append(['pack', slot])
            else:
                slot, c, v = rng.choice(live)
                # mutate a list in place: appending to one packet's list must not show up in another packet
                idx = [i for i, fd in enumerate(table[c]['fields']) if fd['body'][0] == 'seq']
                if idx:
                    i = rng.choice(idx)
                    h.append(['set', slot, [f"f{i}"], []])
                    VALUES[id(h[-1])] = []
                else:
                    h.append(['pack', slot])
        if h:
            hs.append(h)
    return hs


def run(tier, seed, rng):
    ng = 50 if tier == 'quick' else 1500
    payload_groups, metas = [], []
    for gid in range(ng):
        g = gen.Gen(rng, dict(defaults=True, regex=(gid % 5 == 0), move=(gid % 3 == 0)))
        table = g.make_table(rng.choice([2, 3]))
        # user-supplied defaults that hold mutable objects: lists of packets, lists of integers
        for c, pc in table.items():
            for fd in pc['fields']:
                b = fd['body']
                if b[0] == 'seq' and b[5] is None and rng.random() < 0.6:
                    if b[1][0] == 'refpkt':
                        fd['body'] = b[:5] + ([('pkt', b[1][1], {}) for _ in range(rng.randint(1, 2))],) + b[6:]
                    elif b[1][0] == 'leaf' and b[1][1][0] == 'int':
                        fd['body'] = b[:5] + ([rng.randrange(3) for _ in range(rng.randint(1, 2))],) + b[6:]
        G = pktcases.Group(table, gid)
        vg = gen.ValGen(rng, table)
        hs = histories(rng, table, vg, 6 if tier == 'quick' else 12)
        # a repeated field that is EMPTY on the wire (count 0 / when false): several packets parsed from such bytes, one list grown in
        # place, then a packet built by the constructor -- nobody else may see the new element
        for c, pc in table.items():
            seqs = [i for i, fd in enumerate(pc['fields']) if fd['body'][0] == 'seq']
            if not seqs:
                continue
            for _ in range(6):
                v = vg.try_value(c)
                empt = [i for i in seqs if v is not None and v[2].get(i) == []]
                if not empt:
                    continue
                i = empt[0]
                b = pc['fields'][i]['body']
                x = ('pkt', b[1][1], {}) if b[1][0] == 'refpkt' else (1 if (b[1][0] == 'leaf' and b[1][1][0] == 'int') else (b'q' if b[1][0] == 'leaf' else None))
                if x is None:
                    break
                h = [['new', 'p0', decl.cname(c), pktcases.jvalue(v)], ['reparse', 'p1', 'p0'], ['reparse', 'p2', 'p0'],
                     ['append', 'p1', [f"f{i}"], pktcases.jvalue(x)], ['pack', 'p2'], ['reparse', 'p3', 'p0'],
                     ['new', 'p4', decl.cname(c), pktcases.jvalue(('pkt', c, {}))], ['pack', 'p4']]
                VALUES[id(h[0])] = v
                VALUES[id(h[3])] = x
                VALUES[id(h[6])] = ('pkt', c, {})
                hs.append(h)
                break
        # two default-constructed packets of every class, then a mutation deep inside the first one
        for c, pc in table.items():
            h = [['new', 'p0', decl.cname(c), pktcases.jvalue(('pkt', c, {}))], ['new', 'p1', decl.cname(c), pktcases.jvalue(('pkt', c, {}))]]
            VALUES[id(h[0])] = VALUES[id(h[1])] = ('pkt', c, {})
            for i, fd in enumerate(pc['fields']):
                b = fd['body']
                if b[0] == 'seq' and isinstance(b[5], list) and b[5]:
                    if isinstance(b[5][0], tuple):
                        sub = table[b[5][0][1]]
                        for j, sfd in enumerate(sub['fields']):
                            if sfd['body'][0] == 'elem' and sfd['body'][1][0] == 'leaf' and sfd['body'][1][1][0] == 'int':
                                h.append(['set', 'p0', [f"f{i}", 0, f"f{j}"], 1])
                                VALUES[id(h[-1])] = 1
                                break
                    else:
                        h.append(['set', 'p0', [f"f{i}", 0], 2])
                        VALUES[id(h[-1])] = 2
                elif b[0] == 'elem' and b[1][0] == 'refpkt':
                    sub = table[b[1][1]]
                    for j, sfd in enumerate(sub['fields']):
                        if sfd['body'][0] == 'elem' and sfd['body'][1][0] == 'leaf' and sfd['body'][1][1][0] == 'int':
                            h.append(['set', 'p0', [f"f{i}", f"f{j}"], 1])
                            VALUES[id(h[-1])] = 1
                            break
            h.append(['pack', 'p1'])
            hs.append(h)
        # histories with parses: new packet, parse of its own bytes into another slot, mutation of one, observation of the other
        c0 = sorted(table)[-1]
        v0 = vg.try_value(c0)
        threads = None
        payload_groups.append(dict(header=decl.HEADER_PY, blocks=G.blocks(), modname=f"c13_{gid}", histories=hs, threads=threads, solo=True))
        metas.append((table, hs))
    # ---- known findings as explicit probes
    probes = dict(header=decl.HEADER_PY + "from bisturi.field import Data\nfrom bisturi.descriptor import AutoLength\n", modname="c13probe", blocks=[dict(name='probe', src='''
class DelimX(Packet):
    body = Data(until_marker=re.compile(b'X+'))
    t = Int(1)
class DN(Packet):
    n = Int(1)
class Sel(Packet):
    t = Int(1)
    a = Ref(t.chooses({3: DN()}), default=DN())
class Hdr(Packet):
    key = Data(until_marker=b':', consume_delimiter=False)
    val = Data(until_marker=b'\\n')
class Cnt(Packet):
    n = Int(1)
    xs = Int(1).repeated(n)
class Two(Packet):
    a = Ref(Cnt)
    b = Ref(Cnt)
class Len(Packet):
    length = Int(1).describe(AutoLength('a'))
    a = Data(length)
class LenL(Packet):
    __bisturi__ = {'generate_for_pack': False, 'generate_for_unpack': False}
    length = Int(1).describe(AutoLength('a'))
    a = Data(length)
class Box(Packet):
    t = Int(1)
    l = Ref(Len)
    u = Int(1)
class Pt(Packet):
    x = Int(1)
    y = Int(1)
class Emb(Packet):
    h = Int(1)
    point = Ref(Pt, embed=True)
    t = Int(1)
''')], histories=[
        [['parse', 'p0', 'DelimX', b'abXXX\x01'.hex()], ['parse', 'p1', 'DelimX', b'cdX\x02'.hex()]],
        [['parse', 'p0', 'Sel', b'\x03\x07'.hex()], ['parse', 'p1', 'Sel', b'\x03\x09'.hex()]],
        [['new', 'p0', 'Two', {"p": "Two", "f": []}], ['new', 'p1', 'Two', {"p": "Two", "f": []}], ['set', 'p0', ['a', 'xs'], [1, 2]], ['pack', 'p1']],
        [['new', 'p0', 'Cnt', {"p": "Cnt", "f": []}], ['new', 'p1', 'Cnt', {"p": "Cnt", "f": []}], ['set', 'p0', ['n'], 2], ['pack', 'p0'], ['pack', 'p1']],
        # a delimiter that is not consumed: a packet built by the constructor, packed, then another packet of the class parsed
        [['new', 'p0', 'Hdr', {"p": "Hdr", "f": [["key", {"x": b'Host'.hex()}], ["val", {"x": b'example.org'.hex()}]]}], ['pack', 'p0'],
         ['parse', 'p1', 'Hdr', b'A::b\n'.hex()], ['pack', 'p0'], ['pack', 'p1']],
        # described fields: serializing in between must not pin the computed value
        [['new', 'p0', 'Len', {"p": "Len", "f": [["a", {"x": b'ab'.hex()}]]}], ['set', 'p0', ['a'], {"x": b'abcd'.hex()}], ['pack', 'p0'], ['set', 'p0', ['a'], {"x": b'q'.hex()}], ['pack', 'p0']],
        [['parse', 'p0', 'Len', b'\x02ab'.hex()], ['set', 'p0', ['a'], {"x": b'abcd'.hex()}], ['pack', 'p0'], ['reparse', 'p1', 'p0'], ['set', 'p1', ['a'], {"x": b''.hex()}], ['pack', 'p1'], ['pack', 'p0']],
        [['new', 'p0', 'LenL', {"p": "LenL", "f": [["a", {"x": b'ab'.hex()}]]}], ['set', 'p0', ['a'], {"x": b'abcd'.hex()}], ['pack', 'p0'], ['set', 'p0', ['a'], {"x": b'q'.hex()}], ['pack', 'p0']],
        [['new', 'p0', 'Box', {"p": "Box", "f": [["t", 7]]}], ['set', 'p0', ['l', 'a'], {"x": b'xyz'.hex()}], ['pack', 'p0'], ['set', 'p0', ['l', 'a'], {"x": b'x'.hex()}], ['pack', 'p0'],
         ['new', 'p1', 'Box', {"p": "Box", "f": []}], ['share', 'p1', ['l'], 'p0', ['l']], ['pack', 'p1'], ['set', 'p0', ['l', 'a'], {"x": b'12345'.hex()}], ['pack', 'p1'], ['pack', 'p0']],
        # embed=True: the fields of the embedded packet live in the outer one; the placeholder attribute is still a packet of its own
        [['new', 'p0', 'Emb', {"p": "Emb", "f": []}], ['new', 'p1', 'Emb', {"p": "Emb", "f": []}], ['set', 'p0', ['point', 'y'], 9], ['pack', 'p1'],
         ['new', 'p2', 'Emb', {"p": "Emb", "f": []}], ['set', 'p1', ['y'], 5], ['pack', 'p0'], ['pack', 'p2']],
    ], threads=dict(cls='Two', raws=[bytes([n] + list(range(n)) + [m] + list(range(m))).hex() for n in range(1, 5) for m in range(1, 3)],
                    rounds=300 if tier == 'quick' else 20000))
    parts = shard(payload_groups, max(1, len(payload_groups) // NPROC + 1))
    payloads = [dict(groups=p) for p in parts] + [dict(groups=[probes])]
    results = run_impl_parallel(os.path.join(VERIF, 'harness', 'impl_world.py'), payloads)
    failures = []
    # ---- one table of FIELD objects handed out by the selectors of two classes with different class options (byte order, search
    # window): what packets of one class hold and serialize does not depend on whether a packet of the other class was parsed or
    # packed before -- both orders, each in a fresh process, against the declared encodings
    ssrc = ("KINDS = {1: Int(2), 2: Int(4), 3: Data(until_marker=b';')}\n"
            "class RecB(Packet):\n    kind = Int(1, default=1)\n    value = Ref(kind.chooses(KINDS), default=0)\n    t = Int(1)\n"
            "class LegB(Packet):\n    __bisturi__ = {'endianness': 'little', 'search_buffer_length': 3}\n    kind = Int(1, default=1)\n    value = Ref(kind.chooses(KINDS), default=0)\n    t = Int(1)\n")
    def shared_cases(first):
        order = [first, 'LegB' if first == 'RecB' else 'RecB', first]
        cs = []
        for cls in order:
            for kind, w in ((1, 2), (2, 4)):
                v = int.from_bytes(bytes(range(1, w + 1)), 'big')
                cs.append(dict(cls=cls, op='pack', value={"py": f"{cls}(kind={kind}, value={v}, t=9)"}))
                cs.append(dict(cls=cls, op='roundtrip', raw=(bytes([kind]) + bytes(range(1, w + 1)) + b'\x09').hex(), offset=0))
            cs.append(dict(cls=cls, op='roundtrip', raw=b'\x03abcdef;\x09'.hex(), offset=0))
        return cs
    seen_sh = {}
    for first in ('RecB', 'LegB'):
        cs = shared_cases(first)
        sres_ = run_impl(os.path.join(VERIF, 'harness', 'impl_pkt.py'), dict(header=decl.HEADER_PY, blocks=[dict(name='sharedtable', src=ssrc)], modname='c13s' + first, cases=cs))
        for k, (c, o) in enumerate(zip(cs, sres_['outcomes'])):
            key = json.dumps([c['cls'], c.get('value'), c.get('raw')])
            txt = json.dumps(o, sort_keys=True)
            if key in seen_sh and seen_sh[key][0] != txt:
                failures.append(dict(kind='oracle', sig='shared-field-table', what=f"two classes whose selectors hand out the SAME field objects: {c['cls']}: {c.get('value', {}).get('py') or c.get('raw')} gives {txt[:200]} here and {seen_sh[key][0][:200]} in the history {seen_sh[key][1]}: what a packet holds and serializes depends on the packets of the OTHER class handled before",
                                     classes=ssrc, cls=c['cls'], history=[first + ' first'] + [(x['cls'], x.get('value', {}).get('py') or x.get('raw')) for x in cs[:k + 1]], observed=o))
                break
            seen_sh.setdefault(key, (txt, f"{first} first, operation {k}"))
    dist = dict(histories=0, steps=0, interference=0, shared_objects=0, pack_impure=0, world_dependent=0, solo_compared=0, field_writes=0, thread_rounds=0, thread_mismatches=0)
    flat = [g for res in results[:-1] for g in res['groups']]
    for (table, hs), gres in zip(metas, flat):
        src = "".join(decl.py_class(c, pc) for c, pc in sorted(table.items()))
        for w in gres['writes']:
            dist['field_writes'] += 1
            # attributes that pack() reads back must never change after class creation (the lazily compiled ones -- pack, unpack,
            # struct_obj ... of a Field held by a selector -- are written once, from their placeholders)
            if len(w) > 2 and w[2] == 'changed' and w[1] in ('delimiter_to_be_included', 'default', 'prototype', 'until_marker', 'byte_count'):
                failures.append(dict(kind='oracle', sig='field-state-change', what=f"unpack/pack/construct CHANGED the value of attribute {w[1]!r} of a {w[0]} field object shared by all packets of the class",
                                     classes=src))
            if w[1] not in ALLOWED_ATTRS:
                failures.append(dict(kind='oracle', sig='field-write', what=f"unpack/pack/construct wrote attribute {w[1]!r} on a {w[0]} field object shared by all packets of the class",
                                     classes=src))
        ins = gres.get('inserted') or dict(n=0, bad=[])
        dist['pack_insertion_histories'] = dist.get('pack_insertion_histories', 0) + ins['n']
        for b in ins['bad']:
            failures.append(dict(kind='oracle', sig='pack-insertion', what=f"pack() is not observationally pure: the same history with a pack() inserted after every operation differs at step {b['step']} (fields / raises / bytes of a later pack)",
                                 classes=src, history=hs[b['history']], detail=b))
        sc = gres.get('scheduled') or dict(n=0, bad=[])
        dist['scheduled_histories'] = dist.get('scheduled_histories', 0) + sc['n']
        for b in sc['bad']:
            failures.append(dict(kind='oracle', sig='thread-schedule', what=f"the same history with every packet owned by its own thread (operations handed over one at a time) differs at step {b['step']} from the single-threaded run",
                                 classes=src, history=hs[b['history']], detail=b))
        for h, rep in zip(hs, gres['reports']):
            dist['histories'] += 1
            dist['steps'] += len(h)
            for r in rep:
                if r['kind'] == 'interference':
                    dist['interference'] += 1
                    failures.append(dict(kind='oracle', sig='interference', what=f"operation {r['op'][:2]} changed another packet ({r['victim']})", classes=src, history=h, detail=r))
                elif r['kind'] == 'shared-object':
                    dist['shared_objects'] += 1
                    failures.append(dict(kind='oracle', sig='shared-object', what=f"two packets share a mutable sub-object: {r['paths']}", classes=src, history=h, detail=r))
                elif r['kind'] == 'world-dependent':
                    dist['world_dependent'] += 1
                    failures.append(dict(kind='oracle', sig='world-dependent', what=f"packet {r['packet']} serializes to {r['here']} after this history but an equal packet alone in a fresh world serializes to {r['alone']}",
                                         classes=src, history=h, detail=r))
                elif r['kind'] == 'pack-impure':
                    dist['pack_impure'] += 1
                    failures.append(dict(kind='oracle', sig='pack-impure', what='two pack() calls returned different bytes or changed a field', classes=src, history=h, detail=r))
    # ---- Tie B for the aliasing half: the same histories on Model/Heap.v; after every operation the identity structure of the
    # live packets (which (packet, path) pairs are one object) must be what the model says
    import sys as _sys
    host = _sys.byteorder == 'big'
    hdr = ("From Coq Require Import ZArith List Bool.\n"
           "From Bisturi Require Import Base.Bytes Kernel.IntCodec Kernel.Align Kernel.DataK Model.Value Model.Decl Model.Unpack Model.Pack Model.Init "
           "Model.Canon Model.Heap.\nImport ListNotations. Open Scope Z_scope.\n"
           "Definition flat (l : list (list Z)) : list Z := flat_map (fun x => x ++ [-9]) l.\n"
           "Definition tree_ok (ct : ctab) (w : world) (r : Z) (want : option cval) : Z :=\n"
           "  match root_get (roots w) r, want with\n"
           "  | Some a, Some c => match read_tree RFUEL (hp w) (HRef a) with Some v => if cval_eqb (canon ct v) c then 1 else 0 | None => 0 end\n"
           "  | None, None => 1\n  | _, _ => 0\n  end.\n"
           "Fixpoint hist_v (host : bool) (ct : ctab) (w : world) (names : list Z) (ops : list wop) (wants : list (list (option cval))) : list (list Z) :=\n"
           "  match ops, wants with\n"
           "  | o :: r, wt :: wr =>\n"
           "      let w' := w_run1 host ct w o in\n"
           "      ((match w_step host ct w o with Some _ => 1 | None => 0 end) :: observe ct w' names ++ (-7) :: map (fun p => tree_ok ct w' (fst p) (snd p)) (combine names wt))\n"
           "        :: hist_v host ct w' names r wr\n"
           "  | _, _ => []\n  end.\n"
           "Definition hist (host : bool) (tbl : list (cid * pclass)) (names : list Z) (ops : list wop) (wants : list (list (option cval))) : list Z :=\n"
           "  let ct := mk_ctab tbl in (if ct_fresh ct then 1 else 0) :: (-9) :: flat (hist_v host ct w_empty names ops wants).\n")
    files, index = [], []
    gids = list(range(len(metas)))
    for part_i, part in enumerate(shard(gids, max(1, len(gids) // NPROC + 1))):
        text, calls = [hdr], []
        for gi in part:
            table, hs = metas[gi]
            text.append(f"Definition T{gi} : list (cid * pclass) := {decl.cq_table(table)}.\n")
            for hi, h in enumerate(hs):
                mops = [model_op(op, VALUES) for op in h]
                if any(m is None for m in mops):
                    continue
                names = sorted({int(op[1][1:]) for op in h if op[0] in ('new', 'parse', 'reparse')})
                text.append(f"Definition H{gi}_{hi} : list wop := [{'; '.join(mops)}].\n")
                wants = "[" + "; ".join("[" + "; ".join(("(Some " + decl.cq_canon(cv) + ")") if cv is not None else "None" for cv in ob['canon']) + "]"
                                        for ob in flat[gi]['observations'][hi]) + "]"
                text.append(f"Definition W{gi}_{hi} : list (list (option cval)) := {wants}.\n")
                calls.append(f"hist {'true' if host else 'false'} T{gi} [{'; '.join(map(str, names))}] H{gi}_{hi} W{gi}_{hi} ++ [-8]")
                index.append((gi, hi))
        text.append("Eval vm_compute in (" + (" ++ ".join(calls) if calls else "(@nil Z)") + ").\n")
        files.append((f"heap_{part_i}", "".join(text)))
    outs = coq_eval_files(files)
    stream = []
    for name, _ in files:
        stream += parse_coq_list(outs[name])
    model_hist, cur = [], []
    for z in stream:
        if z == -8:
            model_hist.append(cur); cur = []
        else:
            cur.append(z)

    def split_obs(seq):
        out, c = [], []
        for z in seq:
            if z == -9:
                out.append(c); c = []
            else:
                c.append(z)
        return out

    def norm(obs):
        ids = {}
        return [(ids.setdefault(z, len(ids)) if z >= 0 else z) for z in obs]
    heap_dis = []
    dist.update(heap_histories=0, heap_steps=0, heap_not_fresh=0, heap_user_shared=0)
    for (gi, hi), mseq in zip(index, model_hist):
        table, hs = metas[gi]
        obs_m = split_obs(mseq)
        if obs_m[0] != [1]:
            dist['heap_not_fresh'] += 1      # a selector hands out packet instances: every parse copies them (D9 fix), compared too
        obs_m = obs_m[1:]
        obs_i = flat[gi]['observations'][hi]
        dist['heap_histories'] += 1
        dist['heap_user_shared'] += any(op[0] == 'share' for op in hs[hi])
        for k, (om, oi) in enumerate(zip(obs_m, obs_i)):
            dist['heap_steps'] += 1
            oi = oi['seq']
            cut = om.index(-7)
            om, trees = om[:cut], om[cut + 1:]
            if any(t != 1 for t in trees):
                heap_dis.append(dict(kind='correspondence', what='Model/Heap.v and bisturi differ on the VALUE of a live packet after this operation (tree read back from the heap vs the attributes of the packet)',
                                     classes="".join(decl.py_class(c, pc) for c, pc in sorted(table.items())), history=hs[hi][:k + 1],
                                     per_packet_agreement=trees, implementation=flat[gi]['observations'][hi][k]['canon']))
                break
            if [om[0]] + norm(om[1:]) != [oi[0]] + norm(oi[1:]):
                heap_dis.append(dict(kind='correspondence', what='Model/Heap.v and bisturi differ on which (packet, path) pairs are the same object after this operation (or on whether it raises)',
                                     classes="".join(decl.py_class(c, pc) for c, pc in sorted(table.items())), history=hs[hi][:k + 1],
                                     model=[om[0]] + norm(om[1:]), implementation=[oi[0]] + norm(oi[1:])))
                break
    pres = results[-1]['groups'][0]
    names = ['D8 regex delimiter remembered on the shared field object', 'D9 a deferred selector returns the same packet object to every parse', None, None, None, None, None, None, None, None]
    for h, rep, nm in zip(probes['histories'], pres['reports'], names):
        for r in rep:
            if r['kind'] in ('interference', 'shared-object', 'pack-impure'):
                failures.append(dict(kind='oracle', sig=(nm or r['kind']), what=f"{r['kind']}: {json.dumps(r)[:300]}", history=h))
    for key, sig, text in (('inserted', 'pack-insertion', 'pack() is not observationally pure: the same history with a pack() inserted after every operation differs'),
                           ('scheduled', 'thread-schedule', 'the same history with every packet owned by its own thread differs from the single-threaded run')):
        for b in (pres.get(key) or {}).get('bad', []):
            h = probes['histories'][b['history']]
            if h[0][2] in ('DelimX', 'Hdr'):
                continue        # the D8 probes (class-level delimiter state): reported under their own name above
            failures.append(dict(kind='oracle', sig=sig, what=f"{text} at step {b['step']}", classes=probes['blocks'][0]['src'], history=h, detail=b))
    th = pres['threads']
    dist['thread_rounds'] = th['threads'] * th['rounds']
    dist['thread_mismatches'] = th['n_bad']
    if th['n_bad']:
        failures.append(dict(kind='oracle', sig='threads', what=f"parsing/serializing distinct packets of one class from {th['threads']} threads gave results that differ from the sequential ones", detail=th))
    return dict(evaluations=dist['steps'] + dist['thread_rounds'], distinct_nontrivial=dist['histories'],
                rule=("random class tables (shared sub-packet classes, defaults, prototypes, repeated fields); per table several histories of 3..7 "
                      "operations (construct with values / with defaults, assign a field or a list, pack) over several live packets; after every "
                      "operation every OTHER live packet's fields and pack() output must be unchanged, no list / nested packet may be shared by "
                      "identity between two packets, two consecutive pack() calls must agree; at the end of every history every live packet must serialize exactly as an equal packet built alone in a fresh world (the class definitions executed again) does; a write monitor on the field objects reports any "
                      "attribute written after class creation; 8 threads x rounds of parse+pack on distinct packets vs the sequential result; "
                      "explicit probes for the findings D8 and D9 and for an unconsumed delimiter; the same histories (with user-shared objects, in-place appends, deep assignments, re-parses) run on Model/Heap.v: after every operation the identity structure of the live packets and the value of each must agree"),
                samples=[dict(history=metas[0][1][0])] if metas and metas[0][1] else [],
                distribution=dist, failures=failures, disagreements=heap_dis)


def replay(f):
    return True, dict(note='re-run the check: python3 check.py C13', failure=f)
