"""C01 Parse-then-serialize reproduces the parsed bytes (whole-packet model: Model/Unpack.v, Model/Pack.v, Kernel/Frag.v)."""
import os
from common import *
import decl, gen, pktcases, pktprops

PID = 'C01'
TARGETS = ['Properties/C01.vo', 'Bridge/FragBridge.vo', 'Bridge/MoveBridge.vo', 'Bridge/IntBridge.vo', 'Bridge/DataBridge.vo', 'Bridge/BitsBridge.vo', 'Bridge/CodegenBridge.vo', 'Bridge/RefBridge.vo', 'Bridge/PlumbingBridge.vo']
KERNELS = ['G1_frag', 'G3_move', 'G4_seq', 'G5_bits', 'G6_int', 'G8_data', 'G11_codegen', 'G16_ref', 'G16b_optional', 'G17_builder', 'G19_field_ctor']
PROP_FILE = 'Properties/C01.v'
WHOLE_PACKET = True      # Tie A over all of the pack / unpack machinery (check.py: WHOLE_PACKET_KERNELS)


def start_of_data_positioning(table):
    return pktprops.has_feature(table, lambda k, o: (k == 'move' and o[1] == 'RBegins') or (k == 'class' and o.get('align') is not None)
                                or (k == 'body' and o[0] == 'seq' and o[6] not in (None, 1)))


def offset_compatible(table, off):
    if off == 0:
        return True
    for pc in table.values():
        if pc.get('align') is not None and off % pc['align'] != 0:
            return False
        for fd in pc['fields']:
            mv = fd.get('move')
            if mv and mv[1] == 'RBegins':
                arg, ref, al, _ = mv
                if not (al and arg[0] == 'const' and arg[1] > 0 and off % arg[1] == 0):
                    return False
            b = fd['body']
            if b[0] == 'seq' and b[6] not in (None, 1) and off % b[6] != 0:
                return False
    return True


def check_roundtrip(r, exact):
    """the property on one successful parse; returns None or a description of what fails"""
    o = r['outcome']
    raw, off = r['raw'], r['offset']
    p = o['packed']
    iv = o.get('intervals')
    if exact and iv is not None:
        ne = sorted((s, e) for s, e in iv if e > s)
        if any(s < off for s, e in ne):
            return None          # a chunk before the start offset: outside the statement (see D13)
        overlap = any(a[1] > b[0] for a, b in zip(ne, ne[1:]))
        if overlap:
            return None if p.get('err') == 'packing' else 'two fields consumed overlapping bytes but pack() did not raise PacketError'
        if 'ok' not in p:
            return f"pack() failed on a parsed packet: {p}"
        out = bytes.fromhex(p['ok'])
        cover = {}
        for s, e in ne:
            for q in range(s, e):
                cover[q - off] = raw[q] if q < len(raw) else None
        # the region the parse traversed: every cursor position a leaf read started or ended at (a read-to-end string
        # placed by alignment beyond the end of the input starts there and hands back the input's end: start > end)
        maxe = max([max(s, e) for s, e in iv] + [off]) - off
        if len(out) < maxe:
            return f"output shorter ({len(out)}) than the consumed region ({maxe})"
        for i, b in enumerate(out):
            want = cover.get(i, 0x2e)
            if b != want:
                return f"output byte {i} is {b:#x}, required {('%#x' % want) if want is not None else 'n/a'} ({'consumed' if i in cover else 'skipped'} position)"
        # ... and every position a positioning pseudo-field set the cursor to (a field of no bytes placed there extends the output)
        trav = max([maxe, o['end'] - off] + [m - off for m in o.get('moves', [])])
        if len(out) > trav:
            return f"output longer ({len(out)}) than the region the parse traversed ({trav})"
        return None
    if 'ok' in p:
        out = bytes.fromhex(p['ok'])
        for i, b in enumerate(out):
            if b != 0x2e and not (off + i < len(raw) and raw[off + i] == b):
                return f"output byte {i} ({b:#x}) is neither the parsed byte nor the fill byte"
    return None


def run(tier, seed, rng):
    ng = 70 if tier == 'quick' else 2500
    feats = lambda gid: dict(generic_unpack=(gid % 2 == 0), codegen_opts=(gid % 4 == 1))
    groups = pktprops.make_groups(rng, ng, feats, values_per_class=2 if tier == 'quick' else 4, offsets=(1, 4), record=True, defaults=False)
    # ---- zero-length and overlapping fields positioned inside bytes another field consumed (an empty chunk inside a fragment,
    # a later fragment after it): hand-made family, every combination of position and length
    for variant in range(3):
        fields = [{'move': None, 'body': ('elem', ('leaf', ('int', 1, False, None, 0)))},
                  {'move': None, 'body': ('elem', ('leaf', ('int', 1, False, None, 0)))},
                  {'move': None, 'body': ('elem', ('leaf', ('dsized', ('lit', 8), 'const', b'')))},
                  {'move': (('field', 0), ['RBegins', 'RInner', 'RBegins'][variant], False, 'at'),
                   'body': ('elem', ('leaf', ('dsized', ('field', 1), 'field', b'')))},
                  {'move': (('const', 10 + variant), 'RBegins', False, 'at'),
                   'body': ('elem', ('leaf', ('int', 2, False, None, 0)))}]
        if variant == 2:
            fields.insert(4, {'move': (('const', 5), 'RBegins', False, 'at'), 'body': ('em',)})
        table = {0: dict(end=None, align=None, sbl=None, gp=True, gu=False, vec=True, ann=True, fields=fields)}
        G = pktcases.Group(table, 50000 + variant)
        for off in range(2, 13):
            for ln in (0, 1, 2):
                raw = bytes([off, ln]) + b'ABCDEFGH' + b'\xbe\xef' + b'wxyz'
                G.add_unpack(0, raw, 0, record=True)
        groups.append(G)
    # ---- computed sizes around zero: a string whose size expression goes negative must not parse (if it did, the cursor
    # would move backwards, later fields would re-read consumed bytes and pack() would have to raise): every size -3..3
    for variant, how in enumerate(('expr', 'lambda', 'field')):
        size = ('field', 0) if how == 'field' else ('bin', 'Sub', ('field', 0), ('lit', 3))
        fields = [{'move': None, 'body': ('elem', ('leaf', ('int', 1, how == 'field', None, 0)))},
                  {'move': None, 'body': ('elem', ('leaf', ('int', 1, False, None, 0)))},
                  {'move': None, 'body': ('elem', ('leaf', ('dsized', size, how, b'')))},
                  {'move': None, 'body': ('elem', ('leaf', ('int', 2, False, None, 0)))}]
        table = {0: dict(end=None, align=None, sbl=None, gp=True, gu=False, vec=True, ann=True, fields=fields)}
        G = pktcases.Group(table, 51000 + variant)
        for n in range(-3, 4):
            first = (n % 256) if how == 'field' else n + 3
            G.add_unpack(0, bytes([first, 0x10]) + b'\xbe\xefwxyz', 0, record=True)
        groups.append(G)
    # ---- a field selected at run time, in classes that set class-wide options (byte order, search window): the selected
    # field is compiled on the spot, on both directions, and must be read and written the same way
    for variant, (end, sbl) in enumerate([('little', None), ('big', 2), ('local', 3), (None, None)]):
        opts = [('lit', ('leaf', ('int', 2, False, None, 0))), ('lit', ('leaf', ('int', 3, True, None, 0))),
                ('lit', ('leaf', ('dmarker', b';', False, b'')))]
        sel = ('choose', ('bin', 'Mod', ('field', 0), ('lit', 3)), opts)
        fields = [{'move': None, 'body': ('elem', ('leaf', ('int', 1, False, None, 0)))},
                  {'move': None, 'body': ('elem', ('refsel', sel, 'expr', 0))},
                  {'move': None, 'body': ('seq', ('refsel', sel, 'lambda', 0), (('lit', 2), 'const'), None, None, None, None)},
                  {'move': None, 'body': ('elem', ('leaf', ('int', 1, False, None, 0)))}]
        table = {0: dict(end=end, align=None, sbl=sbl, gp=True, gu=False, vec=True, ann=True, fields=fields)}
        G = pktcases.Group(table, 52000 + variant)
        for k in range(3):
            for body in (b'\x01\x02\x03', b'\x80\x00\x7f', b'ab;', b';;;', b'a;b'):
                G.add_unpack(0, bytes([k]) + body * 3 + b'\x09', 0, record=True)
        groups.append(G)
    # ---- one table of selectable FIELDS shared by several references (the selector hands out the SAME Field instance to each): what each
    # reference parsed is re-emitted under its own name, in place
    ssrc = ("TABLE = {1: Int(1), 2: Data(2), 3: Int(2)}\n"
            "class Two(Packet):\n    k = Int(1)\n    j = Int(1)\n    src = Ref(k.chooses(TABLE), default=0)\n    dst = Ref(j.chooses(TABLE), default=0)\n"
            "class TwoL(Packet):\n    __bisturi__ = {'generate_for_pack': False, 'generate_for_unpack': False}\n    k = Int(1)\n    j = Int(1)\n"
            "    src = Ref(k.chooses(TABLE), default=0)\n    dst = Ref(j.chooses(TABLE), default=0)\n"
            "class Many(Packet):\n    k = Int(1)\n    one = Ref(k.chooses(TABLE), default=0)\n    xs = Ref(k.chooses(TABLE), default=0).repeated(count=2)\n    t = Int(1)\n"
            "class Other(Packet):\n    k = Int(1)\n    body = Ref(k.chooses(TABLE), default=0)\n    z = Int(1)\n")
    senc = {1: lambda v: bytes([v]), 2: lambda v: v, 3: lambda v: v.to_bytes(2, 'big')}
    svals = {1: [5, 6, 7], 2: [b'ab', b'cd', b'ef'], 3: [258, 772, 1286]}
    scases = []
    for k in (1, 2, 3):
        for j in (3, 1, 2, k):
            for cls in ('Two', 'TwoL'):
                scases.append(dict(cls=cls, op='roundtrip', raw=(bytes([k, j]) + senc[k](svals[k][0]) + senc[j](svals[j][1])).hex(), offset=0))
        scases.append(dict(cls='Other', op='roundtrip', raw=(bytes([k]) + senc[k](svals[k][2]) + b'\x09').hex(), offset=0))
    for k in (2, 1, 3, 1):
        a, x0, x1 = svals[k]
        scases.append(dict(cls='Many', op='roundtrip', raw=(bytes([k]) + senc[k](a) + senc[k](x0) + senc[k](x1) + b'\x09').hex(), offset=0))
    sres = run_impl(os.path.join(VERIF, 'harness', 'impl_pkt.py'), dict(header=decl.HEADER_PY, blocks=[dict(name='shared', src=ssrc)], modname='c01s', cases=scases))
    shared_failures = []
    for c, o in zip(scases, sres['outcomes']):
        if 'ok' not in o or o.get('end') != len(c['raw']) // 2 or o.get('packed') != {'ok': c['raw']}:
            shared_failures.append(dict(kind='oracle', sig='roundtrip-shared-table', what=f"references sharing one table of selectable fields: unpack succeeded but pack() gives {o.get('packed')} instead of the parsed bytes {c['raw']}" if 'ok' in o else f"the input {c['raw']} does not parse: {o}",
                                        classes=ssrc, cls=c['cls'], raw=c['raw'], offset=0, observed=o))
    # ---- a regex delimiter that matches ONE string only (so nothing is lost although it is not kept in the value), the field not at
    # offset 0, more bytes after the message: what was consumed comes back, byte for byte
    rsrc = ("class RRec(Packet):\n    tag = Int(1)\n    text = Data(until_marker=re.compile(b'\\r\\n'))\n    crc = Int(1)\n"
            "class RLine(Packet):\n    body = Data(until_marker=re.compile(b';'))\n"
            "class RBlock(Packet):\n    n = Int(1)\n    lines = Ref(RLine).repeated(count=n)\n    t = Int(1)\n"
            "class RRecL(Packet):\n    __bisturi__ = {'generate_for_pack': False, 'generate_for_unpack': False}\n    tag = Int(1)\n    text = Data(until_marker=re.compile(b'\\r\\n'))\n    crc = Int(1)\n")
    rcases, rmeta = [], []
    for cls, msg in (('RRec', b'\x07hello\r\nZ'), ('RRecL', b'\x07hello\r\nZ'), ('RRec', b'\x01\r\nQ'), ('RBlock', b'\x02ab;cd;F'), ('RBlock', b'\x03;x;;G')):
        for off in (0, 1, 3):
            for suf in (b'', b'!', b'!!!!!!!!'):
                raw = b'PQR'[:off] + msg + suf
                rcases.append(dict(cls=cls, op='roundtrip', raw=raw.hex(), offset=off)); rmeta.append((cls, msg, off, raw))
    rres = run_impl(os.path.join(VERIF, 'harness', 'impl_pkt.py'), dict(header=decl.HEADER_PY, blocks=[dict(name='rx', src=rsrc)], modname='c01r', cases=rcases))
    for (cls, msg, off, raw), o in zip(rmeta, rres['outcomes']):
        if 'ok' not in o or o.get('end') != off + len(msg) or o.get('packed') != {'ok': msg.hex()}:
            shared_failures.append(dict(kind='oracle', sig='roundtrip-single-string-regex', what=f"{cls} parsed from {raw.hex()} at {off}: the message is {msg.hex()} (the regex delimiter matches one string only); observed end {o.get('end')}, pack() {o.get('packed')}",
                                        classes=rsrc, cls=cls, raw=raw.hex(), offset=off, observed=o))
    records, disagreements = pktcases.run_groups(groups, 'c01')
    failures = list(shared_failures)
    dist = dict(parsed=0, exact_checked=0, weak_checked=0, with_holes=0, offset_nonzero=0, pack_error_on_overlap=0)
    passed0 = {}
    rts = [r for r in records if r['kind'] == 'roundtrip' and 'ok' in r['outcome']]
    results = []
    for r in rts:
        table = pktprops.table_of(groups, r['group'])
        exact = all(not pc.get('gu', True) for pc in table.values())
        why = check_roundtrip(r, exact)
        results.append((r, table, exact, why))
        dist['parsed'] += 1
        dist['exact_checked' if exact else 'weak_checked'] += 1
        dist['offset_nonzero'] += r['offset'] != 0
        p = r['outcome']['packed']
        dist['with_holes'] += ('ok' in p and '2e' in p['ok'])
        dist['pack_error_on_overlap'] += 'err' in p
        if why is None and r['offset'] == 0:
            passed0[(r['group'], r['c'], r['raw'])] = True
    failures += pktprops.public_api_failures(groups, records)[:20]
    # finding D10: positioning relative to the start of the data is reproduced by pack only when the start offset is
    # compatible with it (offset 0, or a multiple of every such alignment) -- exactly the hypothesis of theorem C01 / C10
    for r, table, exact, why in results:
        if why is None:
            continue
        sig = 'roundtrip'
        if not offset_compatible(table, r['offset']):
            sig = 'D10 start-of-data positioning with a non-zero start offset'
        failures.append(dict(kind='oracle', sig=sig, what='unpack then pack does not reproduce the parsed bytes: ' + why,
                             classes=pktprops.class_source(groups, r['group']), cls=decl.cname(r['c']), raw=r['raw'].hex(), offset=r['offset'],
                             observed=r['outcome']['packed'], parsed=r['outcome']['ok']))
    return dict(evaluations=len(records), distinct_nontrivial=len({(r['group'], r['c'], r.get('raw', b'').hex(), r.get('offset')) for r in rts}),
                classes=sum(len(g.table) for g in groups),
                rule=("random class tables over the whole declaration language (Int, Data in all sizing modes, Bits runs, Ref to packets and to "
                      "run-time selected fields/packets, repeated/when/at/shift/aligned/Em, class options), per class consistent values encoded by "
                      "the implementation, then parsed and re-serialized: the encoding itself, every truncation (up to a cap), byte flips, and the "
                      "encoding embedded at start offsets 1 and 4 between random bytes; half of the tables run the generic parser so that the "
                      "consumed intervals are observed exactly; non-trivial = distinct successful parses"),
                samples=[dict(cls=decl.cname(r['c']), raw=r['raw'].hex(), offset=r['offset'], packed=r['outcome']['packed']) for r in rts[:3]] +
                        [dict(classes=pktprops.class_source(groups, rts[0]['group']))] if rts else [],
                distribution=dist, failures=failures, disagreements=disagreements)


def replay(f):
    name = f['cls']
    blocks = [dict(name='all', src=f['classes'])]
    res = run_impl(os.path.join(VERIF, 'harness', 'impl_pkt.py'),
                   dict(header=decl.HEADER_PY, blocks=blocks, modname='c01r',
                        cases=[dict(cls=name, op='roundtrip', raw=f['raw'], offset=f['offset'], record=True)]))
    o = res['outcomes'][0]
    if 'ok' not in o:
        return False, dict(observed=o, note='the input no longer parses')
    why = check_roundtrip(dict(outcome=o, raw=bytes.fromhex(f['raw']) if isinstance(f['raw'], str) else f['raw'], offset=f['offset']), True)
    return why is not None, dict(observed=o, failure=why)
