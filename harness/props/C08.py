"""C08 Repeated, optional and referenced fields follow their declared control semantics."""
import os
from common import *
import decl, gen, pktcases, pktprops

PID = 'C08'
TARGETS = ['Properties/C08.vo', 'Bridge/MoveBridge.vo', 'Bridge/CodegenBridge.vo', 'Bridge/RefBridge.vo', 'Bridge/PlumbingBridge.vo', 'Bridge/ErrorsBridge.vo']
KERNELS = ['G4_seq', 'G11_codegen', 'G16_ref', 'G16b_optional', 'G17_builder', 'G18_conditions', 'G9_errors']
PROP_FILE = 'Properties/C08.v'
WHOLE_PACKET = True      # Tie A over all of the pack / unpack machinery (check.py: WHOLE_PACKET_KERNELS)


def check_value(table, v, out, path=''):
    """reference interpretation of the control rules only: given a parsed packet value, are the lists / optionals what
    the declaration's counts and conditions (evaluated on the parsed values) demand?"""
    if not (isinstance(v, tuple) and v[0] == 'pkt'):
        return
    c, env_all = v[1], v[2]
    pc = table[c]
    env = {}
    for i, fd in enumerate(pc['fields']):
        b = fd['body']
        val = env_all.get(i)
        here = f"{path}K{c}.f{i}"
        try:
            if b[0] == 'seq':
                _, el, count, until, when, dflt, al = b
                out['seq'] += 1
                if not isinstance(val, list):
                    out['bad'].append((here, 'a repeated field did not yield a list', val))
                else:
                    e0 = dict(env); e0[i] = []
                    n = gen.as_int(gen.py_eval(count[0], e0)) if count else 1
                    skip = when is not None and (n <= 0 or not gen.truth(gen.py_eval(when[0], e0)))
                    if skip:
                        out['when_false'] += 1
                        if val != []:
                            out['bad'].append((here, 'when-condition false (or count <= 0) but the list is not empty', val))
                    elif count:
                        out['counted'] += 1
                        if len(val) != max(n, 0):
                            out['bad'].append((here, f'count evaluates to {n} but the list has {len(val)} elements', val))
                    else:
                        out['until'] += 1
                        if len(val) < 1:
                            out['bad'].append((here, 'an until-sequence must hold at least one element', val))
                        for k in range(1, len(val) + 1):
                            ek = dict(env); ek[i] = val[:k]
                            stop = gen.truth(gen.py_eval(until[0], ek))
                            if k < len(val) and stop:
                                out['bad'].append((here, f'the until-condition was already true after {k} elements but {len(val)} were parsed', val))
                                break
                            if k == len(val) and not stop:
                                out['bad'].append((here, 'the until-condition is false on the final list', val))
                    for x in val:
                        check_value(table, x, out, here + '[]/')
            elif b[0] == 'opt':
                out['opt'] += 1
                on = gen.truth(gen.py_eval(b[2][0], env))
                if on != (val is not None):
                    out['bad'].append((here, f'optional: condition is {on} but the value is {val!r}', val))
                check_value(table, val, out, here + '/')
            elif b[0] == 'elem' and b[1][0] == 'refsel':
                out['selected'] += 1
                t = gen.py_eval(b[1][1], env)
                if isinstance(t, tuple) and t[0] == 'pkt':
                    if not (isinstance(val, tuple) and val[0] == 'pkt' and val[1] == t[1]):
                        out['bad'].append((here, f'the selector chose packet class K{t[1]} but the value is {val!r}', val))
                elif isinstance(t, tuple) and t[0] == 'leaf':
                    want = int if t[1][0] == 'int' else bytes
                    if not isinstance(val, want) or isinstance(val, bool):
                        out['bad'].append((here, f'the selector chose a {t[1][0]} field but the value is {val!r}', val))
                check_value(table, val, out, here + '/')
            elif b[0] == 'elem' and b[1][0] == 'refpkt':
                out['ref'] += 1
                if not (isinstance(val, tuple) and val[0] == 'pkt' and val[1] == b[1][1]):
                    out['bad'].append((here, f'a reference to K{b[1][1]} holds {val!r}', val))
                check_value(table, val, out, here + '/')
        except gen.PyExn:
            out['unevaluable'] += 1
        if val is not None or i in env_all:
            env[i] = val


class NoRef(Exception):
    """the positional reference does not cover this declaration (positioning, regex delimiter not kept, ...)"""


def leaf_size(l, val, cur, rawlen):
    k = l[0]
    if k == 'int':
        return l[1]
    if k == 'dsized':
        return len(val)
    if k == 'deos':
        if cur > rawlen:
            raise NoRef()      # a read-to-end string placed beyond the end of the input hands the cursor back (see DESIGN, O1)
        return len(val)
    if k == 'dmarker':
        return len(val) + (0 if l[2] else len(l[1]))
    if k == 'dregex' and l[2]:
        return len(val)
    raise NoRef()


def elem_end(table, el, val, cur, env, rawlen):
    if el[0] == 'leaf':
        return cur + leaf_size(el[1], val, cur, rawlen)
    if el[0] == 'refpkt':
        return pkt_end(table, val, cur, rawlen)
    if el[0] == 'refsel':
        try:
            t = gen.py_eval(el[1], env)
        except gen.PyExn:
            raise NoRef()
        if isinstance(t, tuple) and t[0] == 'pkt':
            return pkt_end(table, val, cur, rawlen)
        if isinstance(t, tuple) and t[0] == 'leaf':
            return cur + leaf_size(t[1], val, cur, rawlen)
    raise NoRef()


def pkt_end(table, v, cur, rawlen):
    """'parsing continues right after': where the parse of the packet value v, started at cur, must end -- computed from the
    parsed values and the declaration alone (every value has a known encoded length; an empty list / a None optional has
    none; elements of a repeated field start at the next multiple of its alignment)"""
    if not (isinstance(v, tuple) and v[0] == 'pkt'):
        raise NoRef()
    pc = table[v[1]]
    vals = v[2]
    if pc.get('align') is not None:
        raise NoRef()
    env = {}
    fields = pc['fields']
    i = 0
    while i < len(fields):
        fd = fields[i]
        b = fd['body']
        if fd.get('move'):
            raise NoRef()
        val = vals.get(i)
        if b[0] == 'bits':
            w = 0
            while i < len(fields) and fields[i]['body'][0] == 'bits' and not fields[i].get('move'):
                w += fields[i]['body'][1]
                env[i] = vals.get(i)
                i += 1
            if w % 8:
                raise NoRef()
            cur += w // 8
            continue
        if b[0] == 'elem':
            cur = elem_end(table, b[1], val, cur, env, rawlen)
        elif b[0] == 'seq':
            al = b[6]
            if not isinstance(val, list):
                raise NoRef()
            e0 = dict(env); e0[i] = val
            for x in val:
                if al not in (None, 1):
                    cur += (al - cur % al) % al
                cur = elem_end(table, b[1], x, cur, e0, rawlen)
        elif b[0] == 'opt':
            if val is not None:
                cur = elem_end(table, b[1], val, cur, env, rawlen)
        elif b[0] != 'em':
            raise NoRef()
        if val is not None or i in vals:
            env[i] = val
        i += 1
    return cur


def run(tier, seed, rng):
    ng = 70 if tier == 'quick' else 2500
    feats = lambda g: dict(seq=True, opt=True, refsel=True, bits=(g % 3 == 0), move=(g % 4 == 0), codegen_opts=(g % 3 == 1), opt_rate=4)   # optional fields frequent (their declared defaults too); a third of the tables mix generated and generic classes
    groups = pktprops.make_groups(rng, ng, feats, values_per_class=3 if tier == 'quick' else 5, offsets=(2,), maxcuts=8, flips=4, defaults=False)
    # counts in {-2..3} incl. negative ones: flip the count-bearing bytes (done by the byte flips) and add explicit constants
    records, disagreements = pktcases.run_groups(groups, 'c08')
    failures = []
    # ---- a selector given as a callable that builds a FRESH packet on every call, the selected class changing from element to
    # element and from parse to parse: each element is parsed as the class selected for IT and parsing continues right after it
    import itertools as _it
    fsrc = ("class FS(Packet):\n    tag = Int(1)\n    val = Int(1)\n"
            "class FL(Packet):\n    tag = Int(1)\n    val = Int(2)\n"
            "class FM(Packet):\n    tag = Int(1)\n    val = Int(3)\n"
            "def _pick(raw, offset):\n    t = raw[offset]\n    return FL() if t & 0x80 else (FM() if t & 0x40 else FS())\n"
            "class FRec(Packet):\n    n = Int(1)\n    items = Ref(lambda pkt, raw, offset, **k: _pick(raw, offset), default=FS()).repeated(count=n)\n    trailer = Data(2)\n"
            "class FRecL(Packet):\n    __bisturi__ = {'generate_for_pack': False, 'generate_for_unpack': False}\n    n = Int(1)\n"
            "    items = Ref(lambda pkt, raw, offset, **k: _pick(raw, offset), default=FS()).repeated(count=n)\n    trailer = Data(2)\n"
            "class FOne(Packet):\n    r = Ref(lambda pkt, raw, offset, **k: _pick(raw, offset), default=FS())\n    z = Int(1)\n")
    kinds = {'S': (0x01, 1, 'FS'), 'L': (0x81, 2, 'FL'), 'M': (0x41, 3, 'FM')}
    fcases, fmeta = [], []
    seqs = [q for L in range(1, 4) for q in _it.product('SLM', repeat=L)]
    for q in seqs:
        body, want = b'', []
        for i, kch in enumerate(q):
            tag, w, cn = kinds[kch]
            v = (7 + 3 * i) % 250
            body += bytes([tag]) + v.to_bytes(w, 'big')
            want.append((cn, tag, v))
        raw = bytes([len(q)]) + body + b'TR'
        for cls in ('FRec', 'FRecL'):
            fcases.append(dict(cls=cls, op='roundtrip', raw=raw.hex(), offset=0)); fmeta.append((cls, raw, want))
    for q in [('S', 'L', 'S', 'M', 'L', 'L', 'S')]:
        for kch in q:                      # single references parsed one after the other in one process
            tag, w, cn = kinds[kch]
            raw = bytes([tag]) + (9).to_bytes(w, 'big') + b'\x2a'
            fcases.append(dict(cls='FOne', op='roundtrip', raw=raw.hex(), offset=0)); fmeta.append(('FOne', raw, [(cn, tag, 9)]))
    fres = run_impl(os.path.join(VERIF, 'harness', 'impl_pkt.py'), dict(header=decl.HEADER_PY, blocks=[dict(name='fresh', src=fsrc)], modname='c08f', cases=fcases))
    for (cls, raw, want), o in zip(fmeta, fres['outcomes']):
        got = None
        if 'ok' in o:
            f = dict(o['ok']['f'])
            items = f['items'] if cls != 'FOne' else [f['r']]
            got = [(it.get('p'), dict(it['f']).get('tag'), dict(it['f']).get('val')) if isinstance(it, dict) else it for it in items]
        if got != want or o.get('end') != len(raw):
            failures.append(dict(kind='oracle', sig='fresh-selector', what=f"a selector building a fresh packet per call: elements must parse as {want} and the parse must end at {len(raw)}; observed {got}, end {o.get('end')}",
                                 classes=fsrc, cls=cls, raw=raw.hex(), offset=0, observed=o))
    # ---- self-referential declarations: a repeated field whose elements are packets of the class that declares it (a tree): parsing
    # an element re-enters the same field object; counted and until forms; every tree shape up to 7 nodes in breadth-first encoding
    tsrc = ("class TNode(Packet):\n    n = Int(1)\n    v = Int(1)\n    kids = Ref(lambda **k: TNode(), default=0).repeated(count=n)\n"
            "class TNodeL(Packet):\n    __bisturi__ = {'generate_for_pack': False, 'generate_for_unpack': False}\n    n = Int(1)\n    v = Int(1)\n"
            "    kids = Ref(lambda **k: TNodeL(), default=0).repeated(count=n)\n"
            "class UNode(Packet):\n    last = Int(1)\n    v = Int(1)\n    kids = Ref(lambda **k: UNode(), default=0).repeated(until=lambda pkt, **k: pkt.kids[-1].last == 1, when=v)\n"
            "class TTop(Packet):\n    h = Int(1)\n    root = Ref(TNode)\n    t = Int(1)\n")
    def enc(tree):           # tree = (value, [children])
        return bytes([len(tree[1]), tree[0]]) + b''.join(enc(c) for c in tree[1])
    def shape(tree):
        return [tree[0], [shape(c) for c in tree[1]]]
    def parsed_shape(o):
        f = dict(o['f'])
        return [f['v'], [parsed_shape(k) for k in f['kids']]]
    trees = [(1, []), (1, [(2, [])]), (1, [(2, []), (3, [])]), (1, [(2, [(4, [])]), (3, [])]), (1, [(2, []), (3, [(5, []), (6, [])])]),
             (1, [(2, [(4, [(7, [])])])]), (1, [(2, [(4, []), (5, [])]), (3, [(6, [])])]), (9, [(8, []), (7, []), (6, [(5, [(4, [])])])])]
    tcases, tmeta = [], []
    for tr in trees:
        raw = enc(tr)
        for cls in ('TNode', 'TNodeL'):
            tcases.append(dict(cls=cls, op='roundtrip', raw=(raw + b'\x55').hex(), offset=0)); tmeta.append((cls, raw + b'\x55', shape(tr), len(raw)))
        tcases.append(dict(cls='TTop', op='roundtrip', raw=(b'\x07' + raw + b'\x09').hex(), offset=0)); tmeta.append(('TTop', b'\x07' + raw + b'\x09', shape(tr), len(raw) + 2))
    # until form: every node with v != 0 has children, the last child of each list has last == 1
    def uenc(v, kids, last):
        return bytes([1 if last else 0, v]) + b''.join(uenc(kv, kk, i == len(kids) - 1) for i, (kv, kk) in enumerate(kids))
    utrees = [(0, []), (1, [(0, [])]), (2, [(0, []), (0, [])]), (3, [(4, [(0, [])]), (0, [])]), (5, [(0, []), (6, [(0, []), (0, [])])])]
    for uv, uk in utrees:
        raw = uenc(uv, uk, True)
        tcases.append(dict(cls='UNode', op='roundtrip', raw=(raw + b'\x55').hex(), offset=0)); tmeta.append(('UNode', raw + b'\x55', shape((uv, uk)), len(raw)))
    tres = run_impl(os.path.join(VERIF, 'harness', 'impl_pkt.py'), dict(header=decl.HEADER_PY, blocks=[dict(name='trees', src=tsrc)], modname='c08t', cases=tcases))
    for (cls, raw, want, end), o in zip(tmeta, tres['outcomes']):
        got = None
        if 'ok' in o:
            node = dict(o['ok']['f'])['root'] if cls == 'TTop' else o['ok']
            try:
                got = parsed_shape(node)
            except Exception as e:
                got = 'unreadable: ' + type(e).__name__
        if got != want or o.get('end') != end:
            failures.append(dict(kind='oracle', sig='recursive-sequence', what=f"a repeated field whose elements are packets of its own class: the tree must parse as {want} and end at {end}; observed {got}, end {o.get('end')}",
                                 classes=tsrc, cls=cls, raw=raw.hex(), offset=0, observed=o))
    # ---- a when-condition given as a FIELD that is itself optional (chained optionals): absent (None), present but empty / zero,
    # present and non-empty -- only the last is true
    def _ch(sfx, conf):
        return (f"class Chained{sfx}(Packet):\n{conf}    has = Int(1)\n    msg = Data(until_marker=b'\\0').when(has)\n    author = Data(until_marker=b'\\0').when(msg)\n    tail = Int(1)\n"
                f"class ChInts{sfx}(Packet):\n{conf}    flag = Int(1)\n    extra0 = Int(1).when(flag)\n    extra = Int(1).when(extra0)\n    items = Int(1).repeated(2, when=extra0)\n    t = Int(1)\n"
                f"class ChSeq{sfx}(Packet):\n{conf}    n = Int(1)\n    xs = Int(1).repeated(n)\n    more = Int(1).when(xs)\n    t = Int(1)\n")
    chsrc = _ch('', '') + _ch('L', "    __bisturi__ = {'generate_for_pack': False, 'generate_for_unpack': False}\n")
    chcases, chwant = [], []
    for sfx in ('', 'L'):
        for cls, raw, want, end in (('Chained', b'\x00joe\x00\x07', dict(has=0, msg=None, author=None, tail=0x6a), 2),
                                    ('Chained', b'\x01\x00joe\x00\x07', dict(has=1, msg={'x': ''}, author=None, tail=0x6a), 3),
                                    ('Chained', b'\x01hi\x00joe\x00\x07', dict(has=1, msg={'x': '6869'}, author={'x': '6a6f65'}, tail=7), 9),
                                    ('ChInts', bytes([0, 7, 8, 9]), dict(flag=0, extra0=None, extra=None, items=[], t=7), 2),
                                    ('ChInts', bytes([1, 0, 7, 8, 9]), dict(flag=1, extra0=0, extra=None, items=[], t=7), 3),
                                    ('ChInts', bytes([1, 5, 7, 8, 9, 4]), dict(flag=1, extra0=5, extra=7, items=[8, 9], t=4), 6),
                                    ('ChSeq', bytes([0, 7, 8]), dict(n=0, xs=[], more=None, t=7), 2),
                                    ('ChSeq', bytes([2, 0, 0, 7, 8]), dict(n=2, xs=[0, 0], more=7, t=8), 5)):
            chcases.append(dict(cls=cls + sfx, op='roundtrip', raw=raw.hex(), offset=0)); chwant.append((want, end))
    chres = run_impl(os.path.join(VERIF, 'harness', 'impl_pkt.py'), dict(header=decl.HEADER_PY, blocks=[dict(name='chained', src=chsrc)], modname='c08c', cases=chcases))
    for c, o, (w, end) in zip(chcases, chres['outcomes'], chwant):
        got = dict(o['ok']['f']) if 'ok' in o else None
        if got != w or o.get('end') != end or (o.get('packed') or {}).get('ok') != c['raw'][:2 * end]:
            failures.append(dict(kind='oracle', sig='chained-optional', what=f"a when-condition that is an optional field (absent / empty / zero counts as false): expected {w}, end {end}, the same bytes back; observed {str(o)[:250]}",
                                 classes=chsrc, cls=c['cls'], raw=c['raw'], offset=0, observed=o))
    # ---- a count that evaluates BELOW ZERO (signed field, header arithmetic, callable), no when-condition: exactly max(count, 0) = 0
    # elements, nothing consumed, parsing goes on
    nsrc = ("class NField(Packet):\n    n = Int(1, signed=True)\n    xs = Int(1).repeated(count=n)\n    t = Int(1)\n"
            "class NExpr(Packet):\n    n = Int(1)\n    xs = Int(2).repeated(count=n - 3)\n    t = Int(1)\n"
            "class NCall(Packet):\n    n = Int(1)\n    xs = Int(1).repeated(count=lambda pkt, **k: pkt.n - 2)\n    t = Int(1)\n"
            "class NFieldL(Packet):\n    __bisturi__ = {'generate_for_pack': False, 'generate_for_unpack': False}\n    n = Int(1, signed=True)\n    xs = Int(1).repeated(count=n)\n    t = Int(1)\n"
            "class NIn(Packet):\n    h = Int(1)\n    rs = Ref(NExpr).repeated(count=2)\n    z = Int(1)\n")
    ncases, nwant = [], []
    for cls, n, k, w in (('NField', 255, -1, 1), ('NField', 253, -3, 1), ('NField', 0, 0, 1), ('NField', 2, 2, 1), ('NFieldL', 254, -2, 1), ('NFieldL', 1, 1, 1),
                         ('NExpr', 0, -3, 2), ('NExpr', 2, -1, 2), ('NExpr', 3, 0, 2), ('NExpr', 5, 2, 2), ('NCall', 0, -2, 1), ('NCall', 1, -1, 1), ('NCall', 4, 2, 1)):
        cnt = max(k, 0)
        elems = [(7 + i) for i in range(cnt)]
        raw = bytes([n]) + b''.join(e.to_bytes(w, 'big') for e in elems) + b'\x2a' + b'tail'
        ncases.append(dict(cls=cls, op='roundtrip', raw=raw.hex(), offset=0)); nwant.append((dict(n=(n - 256 if (cls.startswith('NField') and n > 127) else n), xs=elems, t=42), 1 + cnt * w + 1))
    ncases.append(dict(cls='NIn', op='roundtrip', raw=bytes([9, 1, 5, 2, 6, 8]).hex(), offset=0)); nwant.append((None, 6))
    nres = run_impl(os.path.join(VERIF, 'harness', 'impl_pkt.py'), dict(header=decl.HEADER_PY, blocks=[dict(name='negcount', src=nsrc)], modname='c08n', cases=ncases))
    for c, o, (w, end) in zip(ncases, nres['outcomes'], nwant):
        got = dict(o['ok']['f']) if 'ok' in o else None
        if 'ok' not in o or o.get('end') != end or (w is not None and got != w):
            failures.append(dict(kind='oracle', sig='negative-count', what=f"a repeated field with a count below zero yields max(count, 0) elements and consumes nothing: expected {w}, end {end}; observed {str(o)[:250]}",
                                 classes=nsrc, cls=c['cls'], raw=c['raw'], offset=0, observed=o))
    # ---- counts / conditions / selectors given as EXPRESSIONS, evaluated for a packet on which an operator raises (division by zero,
    # index out of range, unknown key), then again for well-formed packets of the same class in the same process
    xsrc = ("class XChunk(Packet):\n    total = Int(1)\n    size = Int(1)\n    items = Int(1).repeated(count=total // size)\n    t = Data(1)\n"
            "class XFlag(Packet):\n    n = Int(1)\n    vals = Int(1).repeated(count=n)\n    opt = Int(1).when(vals[0] == 255)\n    t = Int(1)\n"
            "class XSel(Packet):\n    kind = Int(1)\n    body = Ref(kind.chooses({1: Int(1), 2: Int(2)}), default=0)\n    t = Int(1)\n")
    xcases = [('XChunk', bytes([4, 2, 65, 66, 67]), {'total': 4, 'size': 2, 'items': [65, 66], 't': {'x': '43'}}),
              ('XChunk', bytes([4, 0, 65, 66, 67]), None),
              ('XChunk', bytes([4, 2, 65, 66, 67]), {'total': 4, 'size': 2, 'items': [65, 66], 't': {'x': '43'}}),
              ('XChunk', bytes([3, 1, 65, 66, 67, 68]), {'total': 3, 'size': 1, 'items': [65, 66, 67], 't': {'x': '44'}}),
              ('XChunk', bytes([9, 0, 1]), None),
              ('XChunk', bytes([2, 2, 65, 66]), {'total': 2, 'size': 2, 'items': [65], 't': {'x': '42'}}),
              ('XFlag', bytes([1, 255, 7, 9]), {'n': 1, 'vals': [255], 'opt': 7, 't': 9}),
              ('XFlag', bytes([0, 7, 9]), None),
              ('XFlag', bytes([1, 255, 7, 9]), {'n': 1, 'vals': [255], 'opt': 7, 't': 9}),
              ('XFlag', bytes([2, 1, 2, 9]), {'n': 2, 'vals': [1, 2], 'opt': None, 't': 9}),
              ('XSel', bytes([1, 5, 9]), {'kind': 1, 'body': 5, 't': 9}),
              ('XSel', bytes([3, 5, 9]), None),
              ('XSel', bytes([2, 1, 2, 9]), {'kind': 2, 'body': 258, 't': 9}),
              ('XSel', bytes([1, 5, 9]), {'kind': 1, 'body': 5, 't': 9})]
    xres = run_impl(os.path.join(VERIF, 'harness', 'impl_pkt.py'), dict(header=decl.HEADER_PY, blocks=[dict(name='xraise', src=xsrc)], modname='c08x',
                                                                       cases=[dict(cls=c, op='roundtrip', raw=r.hex(), offset=0) for c, r, _ in xcases]))
    for k, ((cls, raw, want), o) in enumerate(zip(xcases, xres['outcomes'])):
        got = dict(o['ok']['f']) if 'ok' in o else None
        if (want is None and o.get('err') != 'unpacking') or (want is not None and got != want):
            failures.append(dict(kind='oracle', sig='after-a-raising-expression', what=f"inputs parsed one after the other in one process; input {k} ({cls} {raw.hex()}) must give {want if want is not None else 'a PacketError'}; observed {str(o)[:200]}",
                                 classes=xsrc, cls=cls, raw=raw.hex(), offset=0, sequence=[[c, r.hex()] for c, r, _ in xcases[:k + 1]], observed=o))
    out = dict(seq=0, counted=0, until=0, when_false=0, opt=0, selected=0, ref=0, unevaluable=0, parsed=0, positions=0, positions_not_covered=0, bad=[], fresh_selector_cases=len(fcases), recursive_tree_cases=len(tcases), after_raising_expression=len(xcases))
    for r in records:
        if r['kind'] != 'roundtrip' or 'ok' not in r['outcome']:
            continue
        out['parsed'] += 1
        table = pktprops.table_of(groups, r['group'])
        nbad = len(out['bad'])
        check_value(table, pktprops.uncanon(r['outcome']['ok']), out)
        # positions: the parse must end where the encoded lengths of the parsed values put it (an empty list or an absent
        # optional consumes nothing; parsing continues right after a nested packet)
        if 'end' in r['outcome']:
            try:
                want = pkt_end(table, pktprops.uncanon(r['outcome']['ok']), r['offset'], len(r['raw']))
                out['positions'] += 1
                if want != r['outcome']['end']:
                    out['bad'].append((decl.cname(r['c']), f"the parse ended at {r['outcome']['end']} but the parsed values occupy exactly "
                                       f"[{r['offset']}, {want}) (a field consumed bytes it has no value for, or parsing did not continue right after one)", None))
            except NoRef:
                out['positions_not_covered'] += 1
        for here, why, val in out['bad'][nbad:]:
            failures.append(dict(kind='oracle', sig='control', what=f"{here}: {why}", classes=pktprops.class_source(groups, r['group']),
                                 cls=decl.cname(r['c']), raw=r['raw'].hex(), offset=r['offset'], observed=r['outcome']['ok']))
    # ---- one table of selectable fields shared by several references (the selector hands out the SAME Field instance to each):
    # every reference stores what it parsed under its own name, whatever the order in which the options are met
    ssrc = ("TABLE = {1: Int(1), 2: Data(2), 3: Int(2)}\n"
            "class Two(Packet):\n    k = Int(1)\n    j = Int(1)\n    src = Ref(k.chooses(TABLE), default=0)\n    dst = Ref(j.chooses(TABLE), default=0)\n"
            "class Many(Packet):\n    k = Int(1)\n    one = Ref(k.chooses(TABLE), default=0)\n    xs = Ref(k.chooses(TABLE), default=0).repeated(count=2)\n    t = Int(1)\n")
    enc = {1: lambda v: bytes([v]), 2: lambda v: v, 3: lambda v: v.to_bytes(2, 'big')}
    vals = {1: [5, 6, 7], 2: [b'ab', b'cd', b'ef'], 3: [258, 772, 1286]}
    scases, swant = [], []
    for k in (1, 2, 3):
        for j in (3, 1, 2):
            a, b = vals[k][0], vals[j][1]
            scases.append(dict(cls='Two', op='roundtrip', raw=(bytes([k, j]) + enc[k](a) + enc[j](b)).hex(), offset=0))
            swant.append([['k', k], ['j', j], ['src', a], ['dst', b]])
    for k in (2, 1, 3, 1):
        a, x0, x1 = vals[k]
        scases.append(dict(cls='Many', op='roundtrip', raw=(bytes([k]) + enc[k](a) + enc[k](x0) + enc[k](x1) + b'\x09').hex(), offset=0))
        swant.append([['k', k], ['one', a], ['xs', [x0, x1]], ['t', 9]])
    sres = run_impl(os.path.join(VERIF, 'harness', 'impl_pkt.py'), dict(header=decl.HEADER_PY, blocks=[dict(name='shared', src=ssrc)], modname='c08s', cases=scases))
    out['shared_selector_table_cases'] = len(scases)
    cv = lambda x: {'x': x.hex()} if isinstance(x, bytes) else ([cv(y) for y in x] if isinstance(x, list) else x)
    for c, o, w in zip(scases, sres['outcomes'], swant):
        want = [[n, cv(v)] for n, v in w]
        if o.get('ok', {}).get('f') != want or o.get('packed') != {'ok': c['raw']}:
            failures.append(dict(kind='oracle', sig='control-shared-table', what='references sharing one table of selectable fields: a reference did not store (or re-emit) the value it parsed under its own name',
                                 classes=ssrc, cls=c['cls'], raw=c['raw'], offset=0, observed=o, required=want))
    bad = out.pop('bad')
    return dict(evaluations=len(records), distinct_nontrivial=out['seq'] + out['opt'] + out['selected'] + out['ref'],
                rule=("random class tables rich in repeated (count as constant / field / expression / callable, until-callables over the list "
                      "built so far, when-conditions, per-element alignment), optional and referenced (fixed and run-time selected) fields, "
                      "nested; encodings of consistent values, truncations, byte flips (which also drive counts to 0 and to large values) and a "
                      "start offset; every successfully parsed packet is re-examined by a reference interpretation of the control rules alone, and (declarations without positioning) its end offset is compared with the end computed from the encoded lengths of the parsed values; "
                      "distinct_nontrivial = number of repeated/optional/reference fields examined"),
                samples=[dict(classes=pktprops.class_source(groups, r['group']), raw=r['raw'].hex(), parsed=r['outcome'].get('ok'))
                         for r in records if r['kind'] == 'roundtrip' and 'ok' in r['outcome']][:2],
                distribution=out, failures=failures, disagreements=disagreements)


def replay(f):
    res = run_impl(os.path.join(VERIF, 'harness', 'impl_pkt.py'),
                   dict(header=decl.HEADER_PY, blocks=[dict(name='all', src=f['classes'])], modname='c08r',
                        cases=[dict(cls=f['cls'], op='roundtrip', raw=f['raw'], offset=f['offset'])]))
    o = res['outcomes'][0]
    return o.get('ok') == f['observed'], dict(observed=o, failure=f['what'])
