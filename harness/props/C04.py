"""C04 Unpack is strict: no value is decoded from bytes that are not there."""
import os
from common import *
import decl, gen, pktcases, pktprops

PID = 'C04'
TARGETS = ['Properties/C04.vo', 'Bridge/IntBridge.vo', 'Bridge/DataBridge.vo', 'Bridge/MoveBridge.vo', 'Bridge/BitsBridge.vo', 'Bridge/CodegenBridge.vo', 'Bridge/PlumbingBridge.vo']
KERNELS = ['G6_int', 'G8_data', 'G3_move', 'G4_seq', 'G5_bits', 'G11_codegen', 'G19_field_ctor']
PROP_FILE = 'Properties/C04.v'
WHOLE_PACKET = True      # Tie A over all of the pack / unpack machinery (check.py: WHOLE_PACKET_KERNELS)


def width_family():
    """every integer width, bit groups of 24/40/48 bits, sized and delimited strings: a single-field class each"""
    fams = []
    for n in (1, 2, 3, 4, 5, 6, 7, 8, 9, 16):
        for signed in (False, True):
            for fe in (None, 'little'):
                fams.append(([{'move': None, 'body': ('elem', ('leaf', ('int', n, signed, fe, 0)))}], n))
    for ws in ([12, 12], [4, 20], [8, 16, 16], [1, 7, 40], [24, 24], [3, 5, 8, 8, 8]):
        fams.append(([{'move': None, 'body': ('bits', w, 0)} for w in ws], sum(ws) // 8))
    for n in (1, 3, 5):
        fams.append(([{'move': None, 'body': ('elem', ('leaf', ('dsized', ('lit', n), 'const', b'')))}], n))
    fams.append(([{'move': None, 'body': ('elem', ('leaf', ('int', 1, False, None, 0)))},
                  {'move': None, 'body': ('elem', ('leaf', ('dsized', ('field', 0), 'field', b'')))},
                  {'move': None, 'body': ('elem', ('leaf', ('int', 3, False, None, 0)))}], None))
    # long counted sequences of integers (a count of 8 and more invites "decode the whole run at once" shortcuts): every cut,
    # those on element boundaries included, must fail
    for w in (1, 2, 4, 3):
        for n in (8, 11):
            seqf = {'move': None, 'body': ('seq', ('leaf', ('int', w, False, None, 0)), (('field', 0), 'field'), None, None, None, None)}
            fams.append(([{'move': None, 'body': ('elem', ('leaf', ('int', 1, False, None, 0)))}, seqf], None,
                         bytes([n]) + bytes((53 * k + 7) % 256 for k in range(n * w))))
        seqc = {'move': None, 'body': ('seq', ('leaf', ('int', w, False, None, 0)), (('lit', 9), 'const'), None, None, None, None)}
        fams.append(([seqc, {'move': None, 'body': ('elem', ('leaf', ('int', 1, False, None, 0)))}], None, bytes((29 * k + 3) % 256 for k in range(9 * w + 1))))
    # a PRESENT optional field (its condition holds) as the last field: an input that ends exactly where it should begin, or inside it,
    # must fail -- never "absent after all"
    condp = ('bin', 'Eq', ('bin', 'BAnd', ('field', 0), ('lit', 1)), ('lit', 1))
    for el, tailbytes in ((('leaf', ('int', 2, False, None, 0)), b'\x12\x34'), (('leaf', ('int', 3, True, 'little', 0)), b'\x01\x02\x83'),
                          (('leaf', ('int', 1, False, None, 0)), b'\x7f'), (('leaf', ('dsized', ('lit', 2), 'const', b'')), b'ab')):
        for how in ('expr', 'lambda'):
            fams.append(([{'move': None, 'body': ('elem', ('leaf', ('int', 1, False, None, 0)))},
                          {'move': None, 'body': ('opt', el, (condp, how), None)}], None, b'\x01' + tailbytes))
    fams.append(([{'move': None, 'body': ('elem', ('leaf', ('int', 1, False, None, 0)))}, {'move': None, 'body': ('elem', ('leaf', ('int', 1, False, None, 0)))},
                  {'move': None, 'body': ('opt', ('leaf', ('dsized', ('field', 1), 'field', b'')), (condp, 'expr'), None)}], None, b'\x03\x02xy'))
    return fams


def run(tier, seed, rng):
    failures = []
    dist = dict(truncations=0, truncation_errors=0, full_ok=0, intervals_checked=0, random_inputs=0, generated_path=0, generic_path=0)
    # ---- part 1: exhaustive truncation of single-field classes, generated and generic code
    groups, meta = [], []
    gid = 0
    for fam in width_family():
        fields, size = fam[0], fam[1]
        for gen_on in (True, False):
            pc = dict(end=None, align=None, sbl=None, gp=gen_on, gu=gen_on, vec=True, ann=True, fields=fields)
            G = pktcases.Group({0: pc}, gid)
            if len(fam) > 2:
                full = fam[2]
                need = len(full)
            elif size is None:
                full = bytes([2, 65, 66, 1, 2, 3])
                need = len(full)
            else:
                full = bytes((37 * k + 129) % 256 for k in range(size))
                need = size
            for k in range(len(full) + 1):
                G.add_unpack(0, full[:k], 0, record=True)
                meta.append((gid, k, need, len(full)))
            for pre in (1, 2):
                for k in range(len(full) + 1):
                    G.add_unpack(0, b'\xaa' * pre + full[:k], pre, record=True)
                    meta.append((gid, k, need, len(full)))
            groups.append(G)
            gid += 1
    # ---- part 1b: a field placed by a displacement read from the wire (shift by a signed field, by an expression, by a callable): a
    # hostile displacement that overshoots the start of the input must fail, never decode the field from the END of the buffer
    sgroups = []
    for variant, (how, last) in enumerate([('field', ('leaf', ('dsized', ('lit', 2), 'const', b''))), ('lambda', ('leaf', ('int', 2, False, None, 0))),
                                           ('expr', ('leaf', ('int', 3, False, None, 0))), ('field', ('leaf', ('int', 1, False, None, 0)))]):
        arg = ('field', 1) if how == 'field' else ('fun', ('bin', 'Sub', ('field', 1), ('lit', 0)))
        for gen_on in (True, False):
            table = {0: dict(end=None, align=None, sbl=None, gp=gen_on, gu=gen_on, vec=True, ann=True,
                             fields=[{'move': None, 'body': ('elem', ('leaf', ('dsized', ('lit', 4), 'const', b'')))},
                                     {'move': None, 'body': ('elem', ('leaf', ('int', 1, True, None, 0)))},
                                     {'move': (arg, 'RCur', False, 'shift'), 'body': ('elem', last)}])}
            G = pktcases.Group(table, 70000 + len(sgroups))
            for k in range(-12, 3):
                for off, pre in ((0, b''), (2, b'PQ')):
                    G.add_unpack(0, pre + b'ABCD' + bytes([k % 256]) + b'wxyz', off, record=True)
            sgroups.append(G)
    # ---- part 2: random declarations, every truncation of valid encodings + corrupted + random inputs
    ng = 50 if tier == 'quick' else 2000
    groups2 = pktprops.make_groups(rng, ng, lambda g: dict(generic_unpack=(g % 2 == 0)), values_per_class=2 if tier == 'quick' else 4,
                                   offsets=(2,), maxcuts=24, flips=3, record=True, defaults=False, tag_base=gid)
    for G in groups2:
        for c in G.table:
            for _ in range(2):
                G.add_unpack(c, bytes(rng.randrange(256) for _ in range(rng.randrange(0, 12))), 0, record=True)
    records, disagreements = pktcases.run_groups(groups + groups2 + sgroups, 'c04')
    rts = [r for r in records if r['kind'] == 'roundtrip']
    fam = [r for r in rts if r['group'] < gid]
    assert len(fam) == len(meta)
    for r, (g, k, need, total) in zip(fam, meta):
        o = r['outcome']
        dist['truncations'] += 1
        if k < need:
            dist['truncation_errors'] += 1
            if not (o.get('err') == 'unpacking'):
                failures.append(dict(kind='oracle', sig='strict-truncation', what=f"a field of {need} bytes was decoded from {k} bytes",
                                     classes=pktprops.class_source(groups, g), raw=r['raw'].hex(), offset=r['offset'], observed=o))
        else:
            dist['full_ok'] += 1
            if 'ok' not in o or o['end'] != r['offset'] + need:
                failures.append(dict(kind='oracle', sig='strict-full', what='a complete encoding was not accepted / the cursor is wrong',
                                     classes=pktprops.class_source(groups, g), raw=r['raw'].hex(), offset=r['offset'], observed=o))
    allg = groups + groups2 + sgroups
    for r in rts:
        o = r['outcome']
        if r['group'] >= gid:
            dist['random_inputs'] += 1
        if 'ok' not in o:
            continue
        table = pktprops.table_of(allg, r['group'])
        generic = all(not pc.get('gu', True) for pc in table.values())
        dist['generic_path' if generic else 'generated_path'] += 1
        for s, e in o.get('intervals') or []:
            dist['intervals_checked'] += 1
            if s < 0 or (e > s and e > len(r['raw'])):
                failures.append(dict(kind='oracle', sig='strict-interval', what=f"a field consumed [{s},{e}) but the input has {len(r['raw'])} bytes",
                                     classes=pktprops.class_source(allg, r['group']), cls=decl.cname(r['c']), raw=r['raw'].hex(),
                                     offset=r['offset'], observed=o))
                break
        # the values themselves: a string of declared size has that size, a delimited string really ends at its first delimiter
        for why in pktprops.leaf_violations(table, pktprops.uncanon(o['ok'])):
            dist['leaf_violations'] = dist.get('leaf_violations', 0) + 1
            failures.append(dict(kind='oracle', sig='strict-leaf', what='a value was not decoded from the bytes its declaration requires: ' + why,
                                 classes=pktprops.class_source(allg, r['group']), cls=decl.cname(r['c']), raw=r['raw'].hex(),
                                 offset=r['offset'], observed=o))
            break
        # a declaration without positioning reads sequentially: the cursor can never pass the end of the input
        if not pktprops.has_feature(table, lambda k, x: k == 'move' or (k == 'class' and x.get('align') is not None)
                                    or (k == 'body' and x[0] == 'seq' and x[6] not in (None, 1))):
            if o['end'] > len(r['raw']):
                failures.append(dict(kind='oracle', sig='strict-end', what=f"the parse ended at {o['end']} beyond the input ({len(r['raw'])} bytes)",
                                     classes=pktprops.class_source(allg, r['group']), cls=decl.cname(r['c']), raw=r['raw'].hex(),
                                     offset=r['offset'], observed=o))
    # ---- until-sequences with an element alignment > 1 as the LAST field: every truncation of a valid encoding (cuts at the end
    # of an element whose end is not aligned included: only padding would follow) lacks the terminating element and must fail
    asrc, acases, ameta = "class AItem(Packet):\n    kind = Int(1)\n    value = Int(2)\n", [], []
    ai = 0
    for elem, ew in (('Int(1)', 1), ('Int(3)', 3), ('Ref(AItem)', 3), ('Data(5)', 5)):
        for al in (2, 4, 8):
            for where in ('seq', 'cls'):
                for gen_ in (True, False):
                    for stop in ('value', 'len'):
                        nm = f"AU{ai}"; ai += 1
                        conf = {}
                        if where == 'cls': conf['align'] = al
                        if not gen_: conf.update(generate_for_pack=False, generate_for_unpack=False)
                        last = {'Int(1)': "pkt.xs[-1] == 0", 'Int(3)': "pkt.xs[-1] == 0", 'Ref(AItem)': "pkt.xs[-1].kind == 0", 'Data(5)': "pkt.xs[-1] == b'\\0' * 5"}[elem]
                        cond = f"lambda pkt, **k: {last}" if stop == 'value' else "lambda pkt, **k: len(pkt.xs) >= 3"
                        asrc += (f"class {nm}(Packet):\n" + (f"    __bisturi__ = {conf!r}\n" if conf else "") + "    h = Int(1)\n"
                                 + f"    xs = {elem}.repeated(until={cond}{', aligned=%d' % al if where == 'seq' else ''})\n")
                        # a valid encoding: h, then 3 elements each at the next multiple of al (from the start of the input), the last one zero
                        raw = b'\x09'
                        for e in range(3):
                            raw += b'.' * ((-len(raw)) % al)
                            raw += (bytes([e + 1]) * ew if e < 2 else b'\x00' * ew)
                        for cut in range(len(raw) + 1):
                            acases.append(dict(cls=nm, op='unpack_end', raw=raw[:cut].hex(), offset=0)); ameta.append((nm, raw, cut))
    ares = run_impl(os.path.join(VERIF, 'harness', 'impl_pkt.py'), dict(header=decl.HEADER_PY, blocks=[dict(name='aluntil', src=asrc)], modname='c04a', cases=acases))
    dist["aligned_until_truncations"] = len(acases)
    for (nm, raw, cut), o in zip(ameta, ares['outcomes']):
        if cut == len(raw):
            if 'ok' not in o or o.get('end') != len(raw):
                failures.append(dict(kind='oracle', sig='aligned-until-valid', what='a valid encoding of an aligned until-sequence does not parse to its end',
                                     classes=asrc.split('class AU')[0] + 'class ' + [c for c in asrc.split('class ') if c.startswith(nm + '(')][0], cls=nm, raw=raw.hex(), offset=0, observed=o))
        elif o.get('err') != 'unpacking':
            failures.append(dict(kind='oracle', sig='strict-aligned-until', what=f"a valid encoding of {len(raw)} bytes cut at {cut}: the terminating element of the until-sequence is not (entirely) there, the parse must fail with a PacketError",
                                 classes=asrc.split('class AU')[0] + 'class ' + [c for c in asrc.split('class ') if c.startswith(nm + '(')][0], cls=nm, raw=raw[:cut].hex(), offset=0, observed=o))
    # ---- read-to-the-end strings (until_marker=EOS, the documented alias of re.compile(b'$')) in classes with a search window: the
    # window is documented NOT to apply to them -- the value is every byte up to the end of the input, not the first N of them
    esrc, ecases2, emeta2 = "from bisturi.field import EOS\n", [], []
    for N in (2, 8):
        for incl in (False, True):
            for gen_ in (True, False):
                for spell in ('EOS', "re.compile(b'$')"):
                    nm = f"EO{N}{'i' if incl else 'x'}{'' if gen_ else 'L'}{'a' if spell == 'EOS' else 'b'}"
                    conf = {'search_buffer_length': N}
                    if not gen_: conf.update(generate_for_pack=False, generate_for_unpack=False)
                    esrc += (f"class {nm}(Packet):\n    __bisturi__ = {conf!r}\n    kind = Int(1)\n    title = Data(until_marker=b'\\0')\n    body = Data(until_marker={spell}, include_delimiter={incl})\n"
                             f"class {nm}H(Packet):\n    __bisturi__ = {conf!r}\n    h = Int(1)\n    note = Ref({nm})\n")
                    for L in list(range(0, N + 4)) + [N + 9, 40]:
                        body = bytes(0x61 + (i % 7) for i in range(L))
                        raw = b'\x05t\x00' + body
                        ecases2.append(dict(cls=nm, op='roundtrip', raw=raw.hex(), offset=0)); emeta2.append((nm, N, L, raw, 3))
                        ecases2.append(dict(cls=nm + 'H', op='roundtrip', raw=(b'\x09' + raw).hex(), offset=0)); emeta2.append((nm + 'H', N, L, b'\x09' + raw, 4))
    eres2 = run_impl(os.path.join(VERIF, 'harness', 'impl_pkt.py'), dict(header=decl.HEADER_PY, blocks=[dict(name='eos', src=esrc)], modname='c04e', cases=ecases2))
    dist['read_to_end_with_window_cases'] = len(ecases2)
    def _find_body(f):
        for n, v in f:
            if n == 'body':
                return v
            if isinstance(v, dict) and 'f' in v:
                r = _find_body(v['f'])
                if r is not None:
                    return r
        return None
    for (nm, N, L, raw, at), o in zip(emeta2, eres2['outcomes']):
        got = _find_body(o['ok']['f']) if 'ok' in o else None
        if 'ok' not in o or got != {'x': raw[at:].hex()} or o.get('end') != len(raw) or (o.get('packed') or {}).get('ok') != raw.hex():
            failures.append(dict(kind='oracle', sig='read-to-end-window', what=f"a read-to-the-end string in a class with search_buffer_length {N}: {L} bytes are left, the value must be all of them (end {len(raw)}, the same bytes back)",
                                 classes=esrc.split('class ')[0] + 'class ' + 'class '.join(c for c in esrc.split('class ')[1:] if c.startswith((nm.rstrip('H') + '(', nm + '('))), cls=nm, raw=raw.hex(), offset=0, observed=o))
    # ---- a computed size below zero is not "as many bytes as the declaration requires": the parse must fail (if it went on, the
    # cursor would move backwards and later fields would be decoded from bytes already consumed)
    nsrc = ("class NF(Packet):\n    n = Int(1, signed=True)\n    d = Data(n)\n    t = Int(2)\n"
            "class NE(Packet):\n    n = Int(1)\n    d = Data(n - 3)\n    t = Int(2)\n"
            "class NL(Packet):\n    n = Int(1)\n    d = Data(lambda pkt, raw=b'', offset=0, **k: pkt.n - 3)\n    t = Int(2)\n"
            "class NR(Packet):\n    tag = Int(2)\n    body = Data(lambda pkt, raw=b'', offset=0, **k: len(raw) - offset - 4)\n    crc = Int(4)\n"
            "class NG(Packet):\n    __bisturi__ = {'generate_for_unpack': False, 'generate_for_pack': False}\n    n = Int(1)\n    d = Data(n - 3)\n    t = Int(2)\n")
    ncases, nmeta = [], []
    for cls_, sizes in (('NF', [-3, -2, -1, 0, 1]), ('NE', [-3, -2, -1, 0, 1]), ('NL', [-3, -2, -1, 0, 1]), ('NG', [-3, -2, -1, 0, 1])):
        for sz in sizes:
            first = sz % 256 if cls_ == 'NF' else sz + 3
            raw = bytes([first]) + b'ABCDEFGH'
            ncases.append(dict(cls=cls_, op='roundtrip', raw=raw.hex(), offset=0)); nmeta.append((cls_, sz, raw))
    for cut in range(0, 9):
        raw = (b'\x01\x02' + b'xyz' + b'\x0a\x0b\x0c\x0d')[:cut]
        ncases.append(dict(cls='NR', op='roundtrip', raw=raw.hex(), offset=0)); nmeta.append(('NR', cut - 6, raw))
    nres = run_impl(os.path.join(VERIF, 'harness', 'impl_pkt.py'), dict(header=decl.HEADER_PY, blocks=[dict(name='neg', src=nsrc)], modname='c04n', cases=ncases))
    dist['negative_size_cases'] = len(ncases)
    for (cls_, sz, raw), o in zip(nmeta, nres['outcomes']):
        if sz < 0 and 'ok' in o:
            failures.append(dict(kind='oracle', sig='strict-negative-size', what=f"a byte string whose computed size is {sz} was accepted",
                                 classes=nsrc, cls=cls_, raw=raw.hex(), offset=0, observed=o))
        if sz >= 0 and 'ok' not in o and len(raw) >= 9:
            failures.append(dict(kind='oracle', sig='strict-full', what=f"a complete encoding (computed size {sz}) was not accepted",
                                 classes=nsrc, cls=cls_, raw=raw.hex(), offset=0, observed=o))
    return dict(evaluations=len(records), distinct_nontrivial=len({(r['group'], r['c'], r['raw'], r['offset']) for r in rts}),
                rule=("part 1 (exhaustive): single-field classes for every integer width 1..9,16 x signed x order, bit groups of 24/40/48 bits, "
                      "sized strings; every truncation point of a valid encoding at start offsets 0,1,2, generated and generic code: all shorter "
                      "inputs must fail; part 2: random class tables, every truncation (cap 24) of encodings of consistent values, byte flips, "
                      "embedded at offset 2, random inputs; the generic parser reports the interval each field consumed (must lie inside the "
                      "input); distinct by (class table, class, input, offset)"),
                samples=[dict(cls=pktprops.class_source(groups, fam[i]['group']), raw=fam[i]['raw'].hex(), outcome=fam[i]['outcome']) for i in (0, 5, len(fam) - 1)],
                distribution=dist, failures=failures, disagreements=disagreements)


def replay(f):
    res = run_impl(os.path.join(VERIF, 'harness', 'impl_pkt.py'),
                   dict(header=decl.HEADER_PY, blocks=[dict(name='all', src=f['classes'])], modname='c04r',
                        cases=[dict(cls=f.get('cls', 'K0'), op='roundtrip', raw=f['raw'], offset=f['offset'], record=True)]))
    o = res['outcomes'][0]
    return o == f['observed'] or ('ok' in o) == ('ok' in f['observed']), dict(observed=o, failure=f['what'])
