"""C09 Deferred field expressions mean what the same Python expression means (bisturi/deferred.py)."""
import os, itertools
from common import *
import decl

PID = 'C09'
TARGETS = ['Properties/C09.vo', 'Bridge/DeferredBridge.vo', 'Bridge/PlumbingBridge.vo']
KERNELS = ['G13_deferred', 'G13b_deferred_ops']
PROP_FILE = 'Properties/C09.v'

INT_BOPS = ['Add', 'Sub', 'Mul', 'FloorDiv', 'Mod', 'Le', 'Lt', 'Ge', 'Gt', 'Eq', 'Ne', 'BAnd', 'BOr', 'BXor', 'RShift', 'LShift']
OPNAME = {'Add': 'add', 'Sub': 'sub', 'Mul': 'mul', 'FloorDiv': 'floordiv', 'Mod': 'mod', 'Le': 'le', 'Lt': 'lt', 'Ge': 'ge', 'Gt': 'gt',
          'Eq': 'eq', 'Ne': 'ne', 'BAnd': 'and', 'BOr': 'or', 'BXor': 'xor', 'RShift': 'rshift', 'LShift': 'lshift', 'GetItem': 'getitem',
          'Neg': 'neg', 'Inv': 'inv', 'Truth': 'truth', 'Len': 'len'}
BCODE = {n: i for i, n in enumerate(INT_BOPS + ['GetItem'])}
UCODE = {'Neg': 0, 'Inv': 1, 'Truth': 2, 'Len': 3}
EXN = ['TypeError', 'ZeroDivisionError', 'IndexError', 'KeyError', 'ValueError', 'AttributeError', 'AssertionError', 'StructError',
       'OverflowError', 'GenericError', 'NotImplementedError']

HEADER_COQ = """From Coq Require Import ZArith List Bool.
From Bisturi Require Import Base.Bytes Kernel.ExprK Model.Value Model.ExprInst.
Import ListNotations. Open Scope Z_scope.
Fixpoint veq (a b : value) {struct a} : bool :=
  match a, b with
  | VInt x, VInt y => x =? y
  | VBool x, VBool y => Bool.eqb x y
  | VBytes x, VBytes y => (blen x =? blen y) && forallb (fun p => fst p =? snd p) (combine x y)
  | VNone, VNone => true
  | VList x, VList y | VTuple x, VTuple y =>
      (fix go (x y : list value) {struct x} : bool :=
         match x, y with [], [] => true | a :: x', b :: y' => veq a b && go x' y' | _, _ => false end) x y
  | _, _ => false
  end.
Definition veql (a b : list value) : bool := (Z.of_nat (length a) =? Z.of_nat (length b)) && forallb (fun p => veq (fst p) (snd p)) (combine a b).
Definition fneq (a b : fname) : bool := fname_eqb a b.
Definition ieq (a b : ginstr) : bool :=
  match a, b with
  | IPush _ _ x, IPush _ _ y => veq x y
  | ILoad _ _ f, ILoad _ _ g => fneq f g
  | IOp1 _ _ c, IOp1 _ _ d | IOp2 _ _ c, IOp2 _ _ d | ITuple _ _ c, ITuple _ _ d => Nat.eqb c d
  | IDict _ _ k n, IDict _ _ k' n' => veql k k' && Nat.eqb n n'
  | _, _ => false
  end.
Definition peq (a b : list ginstr) : bool := (Z.of_nat (length a) =? Z.of_nat (length b)) && forallb (fun p => ieq (fst p) (snd p)) (combine a b).
Definition exn_code (x : exn) : Z :=
  match x with TypeError => 0 | ZeroDivisionError => 1 | IndexError => 2 | KeyError => 3 | ValueError => 4 | AttributeError => 5
             | AssertionError => 6 | StructError => 7 | OverflowError => 8 | GenericError => 9 | NotImplementedError => 10 end.
(* symbolic domain: operands record what was applied to them *)
Inductive sym := SLit (v : value) | SFld (f : fname) | SNode (c : nat) (args : list sym) | STup (l : list sym) | SDic (k : list sym) (l : list sym).
Fixpoint seq (a b : sym) {struct a} : bool :=
  match a, b with
  | SLit x, SLit y => veq x y
  | SFld f, SFld g => fneq f g
  | SNode c x, SNode d y =>
      Nat.eqb c d && (fix go (x y : list sym) {struct x} : bool :=
                        match x, y with [], [] => true | a :: x', b :: y' => seq a b && go x' y' | _, _ => false end) x y
  | STup x, STup y =>
      (fix go (x y : list sym) {struct x} : bool :=
         match x, y with [], [] => true | a :: x', b :: y' => seq a b && go x' y' | _, _ => false end) x y
  | _, _ => false
  end.
Definition srun (p : list (ExprK.instr sym fname)) : list sym + unit :=
  ExprK.run sym unit unit fname (fun _ f => inl (SFld f)) (fun c x => inl (SNode c [x])) (fun c x y => inl (SNode c [x; y]))
            STup (fun k l => SDic k l) tt [] p.
Fixpoint lift (g : gexpr) : ExprK.expr sym fname :=
  match g with
  | Lit _ _ v => Lit sym fname (SLit v)
  | Fld _ _ f => Fld sym fname f
  | Un _ _ c a => Un sym fname c (lift a)
  | Bin _ _ c l r => Bin sym fname c (lift l) (lift r)
  | NaryL _ _ c l args => NaryL sym fname c (lift l) (map lift args)
  | NaryD _ _ c l keys args => NaryD sym fname c (lift l) (map SLit keys) (map lift args)
  end.
(* a case: the expression, the slots, the program bisturi compiled, its result on the slots (inl value / inr exception
   code, -1 = an exception the model does not know), and the symbolic result when available *)
Definition agrees (e : expr) (s : slots) (prog : list ginstr) (res : value + Z) (symres : option sym) : bool :=
  match to_g e with
  | None => false
  | Some g =>
      peq (g_compile g) prog &&
      match g_run {| e_slots := s; e_offset := None; e_rawlen := None |} [] (g_compile g), res with
      | inl [v], inl w => veq v w
      | inr x, inr c => exn_code x =? c
      | _, _ => false
      end &&
      match symres with
      | None => true
      | Some want => match srun (ExprK.compile sym fname (lift g)) with inl [r] => seq r want | _ => false end
      end
  end.
Fixpoint bad (i : Z) (cs : list (expr * slots * list ginstr * (value + Z) * option sym)) : list Z :=
  match cs with
  | [] => []
  | (e, s, p, r, y) :: rest => if agrees e s p r y then bad (i + 1) rest else i :: bad (i + 1) rest
  end.
"""


def gen_int(rng, depth, leaves):
    if depth == 0 or rng.random() < 0.25:
        return rng.choice(leaves)
    k = rng.random()
    if k < 0.1:
        return ('un', rng.choice(['Neg', 'Inv']), gen_int(rng, depth - 1, leaves))
    if k < 0.17:
        return ('un', 'Len', ('field', rng.choice([2, 3])))
    if k < 0.24:
        return ('bin', 'GetItem', ('field', rng.choice([2, 3])), ('lit', rng.choice([0, 1, -1, 2])))
    if k < 0.3:
        return ('ite', gen_int(rng, depth - 1, leaves), gen_int(rng, depth - 1, leaves), gen_int(rng, depth - 1, leaves))
    if k < 0.36:
        opts = [gen_int(rng, depth - 1, leaves) for _ in range(rng.randint(2, 3))]
        return ('choose', ('bin', 'Mod', ('field', rng.choice([0, 1])), ('lit', rng.choice([2, 3, 4]))), opts)
    if k < 0.4:
        keys = rng.sample([0, 1, 2, 3, 5], 2)
        return ('choosed', ('field', rng.choice([0, 1])), keys, [gen_int(rng, depth - 1, leaves) for _ in keys])
    op = rng.choice(INT_BOPS)
    a = gen_int(rng, depth - 1, leaves)
    b = ('lit', rng.choice([0, 1, 2, 3])) if op in ('RShift', 'LShift') and rng.random() < 0.8 else gen_int(rng, depth - 1, leaves)
    return ('bin', op, a, b)


def deferrable(e):
    """python would evaluate a sub-expression without a field eagerly in the class body"""
    import gen
    g = gen.Gen.__new__(gen.Gen)
    return g.deferrable(e)


def has(e, kinds):
    if e[0] in kinds or (e[0] == 'un' and e[1] in kinds):
        return True
    for x in e[1:]:
        if isinstance(x, tuple) and x and isinstance(x[0], str) and has(x, kinds):
            return True
        if isinstance(x, list) and any(isinstance(y, tuple) and has(y, kinds) for y in x):
            return True
    return False


MIRROR = {'Le': 'Ge', 'Lt': 'Gt', 'Ge': 'Le', 'Gt': 'Lt', 'Eq': 'Eq', 'Ne': 'Ne'}


def python_tree(e):
    """the tree python really builds: comparisons have no reflected methods, so `2 <= f` calls f.__ge__(2): the deferred
    operand comes first and the operator is mirrored"""
    if e[0] == 'bin':
        l, r = python_tree(e[2]), python_tree(e[3])
        if e[1] in MIRROR and l[0] == 'lit' and r[0] != 'lit':
            return ('bin', MIRROR[e[1]], r, l)
        return ('bin', e[1], l, r)
    if e[0] == 'un':
        return ('un', e[1], python_tree(e[2]))
    if e[0] == 'ite':
        return ('ite',) + tuple(python_tree(x) for x in e[1:4])
    if e[0] == 'choose':
        return ('choose', python_tree(e[1]), [python_tree(x) for x in e[2]])
    if e[0] == 'choosed':
        return ('choosed', python_tree(e[1]), e[2], [python_tree(x) for x in e[3]])
    return e


def cq_prog(prog):
    out = []
    for ins in prog:
        if ins[0] == 'load':
            out.append(f"ILoad value fname (FN {int(ins[1][1:])})")
        elif ins[0] == 'push':
            out.append(f"IPush value fname {cq_val(ins[1])}")
        elif ins[0] == 'tuple':
            out.append(f"ITuple value fname {ins[1]}%nat")
        elif ins[0] == 'dict':
            out.append(f"IDict value fname [{'; '.join(cq_val(k) for k in ins[2])}] {ins[1] if ins[3] else 99}%nat")
        else:
            n, name = ins[1], ins[2]
            if name == 'chooses':
                out.append("IOp2 value fname CHOOSE")
            elif name == 'ite':
                out.append("IOp2 value fname ITE")
            else:
                rev = {v: k for k, v in OPNAME.items()}
                k = rev.get(name)
                if k is None:
                    out.append("IOp1 value fname 77%nat")
                elif n == 1:
                    out.append(f"IOp1 value fname {UCODE.get(k, 78)}%nat")
                else:
                    out.append(f"IOp2 value fname {BCODE.get(k, 79)}%nat")
    return "[" + "; ".join(out) + "]"


def cq_val(v):
    if isinstance(v, dict):
        if 'b' in v:
            return f"(VBool {'true' if v['b'] else 'false'})"
        if 'x' in v:
            return f"(VBytes {decl.cq_bytes(bytes.fromhex(v['x']))})"
        return "VNone"
    if isinstance(v, list):
        return "(VList [" + "; ".join(cq_val(x) for x in v) + "])"
    if v is None:
        return "VNone"
    return f"(VInt {decl.z(v)})"


def cq_sym(t):
    tag = t[0]
    if tag == 'lit':
        return f"(SLit {cq_val(t[1])})"
    if tag == 'field':
        return f"(SFld (FN {int(t[1][1][1:])}))"
    rev = {v: k for k, v in OPNAME.items()}
    k = rev.get(tag)
    code = UCODE[k] if k in UCODE and len(t) == 2 else BCODE.get(k, 79)
    return f"(SNode {code}%nat [{'; '.join(cq_sym(x) for x in t[1:])}])"


def run(tier, seed, rng):
    leaves = [('field', 0), ('field', 1), ('lit', 0), ('lit', 2), ('lit', -1), ('lit', 7)]
    exprs = []
    # exhaustive depth 1: every binary operator x every ordered pair of leaves (both operand orders), every unary operator
    for op in INT_BOPS:
        for a, b in itertools.product(leaves, repeat=2):
            exprs.append(('bin', op, a, b))
    for op in ('Neg', 'Inv', 'Truth'):
        for a in leaves[:2]:
            exprs.append(('un', op, a))
    for f in (2, 3):
        exprs.append(('un', 'Len', ('field', f)))
        for i in (0, 1, -1, 5):
            exprs.append(('bin', 'GetItem', ('field', f), ('lit', i)))
    # depth 2: every pair of operators, nested on either side
    for op1 in INT_BOPS:
        for op2 in INT_BOPS:
            for _ in range(1 if tier == 'quick' else 8):
                l1, l2, l3 = (rng.choice(leaves) for _ in range(3))
                exprs.append(('bin', op1, ('bin', op2, l1, l2), l3))
                exprs.append(('bin', op1, l3, ('bin', op2, l1, l2)))
    for _ in range(600 if tier == 'quick' else 40000):
        exprs.append(gen_int(rng, rng.randint(2, 5), leaves))
    # a selector nested DIRECTLY as an option of another selector, every sibling option a constant: every outer form x inner form x
    # position of the nested option
    inners = [('choose', ('bin', 'Mod', ('field', 1), ('lit', 2)), [('lit', 5), ('lit', 6)]),
              ('choosed', ('field', 1), [5, -2, 0, 1], [('lit', 1), ('lit', 2), ('lit', 3), ('lit', 4)]),
              ('ite', ('bin', 'Gt', ('field', 1), ('lit', 0)), ('lit', 8), ('lit', 9)),
              ('choose', ('bin', 'Mod', ('field', 1), ('lit', 2)), [('lit', 5), ('choose', ('bin', 'Mod', ('field', 0), ('lit', 2)), [('lit', 11), ('lit', 12)])])]
    for inner in inners:
        for k in range(3):
            opts = [('lit', 20), ('lit', 21), ('lit', 22)]
            opts[k] = inner
            exprs.append(('choose', ('bin', 'Mod', ('field', 0), ('lit', 3)), opts))
            exprs.append(('choosed', ('field', 0), [3, 0, 7, 5], opts + [('lit', 23)]))
            exprs.append(('choosed', ('field', 0), [5, 3, 0, 7], [('lit', 23)] + opts))
        exprs.append(('ite', ('bin', 'Gt', ('field', 0), ('lit', 2)), inner, ('lit', 30)))
        exprs.append(('ite', ('bin', 'Gt', ('field', 0), ('lit', 2)), ('lit', 30), inner))
    exprs = [e for e in exprs if deferrable(e)]
    envs = [{'f0': 3, 'f1': 5, 'f2': {'x': b'ab'.hex()}, 'f3': [4, 0]}, {'f0': 0, 'f1': -2, 'f2': {'x': ''}, 'f3': []},
            {'f0': 7, 'f1': 0, 'f2': {'x': b'\x00\xff\x01'.hex()}, 'f3': [1, 2, 3]}, {'f0': 5, 'f1': 1, 'f2': {'x': b'q'.hex()}, 'f3': [9]}]
    cases = []
    for e in exprs:
        env = rng.choice(envs)
        cases.append(dict(src_d=decl.py_expr(e, 'D'), src_l=decl.py_expr(e, 'L'), env=env, more_envs=[x for x in envs if x is not env] + [env],
                          symbolic=not has(e, ('Truth', 'Len', 'choose', 'choosed', 'ite'))))
    # oracle-only: operators outside the modelled integer domain (true division, power), against eval of the same text
    extra = []
    for op in ('/', '**'):
        for a, b in itertools.product(['f0', 'f1', '2', '0', '(f0 - 8)'], repeat=2):
            if 'f' in a or 'f' in b:
                extra.append(dict(src_d=f"({a} {op} {b})", src_l=f"({a} {op} {b})".replace('f0', 'pkt.f0').replace('f1', 'pkt.f1'),
                                  env=rng.choice(envs[:2]) if op == '**' else rng.choice(envs), symbolic=False))
    # oracle-only: sequence-valued operands (concatenation and repetition do not commute): constants on either side of a
    # sequence-valued sub-expression, against eval of the same text
    seqs = [('f3[0:2]', '[7]'), ('f3[1:]', '[7, 8]'), ('f2[0:1]', "b'z'"), ('f2[1:]', "b'yz'"),
            # every shape of slice: omitted bounds, steps, negative steps (an omitted start then means "from the last element")
            ('f3[::-1]', '[7]'), ('f3[:1:-1]', '[7, 8]'), ('f2[::-1]', "b'z'"), ('f3[2::-1]', '[7]'), ('f3[::2]', '[7]'), ('f2[:-1]', "b'z'"), ('f3[-2:]', '[7]'), ('f3[1:3:1]', '[8]'), ('f2[::-2]', "b'q'")]
    for sub, const in seqs:
        for tmpl in ('({c} + {s})', '({s} + {c})', '(({c} + {s}) + {c})', '({c} + ({s} + {s}))', '(2 * {s})', '({s} * 2)',
                     '(({c} + {s})[0])', '(({s} + {c})[0])', '(({c} + {s}).__len__())'):
            txt = tmpl.format(c=const, s=sub)
            for env in envs:
                extra.append(dict(src_d=txt, src_l=txt.replace('f2', 'pkt.f2').replace('f3', 'pkt.f3').replace('.__len__()', '.__len__()'),
                                  env=env, more_envs=[x for x in envs if x is not env], symbolic=False))
    # oracle-only: several expressions over the same field objects, as in one class body, differing only in a constant
    # (also constants that are equal or hash alike in python: -1 / -2, 1 / True / 1.0, 0 / False)
    lam = lambda t: t.replace('f0', 'pkt.f0').replace('f1', 'pkt.f1').replace('f2', 'pkt.f2').replace('f3', 'pkt.f3')
    fams = [['f3[-1]', 'f3[-2]', 'f3[0]', 'f3[1]'], ['(f0 & -1)', '(f0 & -2)', '(f0 & 1)', '(f0 & 2)'], ['f2[:-1]', 'f2[:-2]', 'f2[:1]', 'f2[:2]'],
            ['(f0 * 2)', '(f0 * 2.0)', '(f0 * True)', '(f0 * 1)'], ['(f0 + 1)', '(f0 + True)', '(f0 + 1.0)', '(f0 + 0)', '(f0 + False)'],
            ['(f1 - 1)', '(f1 - 2)', '(f1 - -1)', '(f1 - -2)'], ['(f0 == 1)', '(f0 == True)', '(f0 == 0)', '(f0 == False)']]
    for fam in fams:
        for first in fam:
            rest = [t for t in fam if t != first]
            extra.append(dict(src_d=first, src_l=lam(first), env=envs[2], symbolic=False, also=[[t, lam(t)] for t in rest]))
    # oracle-only: the other ways to call chooses: positional options, keyword options (keys become ascii bytes), tuples
    for env in envs:
        for d_txt, l_txt in (("((f0 % 3)).chooses(5, 6, (f1 + 1))", "_ch((pkt.f0 % 3), (5, 6, (pkt.f1 + 1)))"),
                             ("((f0 % 2)).chooses((7, f1))", "_ch((pkt.f0 % 2), (7, pkt.f1))"),
                             ("(f2).chooses(ab=1, x=(f0 + 2))", "_ch(pkt.f2, {b'ab': 1, b'x': (pkt.f0 + 2)})"),
                             ("(f2[0:1]).chooses(a=f0, b=9)", "_ch(pkt.f2[0:1], {b'a': pkt.f0, b'b': 9})"),
                             # the DICTIONARY form keeps its keys as written: a text key is not the bytes key that spells the same
                             ("(f2).chooses({'ab': 1, b'cd': 2, b'x': 3})", "_ch(pkt.f2, {'ab': 1, b'cd': 2, b'x': 3})"),
                             ("(f2).chooses({b'ab': 2, 'ab': 1, 'x': 5})", "_ch(pkt.f2, {b'ab': 2, 'ab': 1, 'x': 5})"),
                             ("(f2[0:1]).chooses({'a': 1, b'b': f0, 'b': 7, b'x': 9})", "_ch(pkt.f2[0:1], {'a': 1, b'b': pkt.f0, 'b': 7, b'x': 9})"),
                             ("(f0 % 2).chooses({'0': 4, 1: 5, '1': 6, 0: f1})", "_ch((pkt.f0 % 2), {'0': 4, 1: 5, '1': 6, 0: pkt.f1})")):
            extra.append(dict(src_d=d_txt, src_l=l_txt, env=env, more_envs=[x for x in envs if x is not env], symbolic=False))
    parts = shard(cases + extra, (len(cases) + len(extra)) // NPROC + 1)
    outs = run_impl_parallel(os.path.join(VERIF, 'harness', 'impl_expr.py'), [dict(cases=p) for p in parts])
    outcomes = [o for p in outs for o in p]
    failures, lines = [], []
    dist = dict(values=0, exceptions=0, symbolic=0, reflected=0, nary=0, oracle_only=len(extra))
    for c, o in zip(cases + extra, outcomes):
        if 'build' in o:
            failures.append(dict(kind='oracle', sig='expr-build', what=f"the deferred expression could not be built: {o['build']}", case=c))
            continue
        d, g = o['deferred'], o['eager']
        dist['values' if d[0] == 'ok' else 'exceptions'] += 1
        if d != g:
            failures.append(dict(kind='oracle', sig='expr-meaning', what='the deferred expression does not evaluate to what the same python expression evaluates to',
                                 case=c, observed=d, required=g))
        for txt, d3, g3 in o.get('also', []):
            if d3 != g3:
                failures.append(dict(kind='oracle', sig='expr-meaning-sibling', what=f'an expression compiled next to another one over the same fields ({txt}) does not mean what its own text means',
                                     case=c, observed=d3, required=g3))
        for k2, (d2, g2) in enumerate(o.get('again', [])):
            if d2 != g2:
                failures.append(dict(kind='oracle', sig='expr-meaning-again', what=f'evaluated again (evaluation {k2 + 2} of the same compiled expression) it does not mean what the python expression means',
                                     case=c, observed=d2, required=g2))
                break
    for e, c, o in zip(exprs, cases, outcomes):
        if 'build' in o:
            lines.append("(ELit VNone, [], [], inr (-5), None)")
            continue
        env = c['env']
        sl = "[" + "; ".join(f"(FN {i}, {cq_val(env[f'f{i}'])})" for i in range(4)) + "]"
        d = o['deferred']
        res = f"inl {cq_val(d[1])}" if d[0] == 'ok' else f"inr {EXN.index(d[1]) if d[1] in EXN else -1}"
        sy = "None"
        if 'symbolic' in o and o['symbolic'][0] != 'exc':
            sy = f"(Some {cq_sym(o['symbolic'])})"
            dist['symbolic'] += 1
        dist['reflected'] += (e[0] == 'bin' and e[2][0] == 'lit')
        dist['nary'] += has(e, ('choose', 'choosed', 'ite'))
        lines.append(f"({decl.cq_expr(python_tree(e))}, {sl}, {cq_prog(o['prog'])}, {res}, {sy})")
    csize = 400
    files = [(f"cases_{i}", HEADER_COQ + "Definition cases : list (expr * slots * list ginstr * (value + Z) * option sym) := [\n" + ";\n".join(p) +
              "\n].\nEval vm_compute in (bad 0 cases).\n") for i, p in enumerate(shard(lines, csize))]
    outs = coq_eval_files(files)
    disagreements = []
    for i in range(len(files)):
        for j in parse_coq_list(outs[f"cases_{i}"]):
            k = i * csize + j
            disagreements.append(dict(kind='correspondence', case=cases[k], implementation=outcomes[k],
                                      what='model (Kernel/ExprK.v + Model/ExprInst.v) and bisturi.deferred differ: compiled program, result or operand order'))
    return dict(evaluations=len(cases) + len(extra), distinct_nontrivial=len({c['src_d'] for c in cases}),
                rule=("exhaustive: every binary operator on every ordered pair of leaves (two fields, four constants: both operand orders, so "
                      "reflected methods too), every unary operator, len/truth/indexing of a bytes and a list field; every ordered pair of binary "
                      "operators nested on either side; random trees to depth 5 with chooses (list and dict form) and if_true_then_else; three "
                      "environments; per case: the postfix program bisturi compiled vs the model's, its result (value or exception kind) vs the "
                      "model's and vs eval of the same python text, and a run on symbolic operands (operand order); true division and power, and "
                      "concatenation / repetition with sequence-valued sub-expressions on either side, against eval only"),
                samples=[dict(case=cases[i], outcome=outcomes[i]) for i in (0, len(cases) // 2, len(cases) - 1)],
                distribution=dist, failures=failures, disagreements=disagreements)


def replay(f):
    if 'case' not in f:
        return True, f
    o = run_impl(os.path.join(VERIF, 'harness', 'impl_expr.py'), dict(cases=[f['case']]))[0]
    return o.get('deferred') != o.get('eager'), dict(observed=o)
