"""C03 Generated pack/unpack code is equivalent to field-by-field interpretation (bisturi/codegen.py)."""
import os, copy, itertools
from common import *
import json
import decl, gen, pktcases, pktprops

PID = 'C03'
TARGETS = ['Properties/C03.vo', 'Bridge/IntBridge.vo', 'Bridge/DataBridge.vo', 'Bridge/CodegenBridge.vo', 'Bridge/PlumbingBridge.vo', 'Bridge/FragBridge.vo']
KERNELS = ['G1_frag', 'G6_int', 'G8_data', 'G11_codegen', 'G17_builder']
PROP_FILE = 'Properties/C03.v'
WHOLE_PACKET = True      # Tie A over all of the pack / unpack machinery (check.py: WHOLE_PACKET_KERNELS)


def lens_bad(table, v):
    """does the value hold a Data(n) whose length is not n (finding D11)?"""
    if isinstance(v, list):
        return any(lens_bad(table, x) for x in v)
    if isinstance(v, tuple) and v[0] == 'pkt':
        pc = table[v[1]]
        for i, fd in enumerate(pc['fields']):
            b = fd['body']
            if b[0] == 'elem' and b[1][0] == 'leaf' and b[1][1][0] == 'dsized' and b[1][1][2] == 'const' and i in v[2]:
                if isinstance(v[2][i], bytes) and len(v[2][i]) != b[1][1][1][1]:
                    return True
        return any(lens_bad(table, x) for x in v[2].values())
    return False


def equiv(a, b):
    """same observable behaviour: equal results, or failure on both sides (the reported field may be the run's name)"""
    if 'err' in a or 'err' in b:
        return 'err' in a and 'err' in b and a['err'] == b['err']
    if 'exc' in a or 'exc' in b:
        return False
    if 'packed' in a or 'packed' in b:
        return a.get('ok') == b.get('ok') and a.get('end') == b.get('end') and equiv(a.get('packed', {}), b.get('packed', {}))
    return a.get('ok') == b.get('ok')


def ref_i_of(all_combos):
    return all_combos.index((False, False, False, False))


def run(tier, seed, rng):
    combos = [(True, True, True, True), (False, False, False, False), (False, True, False, False), (True, False, True, True)] \
        if tier == 'quick' else list(itertools.product((True, False), repeat=4))
    nbase = 36 if tier == 'quick' else 400
    groups, families = [], []
    gid = 0
    for b in range(nbase):
        g = gen.Gen(rng, dict(bits=(b % 3 != 0)))
        # fixed-size runs are the subject: bias towards Int / Data(n) fields
        table = g.make_table(rng.choice([2, 3]))
        if b % 2 == 0:
            # a class that is one long mixed run: endianness / signedness / Data(n) / non-struct widths
            n = rng.randint(3, 7)
            fields = []
            for _ in range(n):
                k = rng.random()
                if k < 0.6:
                    fields.append({'move': None, 'body': ('elem', ('leaf', ('int', rng.choice([1, 2, 4, 8, 3]), rng.random() < 0.4,
                                                                              rng.choice([None, 'big', 'little']), 0)))})
                else:
                    m = rng.choice([0, 1, 2, 3, 3, 11, 22, 100, 12, 16, 33])      # sizes whose struct code has several (equal) digits too
                    fields.append({'move': None, 'body': ('elem', ('leaf', ('dsized', ('lit', m), 'const', b'')))})
            table[len(table)] = dict(end=rng.choice([None, 'little']), align=None, sbl=None, gp=True, gu=True, vec=True, ann=True, fields=fields)
        vg = gen.ValGen(rng, table)
        ops = []
        if b == 1:
            # an offset table: a run of four one-byte integers (ONE chunk in vectorised generated code, four in the generic loop), a
            # string placed by the first at a position inside / at the end of / beyond that run, possibly empty, and a field placed
            # further on: every position 0..7 x length 0..2
            table = {0: dict(end=None, align=None, sbl=None, gp=True, gu=True, vec=True, ann=True, fields=[
                {'move': None, 'body': ('elem', ('leaf', ('int', 1, False, None, 0)))},
                {'move': None, 'body': ('elem', ('leaf', ('int', 1, False, None, 0)))},
                {'move': None, 'body': ('elem', ('leaf', ('int', 1, False, None, 0)))},
                {'move': None, 'body': ('elem', ('leaf', ('int', 1, False, None, 0)))},
                {'move': (('field', 0), 'RInner', False, 'at'), 'body': ('elem', ('leaf', ('dsized', ('field', 1), 'field', b'')))},
                {'move': (('const', 8), 'RInner', False, 'at'), 'body': ('elem', ('leaf', ('int', 2, False, None, 0)))}])}
            for off in range(0, 8):
                for ln in (0, 1, 2):
                    ops.append(('pack', 0, ('pkt', 0, {0: off, 1: ln, 2: 7, 3: 9, 4: b'xy'[:ln], 5: 0xbeef}), 0))
                    if off >= 4 and off + ln <= 8:
                        ops.append(('derive', 0, ('pkt', 0, {0: off, 1: ln, 2: 7, 3: 9, 4: b'xy'[:ln], 5: 0xbeef}), 7))
        if b == 2:
            # fields that OVERLAP on input (a field moved backwards re-reads bytes another field has read): inputs shorter than the sum
            # of the fixed sizes parse fine field by field, and must under every option combination
            table = {0: dict(end=None, align=None, sbl=None, gp=True, gu=True, vec=True, ann=True, fields=[
                         {'move': None, 'body': ('elem', ('leaf', ('int', 1, False, None, 0)))},
                         {'move': None, 'body': ('elem', ('leaf', ('dsized', ('lit', 8), 'const', b'')))},
                         {'move': (('field', 0), 'RInner', False, 'at'), 'body': ('elem', ('leaf', ('dsized', ('lit', 4), 'const', b'')))}]),
                     1: dict(end=None, align=None, sbl=None, gp=True, gu=True, vec=True, ann=True, fields=[
                         {'move': None, 'body': ('elem', ('leaf', ('int', 2, False, None, 0)))},
                         {'move': None, 'body': ('elem', ('leaf', ('dsized', ('lit', 4), 'const', b'')))},
                         {'move': (('const', -4), 'RCur', False, 'shift'), 'body': ('elem', ('leaf', ('int', 4, False, None, 0)))},
                         {'move': (('const', 2), 'RInner', False, 'at'), 'body': ('elem', ('leaf', ('int', 2, True, 'little', 0)))}])}
            for off in (0, 2):
                pre = b'PQ'[:off]
                for k in (1, 4, 5, 2, 9):
                    ops.append(('unpack', 0, pre + bytes([k]) + b'XXXABCDX', off))
                    ops.append(('unpack', 0, pre + bytes([k]) + b'XXXABCDXyz', off))
                for raw in (b'\x01\x02ABCD', b'\x01\x02ABCDE', b'\x01\x02ABC'):
                    ops.append(('unpack', 1, pre + raw, off))
        for c in (table if b not in (1, 2) else {}):
            for _ in range(2):
                v = vg.try_value(c)
                if v is None:
                    continue
                ops.append(('derive', c, v, rng.randrange(10 ** 6)))
                # D11 probe: a Data(n) holding fewer bytes than n
                pc = table[c]
                for i, fd in enumerate(pc['fields']):
                    bb = fd['body']
                    if bb[0] == 'elem' and bb[1][0] == 'leaf' and bb[1][1][0] == 'dsized' and bb[1][1][2] == 'const' and bb[1][1][1][1] >= 2:
                        v2 = ('pkt', c, dict(v[2]))
                        v2[2][i] = bytes(v[2][i][:1])
                        ops.append(('pack', c, v2, 0))
                        break
                # a failing value: an out-of-range integer
                for i, fd in enumerate(pc['fields']):
                    bb = fd['body']
                    if bb[0] == 'elem' and bb[1][0] == 'leaf' and bb[1][1][0] == 'int':
                        v3 = ('pkt', c, dict(v[2]))
                        v3[2][i] = 2 ** (8 * bb[1][1][1]) + 5
                        ops.append(('pack', c, v3, 0))
                        break
        fam = []
        for combo in combos:
            t2 = copy.deepcopy(table)
            for pc in t2.values():
                pc['gp'], pc['gu'], pc['vec'], pc['ann'] = combo
            G = pktcases.Group(t2, gid)
            for c in t2:
                G.add_blocks(c)
            for kind, c, v, sd in ops:
                if kind == 'derive':
                    G.add_derive(c, v, seed=sd, offsets=(2,), maxcuts=10, flips=2)
                elif kind == 'unpack':
                    G.add_unpack(c, v, sd)
                else:
                    G.add_pack(c, v)
            groups.append(G)
            fam.append(gid)
            gid += 1
        families.append(fam)
    records, disagreements = pktcases.run_groups(groups, 'c03')
    by_gid = {}
    for r in records:
        by_gid.setdefault(r['group'], []).append(r)
    failures = []
    dist = dict(compared=0, struct_runs=0, loop_blocks=0, pack_errors=0, unpack_errors=0, d11=0, combos=len(combos))
    for fam in families:
        ref = by_gid[fam[0]]
        table = pktprops.table_of(groups, fam[0])
        for r in ref:
            if r['kind'] == 'blocks' and 'ok' in r['outcome']:
                for blk in (r['outcome']['ok']['unpack'] or []):
                    dist['struct_runs' if blk[0] == 'S' else 'loop_blocks'] += 1
        for other in fam[1:]:
            rs = by_gid[other]
            if len(rs) != len(ref):
                failures.append(dict(kind='oracle', sig='codegen-shape', what='option combinations produced a different number of outcomes',
                                     classes=pktprops.class_source(groups, other)))
                continue
            for a, b in zip(ref, rs):
                if a['kind'] in ('defined', 'blocks'):
                    if a['kind'] == 'defined' and (a['outcome'] == 'ok') != (b['outcome'] == 'ok'):
                        failures.append(dict(kind='oracle', sig='codegen-define', what='a class can be defined under one option combination only',
                                             classes=pktprops.class_source(groups, other), observed=[a['outcome'], b['outcome']]))
                    continue
                dist['compared'] += 1
                oa, ob = a['outcome'], b['outcome']
                dist['pack_errors'] += oa.get('err') == 'packing'
                dist['unpack_errors'] += oa.get('err') == 'unpacking'
                if not equiv(oa, ob):
                    sig = 'codegen-equivalence'
                    if a['kind'] == 'pack' and lens_bad(table, a.get('value')):
                        sig = 'D11 Data(n) holding a value whose length is not n'
                        dist['d11'] += 1
                    failures.append(dict(kind='oracle', sig=sig, what='generated and generic code (or two option combinations) behave differently',
                                         classes_a=pktprops.class_source(groups, fam[0]), classes_b=pktprops.class_source(groups, other),
                                         case={k: (v.hex() if isinstance(v, bytes) else v) for k, v in a.items() if k in ('kind', 'c', 'raw', 'offset', 'value')},
                                         observed_a=oa, observed_b=ob))
    # ---- user callables see the same keyword arguments under every option combination (they may read the position of the
    # innermost packet, the root packet, the raw string ...): classes outside the modelled expression language, every
    # combination against the all-generic one
    all_combos = list(itertools.product((True, False), repeat=4)) if tier != 'quick' else combos + [(True, True, False, False), (True, True, True, False)]
    src, names = "", []
    for ci, (gp, gu, vec, ann) in enumerate(all_combos):
        conf = dict(generate_for_pack=gp, generate_for_unpack=gu, vectorize=vec, annotate=ann)
        src += (f"class In{ci}(Packet):\n    __bisturi__ = {conf!r}\n    n = Int(1)\n"
                f"    body = Data(lambda pkt, raw=b'', offset=0, **k: pkt.n - (offset - k['innermost-pkt-pos']))\n"
                f"    more = Int(1).repeated(count=lambda pkt, raw=b'', offset=0, **k: (k['innermost-pkt-pos'] % 3))\n"
                f"class Out{ci}(Packet):\n    __bisturi__ = {conf!r}\n    pad = Data(2)\n    inner = Ref(In{ci})\n    tail = Int(1).aligned(4)\n"
                f"class Plain{ci}(Packet):\n    __bisturi__ = {conf!r}\n    pad = Data(1)\n    inner = Ref(In{ci})\n    k = Int(2)\n"
                f"class Rt{ci}(Packet):\n    __bisturi__ = {conf!r}\n    a = Int(1)\n"
                f"    b = Data(lambda pkt, raw=b'', offset=0, **k: k['root'].a if 'root' in k else 99)\n")
    dsrc = ("from bisturi.descriptor import Auto, AutoLength\n"
            "class NoHook(object):\n    def __get__(self, inst, owner):\n        return self if inst is None else getattr(inst, self.real_field_name)\n"
            "    def __set__(self, inst, v):\n        setattr(inst, self.real_field_name, v)\n"
            "class AfterOnly(NoHook):\n    def sync_after_unpack(self, inst):\n        setattr(inst, self.real_field_name, getattr(inst, self.real_field_name) | 128)\n")
    for ci, (gp, gu, vec, ann) in enumerate(all_combos):
        conf = dict(generate_for_pack=gp, generate_for_unpack=gu, vectorize=vec, annotate=ann)
        dsrc += (f"class Da{ci}(Packet):\n    __bisturi__ = {conf!r}\n    flag = Int(1).describe(NoHook())\n    length = Int(1).describe(AutoLength('a'))\n    a = Data(length)\n"
                 f"class Db{ci}(Packet):\n    __bisturi__ = {conf!r}\n    length = Int(1).describe(AutoLength('a'))\n    mark = Int(1).describe(AfterOnly())\n    a = Data(length)\n"
                 f"class Dc{ci}(Packet):\n    __bisturi__ = {conf!r}\n    k = Int(1).describe(AfterOnly())\n    flag = Int(1).describe(NoHook())\n    length = Int(1).describe(AutoLength('a'))\n    a = Data(length)\n    x = Int(1).describe(Auto(lambda pkt: len(pkt.a) * 2))\n")
    dinputs = [bytes([1, 2, 65, 66, 7]), bytes([3, 1, 2, 65, 66, 9]), bytes([0, 0, 0, 0, 0, 0]), bytes([2, 3, 65]), b'']
    dcases = [dict(cls=f"{k}{ci}", op='roundtrip', raw=raw.hex(), offset=0) for ci in range(len(all_combos)) for k in ('Da', 'Db', 'Dc') for raw in dinputs] + \
             [dict(cls=f"{k}{ci}", op='pack', value={"py": f"{k}{ci}(a=b'xyz')"}) for ci in range(len(all_combos)) for k in ('Da', 'Db', 'Dc')]
    dres = run_impl(os.path.join(VERIF, 'harness', 'impl_pkt.py'), dict(header=decl.HEADER_PY, blocks=[dict(name='desc', src=dsrc)], modname='c03d', cases=dcases))
    nrt = len(dinputs) * 3
    dist['descriptor_hook_cases'] = len(dcases)
    import re as _re2
    def strip(o):
        # failures are compared as failures (the struct runs of generated code name a run of fields where the loop names one: C12)
        if isinstance(o, dict) and 'err' in o:
            o = {'err': o['err']}
        if isinstance(o, dict) and isinstance(o.get('packed'), dict) and 'err' in o['packed']:
            o = dict(o, packed={'err': o['packed']['err']})
        return _re2.sub(r'(Da|Db|Dc)\d+', r'\1', json.dumps(o, sort_keys=True))
    for ci in range(len(all_combos)):
        for j in range(nrt):
            a, b = dres['outcomes'][ref_i_of(all_combos) * nrt + j], dres['outcomes'][ci * nrt + j]
            if strip(a) != strip(b):
                failures.append(dict(kind='oracle', sig='descriptor-hooks', what='described fields (descriptors with and without hooks): generated and generic code behave differently',
                                     options=dict(zip(('generate_for_pack', 'generate_for_unpack', 'vectorize', 'annotate'), all_combos[ci])),
                                     case=dcases[ci * nrt + j], observed=b, required=a))
        for j in range(3):
            base = len(all_combos) * nrt
            a, b = dres['outcomes'][base + ref_i_of(all_combos) * 3 + j], dres['outcomes'][base + ci * 3 + j]
            if strip(a) != strip(b):
                failures.append(dict(kind='oracle', sig='descriptor-hooks', what='described fields: pack() of a constructed packet differs between generated and generic code',
                                     options=dict(zip(('generate_for_pack', 'generate_for_unpack', 'vectorize', 'annotate'), all_combos[ci])),
                                     case=dcases[base + ci * 3 + j], observed=b, required=a))
    # ---- EMBEDDED references (Ref(..., embed=True): a field that packs and unpacks nothing, the referenced packet's fields are
    # borrowed in its place) between looped fields (variable-size strings, rare integer sizes, positioned fields), between fixed
    # struct fields, first / last / two in a row: every option combination against the all-generic one
    esrc = ""
    ekinds = ('EMsg', 'EOdd', 'EAl', 'EFix', 'ETwo', 'EEdge')
    for ci, (gp, gu, vec, ann) in enumerate(all_combos):
        conf = dict(generate_for_pack=gp, generate_for_unpack=gu, vectorize=vec, annotate=ann)
        c = f"    __bisturi__ = {conf!r}\n"
        esrc += (f"class EHd{ci}(Packet):\n{c}    name = Data(until_marker=b'\\0')\n    kind = Int(1)\n"
                 f"class EMsg{ci}(Packet):\n{c}    tag = Data(until_marker=b':')\n    header = Ref(EHd{ci}, embed=True)\n    body = Int(2)\n"
                 f"class EPt{ci}(Packet):\n{c}    x = Int(3)\n    y = Int(1)\n"
                 f"class EOdd{ci}(Packet):\n{c}    a = Int(3)\n    p = Ref(EPt{ci}, embed=True)\n    z = Int(3)\n    t = Int(2)\n"
                 f"class EPa{ci}(Packet):\n{c}    u = Int(1).aligned(4)\n    v = Int(1)\n"
                 f"class EAl{ci}(Packet):\n{c}    a = Int(1).at(1)\n    p = Ref(EPa{ci}, embed=True)\n    z = Int(1).at(7)\n"
                 f"class EXY{ci}(Packet):\n{c}    x = Int(1)\n    y = Int(1)\n"
                 f"class EFix{ci}(Packet):\n{c}    w = Int(1)\n    p = Ref(EXY{ci}(x=1, y=2), embed=True)\n    z = Int(1)\n"
                 f"class ETwo{ci}(Packet):\n{c}    s = Data(until_marker=b';')\n    p = Ref(EHd{ci}, embed=True)\n    q = Ref(EPt{ci}, embed=True)\n    e = Data(until_marker=b';')\n"
                 f"class EEdge{ci}(Packet):\n{c}    p = Ref(EHd{ci}, embed=True)\n    m = Int(3)\n    q = Ref(EXY{ci}, embed=True)\n")
    einputs = {'EMsg': [b'ab:john\x00\x07\x01\x02', b':\x00\x00\x00\x00', b'ab:john\x00\x07\x01', b'ab:john', b'abjohn\x00\x07\x01\x02', b''],
               'EOdd': [bytes(range(1, 13)), bytes(range(1, 12)), bytes(range(1, 7)), b'\x01'],
               'EAl': [bytes(range(10, 18)), bytes(range(10, 17)), bytes(range(10, 15))],
               'EFix': [b'\x09\x08\x07\x06', b'\x09\x08\x07', b''],
               'ETwo': [b's;nm\x00\x05\x01\x02\x03\x04e;', b';\x00\x05\x01\x02\x03\x04;', b's;nm\x00\x05\x01\x02\x03\x04e', b's;nm\x00\x05\x01\x02'],
               'EEdge': [b'nm\x00\x05\x01\x02\x03\x08\x09', b'\x00\x05\x01\x02\x03\x08', b'nm\x00\x05\x01']}
    evalues = {'EMsg': "EMsg{ci}(tag=b'ab', name=b'john', kind=7, body=258)", 'EOdd': "EOdd{ci}(a=1, x=2, y=3, z=4, t=5)", 'EAl': "EAl{ci}(a=1, u=2, v=3, z=4)",
               'EFix': "EFix{ci}(w=9, z=6)", 'ETwo': "ETwo{ci}(s=b's', name=b'nm', kind=5, x=66051, y=4, e=b'e')", 'EEdge': "EEdge{ci}(name=b'nm', kind=5, m=66051, x=8, y=9)"}
    ecases = [dict(cls=f"{k}{ci}", op='roundtrip', raw=raw.hex(), offset=off) for ci in range(len(all_combos)) for k in ekinds for raw in einputs[k] for off in (0,)] + \
             [dict(cls=f"{k}{ci}", op='pack', value={"py": evalues[k].format(ci=ci)}) for ci in range(len(all_combos)) for k in ekinds]
    eres = run_impl(os.path.join(VERIF, 'harness', 'impl_pkt.py'), dict(header=decl.HEADER_PY, blocks=[dict(name='embedded', src=esrc)], modname='c03e', cases=ecases))
    dist['embedded_reference_cases'] = len(ecases)
    import re as _re3
    def estrip(o):
        if isinstance(o, dict) and 'err' in o:
            o = {'err': o['err']}
        if isinstance(o, dict) and isinstance(o.get('packed'), dict) and 'err' in o['packed']:
            o = dict(o, packed={'err': o['packed']['err']})
        return _re3.sub(r'(E[A-Za-z]+?)\d+', r'\1', json.dumps(o, sort_keys=True))
    n_rt = sum(len(einputs[k]) for k in ekinds)
    refi = ref_i_of(all_combos)
    for ci in range(len(all_combos)):
        for j in range(n_rt):
            a, b = eres['outcomes'][refi * n_rt + j], eres['outcomes'][ci * n_rt + j]
            if estrip(a) != estrip(b):
                failures.append(dict(kind='oracle', sig='embedded-reference', what='a packet with an embedded reference (Ref(..., embed=True)): generated and generic code behave differently',
                                     options=dict(zip(('generate_for_pack', 'generate_for_unpack', 'vectorize', 'annotate'), all_combos[ci])), classes=esrc.split(f'class EHd{ci + 1}(')[0].split(f'class EHd{ci}(')[-1].join([f'class EHd{ci}(', '']),
                                     cls=ecases[ci * n_rt + j]['cls'], raw=ecases[ci * n_rt + j]['raw'], offset=0, observed=b, required=a))
        base = len(all_combos) * n_rt
        for j in range(len(ekinds)):
            a, b = eres['outcomes'][base + refi * len(ekinds) + j], eres['outcomes'][base + ci * len(ekinds) + j]
            if estrip(a) != estrip(b):
                failures.append(dict(kind='oracle', sig='embedded-reference', what='a packet with an embedded reference: pack() of a constructed packet differs between generated and generic code',
                                     options=dict(zip(('generate_for_pack', 'generate_for_unpack', 'vectorize', 'annotate'), all_combos[ci])), classes=esrc.split(f'class EHd{ci + 1}(')[0].split(f'class EHd{ci}(')[-1].join([f'class EHd{ci}(', '']),
                                     cls=ecases[base + ci * len(ekinds) + j]['cls'], value=ecases[base + ci * len(ekinds) + j]['value']['py'], observed=b, required=a))
    # the all-generic reference itself: the documented meaning on the valid inputs
    for k, want in (('EMsg', dict(tag='6162', name='6a6f686e', kind=7, body=258)), ('EFix', dict(w=9, x=8, y=7, z=6))):
        j = sum(len(einputs[kk]) for kk in ekinds[:ekinds.index(k)])
        o = eres['outcomes'][refi * n_rt + j]
        got = {n: (v['x'] if isinstance(v, dict) and 'x' in v else v) for n, v in (o.get('ok', {}).get('f') or [])}
        if 'ok' not in o or any(got.get(n) != v for n, v in want.items()) or o.get('packed', {}).get('ok') != einputs[k][0].hex():
            failures.append(dict(kind='oracle', sig='embedded-reference-meaning', what=f"generic code: the fields of an embedded reference are read in its place: expected {want} and the same bytes back",
                                 classes=esrc.split('class EHd1(')[0], cls=f"{k}{refi}", raw=einputs[k][0].hex(), offset=0, observed=o))
    inputs = [bytes([5, 65, 66, 67, 68, 69, 70, 71, 72, 73, 74, 75]), bytes([3, 1, 2, 3, 4, 5, 6, 7, 8]), bytes([9, 9, 4, 80, 81, 82, 83, 84, 85, 86, 87, 88]),
              bytes([2, 7, 7, 7, 7, 7, 7]), bytes([1]), b'']
    zcases = [dict(cls=f"{k}{ci}", op='roundtrip', raw=raw.hex(), offset=off)
              for ci in range(len(all_combos)) for k in ('In', 'Out', 'Plain', 'Rt') for raw in inputs for off in (0, 1)]
    zres = run_impl(os.path.join(VERIF, 'harness', 'impl_pkt.py'), dict(header=decl.HEADER_PY, blocks=[dict(name='cb', src=src)], modname='c03z', cases=zcases))
    ref_i = all_combos.index((False, False, False, False))
    per = len(inputs) * 2 * 4
    dist['callback_keyword_cases'] = len(zcases)

    def zview(o):
        if 'ok' in o:
            return json.dumps([[n.rstrip('0123456789') if isinstance(n, str) else n, v] for n, v in o['ok']['f']]) + str(o.get('end')) + json.dumps(o.get('packed', {}).get('ok'))
        return 'err' if o.get('err') else 'exc:' + str(o.get('exc'))
    for ci in range(len(all_combos)):
        for j in range(per):
            a, b = zres['outcomes'][ref_i * per + j], zres['outcomes'][ci * per + j]
            va, vb = zview(a), zview(b)
            import re as _re
            if _re.sub(r'(In|Out|Plain|Rt)\d+', r'\1', va) != _re.sub(r'(In|Out|Plain|Rt)\d+', r'\1', vb):
                failures.append(dict(kind='oracle', sig='callback-keywords', what='a user callable reading its keyword arguments (innermost-pkt-pos, root) gives different results under two option combinations',
                                     options=dict(zip(('generate_for_pack', 'generate_for_unpack', 'vectorize', 'annotate'), all_combos[ci])),
                                     case=zcases[ci * per + j], observed=b, required=a))
    return dict(evaluations=len(records), distinct_nontrivial=len({(r['group'], r['kind'], str(r.get('raw')), str(r.get('value'))) for r in records}),
                programs=sum(len(g.table) for g in groups),
                rule=("random class tables (biased to runs of fixed-size fields: mixed endianness, signedness, Data(n), non-struct widths) compiled "
                      "under several combinations of generate_for_pack / generate_for_unpack / vectorize / annotate (quick: 4, thorough: all 16); "
                      "per class: the text of the generated module read back and compared with Model/Codegen.gen_blocks; consistent values, "
                      "truncations, byte flips, offset 2, out-of-range integers and wrong-length Data values run under every combination and "
                      "compared pairwise; distinct by (table, operation, input)"),
                samples=[dict(classes=pktprops.class_source(groups, families[0][0]), blocks=[r['outcome'] for r in by_gid[families[0][0]] if r['kind'] == 'blocks'][:2])],
                distribution=dist, failures=failures, disagreements=disagreements)


def replay(f):
    return pktprops.generic_replay(f)
