"""C07 Bit fields partition their bytes MSB-first and never disturb neighbours (bisturi/field.py Bits)."""
import os, itertools
from common import *
import decl, pktcases

PID = 'C07'
TARGETS = ['Properties/C07.vo', 'Bridge/BitsBridge.vo', 'Bridge/IntBridge.vo']
KERNELS = ['G5_bits', 'G6_int']
PROP_FILE = 'Properties/C07.v'
HEADER_PY = "from bisturi.packet import Packet\nfrom bisturi.field import Int, Data, Ref, Bits\n"

HEADER_COQ = """From Coq Require Import ZArith List Bool.
From Bisturi Require Import Base.Bytes Kernel.IntCodec Kernel.BitsK.
Import ListNotations. Open Scope Z_scope.
Definition eqb_list (a b : list Z) : bool := (Z.of_nat (length a) =? Z.of_nat (length b)) && forallb (fun p => fst p =? snd p) (combine a b).
Definition eq_ol (a b : option (list Z)) : bool := match a, b with Some x, Some y => eqb_list x y | None, None => true | _, _ => false end.
(* U: widths, raw bytes -> member values ; P: widths, member values -> bytes ; X: widths -> class definition rejected? *)
Inductive case := U (ws : list Z) (raw : bytes) (want : option (list Z))
                | P (ws : list Z) (vs : list Z) (want : option bytes)
                | X (ws : list Z) (rejected : bool).
Definition agrees (c : case) : bool :=
  match c with
  | U ws raw want =>
      eq_ol (match bits_compile ws with
             | Some (sm, k) => match int_unpack k false true raw 0 with Some (iv, _) => Some (bits_unpack_all iv sm) | None => None end
             | None => None end) want
  | P ws vs want =>
      eq_ol (match bits_compile ws with
             | Some (sm, k) => encode k false true (bits_pack_all 0 sm vs)
             | None => None end) want
  | X ws rej => Bool.eqb (match bits_compile ws with Some _ => false | None => true end) rej
  end.
Fixpoint bad (i : Z) (cs : list case) : list Z :=
  match cs with [] => [] | c :: r => if agrees c then bad (i + 1) r else i :: bad (i + 1) r end.
"""


def compositions(k):
    for cuts in range(2 ** (k - 1)):
        ws, w = [], 1
        for i in range(k - 1):
            if cuts >> i & 1:
                ws.append(w); w = 1
            else:
                w += 1
        ws.append(w)
        yield ws


def rand_comp(total, rng):
    ws = []
    while total:
        w = rng.randint(1, min(total, rng.choice([3, 8, 13, 24])))
        ws.append(w); total -= w
    return ws


def is_gen(g):
    """g: True / False (generated / generic code), or (that, class-wide default byte order)"""
    return g[0] if isinstance(g, tuple) else g


def end_of(g):
    return g[1] if isinstance(g, tuple) else None


def cname(ws, g):
    return "B_" + "_".join(map(str, ws)) + ('_g' if is_gen(g) else '_l') + (('_' + end_of(g)) if end_of(g) else '')


def class_src(ws, g):
    conf = {} if is_gen(g) else {'generate_for_pack': False, 'generate_for_unpack': False}
    if end_of(g):
        conf['endianness'] = end_of(g)       # the run's shared integer stays big endian whatever the class default says
    return f"class {cname(ws, g)}(Packet):\n    __bisturi__ = {conf!r}\n" + "".join(f"    f{i} = Bits({w})\n" for i, w in enumerate(ws))


def ref_unpack(ws, raw):
    k = sum(ws) // 8
    if len(raw) < k:
        return None
    I = 0
    for b in raw[:k]:
        I = I * 256 + b
    out, shift = [], sum(ws)
    for w in ws:
        shift -= w
        out.append((I >> shift) % (2 ** w))
    return out


def ref_pack(ws, vs):
    I, shift = 0, sum(ws)
    for w, v in zip(ws, vs):
        shift -= w
        I += (v % (2 ** w)) << shift
    k = sum(ws) // 8
    return bytes((I >> (8 * (k - 1 - i))) & 255 for i in range(k))


def run(tier, seed, rng):
    comps = [(ws, g) for ws in compositions(8) for g in (True, False)]
    n16 = 150 if tier == 'quick' else 8000
    all16 = list(compositions(16))
    comps += [(ws, rng.random() < 0.5) for ws in rng.sample(all16, n16)]
    for total in (24, 32, 40, 48, 64, 72):
        comps += [(rand_comp(total, rng), rng.random() < 0.5) for _ in range(12 if tier == 'quick' else 60)]
    # the same under a class-wide default byte order (little / local / big): it must not reach the run's shared integer
    for total in (16, 16, 24, 32, 40):
        comps += [(rand_comp(total, rng), (rng.random() < 0.5, e)) for e in ('little', 'local', 'big') for _ in range(2 if tier == 'quick' else 10)]
    seen, uniq = set(), []
    for ws, g in comps:
        if (tuple(ws), g) not in seen:
            seen.add((tuple(ws), g)); uniq.append((ws, g))
    comps = uniq
    rejected = [rand_comp(t, rng) for t in (3, 7, 9, 12, 15, 17, 23, 30) for _ in range(3)] + [[8, 4], [4], [1] * 7]
    cases = []   # (ws, gen, kind, input)
    for ws, g in comps:
        k = sum(ws) // 8
        if k == 1:
            pats = [bytes([b]) for b in range(256)]
        else:
            pats = [bytes(k), b'\xff' * k, bytes(range(1, k + 1))] + [bytes(rng.randrange(256) for _ in range(k)) for _ in range(20 if k == 2 else 8)]
            pats += [bytes(rng.randrange(256) for _ in range(k - 1)), b'', bytes([0x81] * (k - 1))]      # truncated inputs
        for p in pats:
            cases.append((ws, g, 'U', p))
        special = lambda w: [0, 1, 2 ** w - 1, 2 ** w, 2 ** w + 1, -1, -(2 ** w), 2 ** (w + 9) + 5, -(2 ** (w + 3)) - 2]
        for _ in range(6 if k == 1 else 4):
            cases.append((ws, g, 'P', [rng.choice(special(w)) for w in ws]))
        cases.append((ws, g, 'P', [rng.randrange(2 ** w) for w in ws]))
    by = {}
    for i, c in enumerate(cases):
        by.setdefault((tuple(c[0]), c[1]), []).append(i)
    keys = list(by)
    groups = shard(keys, len(keys) // NPROC + 1)
    payloads, index = [], []
    for gk in groups:
        blocks = [dict(name=cname(list(ws), g), src=class_src(list(ws), g)) for ws, g in gk]
        cs, idx = [], []
        for ws, g in gk:
            for i in by[(ws, g)]:
                _, _, kind, x = cases[i]
                nm = cname(list(ws), g)
                if kind == 'U':
                    cs.append(dict(cls=nm, op='unpack', raw=x.hex()))
                else:
                    cs.append(dict(cls=nm, op='pack', value={"p": nm, "f": [[f"f{j}", v] for j, v in enumerate(x)]}))
                idx.append(i)
        payloads.append(dict(header=HEADER_PY, blocks=blocks, modname='c07', cases=cs))
        index.append(idx)
    payloads.append(dict(header=HEADER_PY, blocks=[dict(name=cname(ws, True), src=class_src(ws, True)) for ws in rejected], modname='c07x', cases=[]))
    results = run_impl_parallel(os.path.join(VERIF, 'harness', 'impl_pkt.py'), payloads)
    outcomes = [None] * len(cases)
    failures = []
    for res, idx in zip(results[:-1], index):
        for k, v in res['defs'].items():
            if v != 'ok':
                failures.append(dict(kind='oracle', sig='bits-classdef', what=f"a run summing to a multiple of 8 was rejected: {k}: {v}"))
        for i, o in zip(idx, res['outcomes']):
            outcomes[i] = o
    lines = []
    dist = dict(unpack_ok=0, unpack_err=0, pack_ok=0, pack_err=0, rejected_defs=0, runs_of_1_byte=0, runs_over_2_bytes=0)
    for ws in rejected:
        v = results[-1]['defs'].get(cname(ws, True), 'ok')
        rej = v.startswith('ByteBoundaryError')
        dist['rejected_defs'] += rej
        if not rej:
            failures.append(dict(kind='oracle', sig='bits-boundary', what=f"Bits run {ws} (sum {sum(ws)}, not a multiple of 8) was not rejected at class definition: {v}",
                                 cls=class_src(ws, True)))
        lines.append(f"X {blit(ws)} {'true' if rej else 'false'}")
    obs = []
    for (ws, g, kind, x), o in zip(cases, outcomes):
        k = sum(ws) // 8
        dist['runs_of_1_byte' if k == 1 else ('runs_over_2_bytes' if k > 2 else 'rejected_defs')] += (1 if k != 2 else 0)
        where = dict(cls=class_src(ws, g))
        if kind == 'U':
            want = ref_unpack(ws, x)
            if 'ok' in o:
                d = dict(o['ok']['f'])
                got = [d[f"f{j}"] for j in range(len(ws))]
            elif o.get('err') == 'unpacking':
                got = None
            else:
                got = 'X'
            dist['unpack_ok' if isinstance(got, list) else 'unpack_err'] += 1
            if got != want:
                failures.append(dict(kind='oracle', sig='bits-unpack', what='Bits unpack: a member is not its own MSB-first slice (or a short input was accepted)',
                                     raw=x.hex(), observed=str(got), required=want, **where))
            lines.append(f"U {blit(ws)} {blit(x)} ({'None' if not isinstance(got, list) else 'Some ' + '[' + ';'.join(zlit(v) for v in got) + ']'})" if got != 'X'
                         else "X [8] true")
        else:
            want = ref_pack(ws, x)
            got = bytes.fromhex(o['ok']) if 'ok' in o else (None if o.get('err') == 'packing' else 'X')
            dist['pack_ok' if isinstance(got, bytes) else 'pack_err'] += 1
            if got != want:
                failures.append(dict(kind='oracle', sig='bits-pack', what='Bits pack: a slice does not hold its own value mod 2^w (a neighbour was disturbed)',
                                     values=x, observed=str(got.hex() if isinstance(got, bytes) else got), required=want.hex(), **where))
            lines.append(f"P {blit(ws)} [{';'.join(zlit(v) for v in x)}] ({'None' if not isinstance(got, bytes) else 'Some ' + blit(got)})" if got != 'X'
                         else "X [8] true")
    # ---- unpack, assign some members, pack again: the shared integer then starts from the parsed bits (stale state)
    groups, rmeta = [], []
    for gid, (ws, g) in enumerate(comps[::3]):
        pc = dict(end=end_of(g), align=None, sbl=None, gp=is_gen(g), gu=is_gen(g), vec=True, ann=True,
                  fields=[{'move': None, 'body': ('bits', w, 0)} for w in ws])
        G = pktcases.Group({0: pc}, gid)
        k = sum(ws) // 8
        for _ in range(4):
            raw = rng.choice([b'\xff' * k, bytes(rng.randrange(256) for _ in range(k)), bytes(k)])
            sets = {}
            for j, w in enumerate(ws):
                if rng.random() < 0.5:
                    sets[j] = rng.choice([0, 1, 2 ** w - 1, rng.randrange(2 ** w), 2 ** w, -1])
            if not sets:
                sets[0] = 0
            G.add_repack(0, raw, 0, sets)
            rmeta.append((ws, g, raw, sets))
        groups.append(G)
    recs, rdis = pktcases.run_groups(groups, 'c07r')
    rp = [r for r in recs if r['kind'] == 'repack']
    dist['repack'] = len(rp)
    for r, (ws, g, raw, sets) in zip(rp, rmeta):
        vals = ref_unpack(ws, raw)
        for j, v in sets.items():
            vals[j] = v
        want = ref_pack(ws, vals).hex()
        if r['outcome'].get('ok') != want:
            failures.append(dict(kind='oracle', sig='bits-repack', what='Bits: unpack, assign members, pack: a slice does not hold its own value mod 2^w',
                                 cls=class_src(ws, g), raw=raw.hex(), assigned={f"f{j}": v for j, v in sets.items()},
                                 observed=str(r['outcome']), required=want))
    # ---- two runs back to back, the second one positioned (its head carries .aligned / .at / .shift): each is a run of its own,
    # sliced from its own bytes at its own position
    tsrc, tcases, tmeta = "", [], []
    k = 0
    for ws1, ws2 in (([4, 4], [4, 4]), ([3, 10, 3], [12, 1, 3]), ([8], [2, 6]), ([1, 7], [8, 8])):
        for mod, pos in ((".aligned(4)", lambda e: e + (-e) % 4), (".shift(1)", lambda e: e + 1), (".at(5)", lambda e: 5)):
            for gen_on in (True, False):
                nm = f"T{k}"; k += 1
                conf = {} if gen_on else {'generate_for_pack': False, 'generate_for_unpack': False}
                n1, n2 = sum(ws1) // 8, sum(ws2) // 8
                start2 = pos(n1)
                tsrc += f"class {nm}(Packet):\n    __bisturi__ = {conf!r}\n" + "".join(f"    a{i} = Bits({w})\n" for i, w in enumerate(ws1)) + \
                        "".join(f"    b{i} = Bits({w}){mod if i == 0 else ''}\n" for i, w in enumerate(ws2))
                for _ in range(3):
                    r1 = bytes(rng.randrange(256) for _ in range(n1))
                    r2 = bytes(rng.randrange(256) for _ in range(n2))
                    raw = r1 + b'.' * (start2 - n1) + r2
                    tcases.append(dict(cls=nm, op='roundtrip', raw=raw.hex(), offset=0))
                    tmeta.append((nm, ws1, ws2, r1, r2, raw))
    tres = run_impl(os.path.join(VERIF, 'harness', 'impl_pkt.py'), dict(header=HEADER_PY, blocks=[dict(name='tworuns', src=tsrc)], modname='c07t', cases=tcases))
    dist['two_run_cases'] = len(tcases)
    for (nm, ws1, ws2, r1, r2, raw), o in zip(tmeta, tres['outcomes']):
        want = ref_unpack(ws1, r1) + ref_unpack(ws2, r2)
        got = [v for n, v in o['ok']['f'] if not n.startswith('_')] if 'ok' in o else None
        if got != want or o.get('packed') != {'ok': raw.hex()}:
            failures.append(dict(kind='oracle', sig='bits-two-runs', what='two bit runs back to back (the second positioned): a member is not the MSB-first slice of its OWN run, or pack does not write each run at its own position',
                                 cls=[c for c in tsrc.split('class ') if c.startswith(nm + '(')][0].join(['class ', '']), raw=raw.hex(), observed=str(o)[:400], required=want))
    csize = 700
    files = [(f"cases_{i}", HEADER_COQ + "Definition cases : list case := [\n" + ";\n".join(p) + "\n].\nEval vm_compute in (bad 0 cases).\n")
             for i, p in enumerate(shard(lines, csize))]
    outs = coq_eval_files(files)
    disagreements = []
    for i in range(len(files)):
        for j in parse_coq_list(outs[f"cases_{i}"]):
            disagreements.append(dict(kind='correspondence', case=lines[i * csize + j],
                                      what='model Kernel/BitsK.v and bisturi Bits differ on this case (the case shows the implementation result)'))
    disagreements += rdis
    return dict(evaluations=len(lines) + len(recs), distinct_nontrivial=len(set(lines)), classes=len(comps),
                rule=("all 128 compositions of 8 bits x all 256 byte patterns x generated and generic code; sampled compositions of 16 bits "
                      "and of 24..72 bits with boundary/random patterns and truncated inputs; pack with per-member values drawn from "
                      "{0,1,2^w-1,2^w,2^w+1,-1,-2^w,large,negative large}; runs whose width is not a multiple of 8 (must be rejected at class "
                      "definition); distinct = distinct model cases"),
                samples=[lines[0], lines[40], lines[len(lines) // 2], lines[-1]],
                distribution=dist, failures=failures, disagreements=disagreements)


def replay(f):
    src = f.get('cls')
    if not src:
        return True, dict(note='re-run the check', failure=f)
    name = src.split('(')[0].split()[1]
    ws = [int(x) for x in name.split('_')[1:-1]]
    if 'raw' in f:
        case = dict(cls=name, op='unpack', raw=f['raw'])
    elif 'values' in f:
        case = dict(cls=name, op='pack', value={"p": name, "f": [[f"f{j}", v] for j, v in enumerate(f['values'])]})
    else:
        res = run_impl(os.path.join(VERIF, 'harness', 'impl_pkt.py'), dict(header=HEADER_PY, blocks=[dict(name=name, src=src)], modname='c07r', cases=[]))
        return res['defs'][name] == 'ok', dict(observed=res['defs'])
    res = run_impl(os.path.join(VERIF, 'harness', 'impl_pkt.py'), dict(header=HEADER_PY, blocks=[dict(name=name, src=src)], modname='c07r', cases=[case]))
    o = res['outcomes'][0]
    if 'raw' in f:
        want = ref_unpack(ws, bytes.fromhex(f['raw']))
        got = [dict(o['ok']['f'])[f"f{j}"] for j in range(len(ws))] if 'ok' in o else None
    else:
        want = ref_pack(ws, f['values']).hex()
        got = o.get('ok')
    return got != want, dict(observed=o, required=want)
