"""C18 The regexp pre-filter never rejects a matching packet."""
import os, re, itertools
from common import *
import decl, gen, pktcases, pktprops

PID = 'C18'
TARGETS = ['Properties/C18.vo', 'Bridge/RegexpBridge.vo', 'Bridge/FragBridge.vo', 'Bridge/MiscFieldBridge.vo', 'Bridge/MiscStructRegexpBridge.vo']
KERNELS = ['G12_regexp', 'G12b_regexp_frags', 'G12c_regexp_packet', 'G12d_pattern_matching', 'G1_frag', 'G20d_field_misc', 'G20e_structural_regexp']
PROP_FILE = 'Properties/C18.v'

HEADER_COQ = """From Coq Require Import ZArith List Bool.
From Bisturi Require Import Base.Bytes Kernel.IntCodec Kernel.DataK Kernel.Regex Model.Value Model.Decl Model.Pattern Model.Canon.
Import ListNotations. Open Scope Z_scope.
Definition enc_alt (a : alt) : list Z := match a with ALit b => 0 :: blen b :: b | APlus c => [1; c] end.
Definition enc_rx (r : rx) : list Z :=
  match r with
  | RLit b => 1 :: blen b :: b
  | RAny n => [2; n]
  | RStar => [3]
  | RRange lo hi => [4; lo; hi]
  | RSet cs => 5 :: Z.of_nat (length cs) :: cs
  | RDelim r => 6 :: Z.of_nat (length r) :: flat_map enc_alt r
  | REnd => [7]
  end.
Definition enc_case (host : bool) (tbl : list (cid * pclass)) (c : cid) (ps : pslots) : list Z :=
  match ct_get (mk_ctab tbl) c with
  | None => [-3; -2]
  | Some k => match regex_of host k ps with Some rs => flat_map enc_rx rs ++ [-2] | None => [-1; -2] end
  end.
"""


def flat_table(rng):
    """one flat class over Int, Bits and Data in every sizing mode"""
    n = rng.randint(1, 5)
    fields, ints = [], []
    i = 0
    while i < n:
        k = rng.random()
        if k < 0.35:
            w = rng.choice([1, 1, 2, 3, 4])
            fields.append({'move': None, 'body': ('elem', ('leaf', ('int', w, rng.random() < 0.3, rng.choice([None, 'little']), 0)))})
            if w <= 2:
                ints.append(i)
        elif k < 0.5:
            total = rng.choice([8, 8, 16])
            ws = []
            while total:
                w = rng.randint(1, min(total, 8)); ws.append(w); total -= w
            for w in ws:
                fields.append({'move': None, 'body': ('bits', w, 0)})
                if w <= 3:
                    ints.append(i)        # a flag / small counter of a bit run may size a later string
                i += 1
            continue
        elif k < 0.6:
            fields.append({'move': None, 'body': ('elem', ('leaf', ('dsized', ('lit', rng.choice([0, 1, 2, 3])), 'const', b'')))})
        elif k < 0.75 and ints:
            if rng.random() < 0.5:
                fields.append({'move': None, 'body': ('elem', ('leaf', ('dsized', ('field', rng.choice(ints)), 'field', b'')))})
            else:
                j = rng.choice(ints)
                e = rng.choice([('bin', 'BAnd', ('field', j), ('lit', 3)), ('ite', ('bin', 'Eq', ('field', j), ('lit', 1)), ('lit', 2), ('lit', 0)),
                                ('bin', 'Mod', ('field', j), ('lit', 3)), ('bin', 'RShift', ('field', j), ('lit', 1))])
                fields.append({'move': None, 'body': ('elem', ('leaf', ('dsized', e, rng.choice(['expr', 'lambda']), b'')))})
        elif k < 0.9:
            m = rng.choice([b':', b'\n', b'.*', b'a|b', b'\\', b';;'])
            fields.append({'move': None, 'body': ('elem', ('leaf', ('dmarker', m, rng.random() < 0.4, b'')))})
        else:
            alts = rng.choice([[('lit', b'a'), ('lit', b'b')], [('plus', 88)], [('lit', b'ab'), ('lit', b'a')]])
            fields.append({'move': None, 'body': ('elem', ('leaf', ('dregex', alts, True, b'')))})
        i += 1
    if rng.random() < 0.2:
        fields.append({'move': None, 'body': ('elem', ('leaf', ('deos', b'')))})
    return {0: dict(end=rng.choice([None, 'little']), align=None, sbl=None, gp=True, gu=True, vec=True, ann=True, fields=fields)}


def special_value(rng, table, v):
    """values with regex metacharacters"""
    env = dict(v[2])
    for i, fd in enumerate(table[0]['fields']):
        b = fd['body']
        if b[0] == 'elem' and b[1][1][0] == 'int' and rng.random() < 0.3 and b[1][1][1] == 1 and not b[1][1][2] \
                and not any(f['body'][0] == 'elem' and f['body'][1][1][0] == 'dsized' and f['body'][1][1][2] != 'const' for f in table[0]['fields']):
            env[i] = rng.choice([0x2e, 0x2a, 0x5c, 0x5b, 0x28, 0x24, 0x0a, 0x7c, 0x2d])
    return ('pkt', 0, env)


def render(tokens):
    out = b''
    i = 0
    while i < len(tokens):
        t = tokens[i]
        if t == 1:
            n = tokens[i + 1]; out += re.escape(bytes(tokens[i + 2:i + 2 + n])); i += 2 + n
        elif t == 2:
            out += (".{%i}" % tokens[i + 1]).encode(); i += 2
        elif t == 3:
            out += b".*"; i += 1
        elif t == 4:
            out += b'[' + re.escape(bytes([tokens[i + 1]])) + b'-' + re.escape(bytes([tokens[i + 2]])) + b']'; i += 3
        elif t == 5:
            n = tokens[i + 1]; out += b'[' + b''.join(re.escape(bytes([c])) for c in tokens[i + 2:i + 2 + n]) + b']'; i += 2 + n
        elif t == 6:
            n = tokens[i + 1]; i += 2
            parts = []
            for _ in range(n):
                if tokens[i] == 0:
                    ln = tokens[i + 1]; parts.append(re.escape(bytes(tokens[i + 2:i + 2 + ln]))); i += 2 + ln
                else:
                    parts.append(re.escape(bytes([tokens[i + 1]])) + b'+'); i += 2
            out += b"(?:" + b'|'.join(parts) + b")"
        elif t == 7:
            out += b"(?:$)"; i += 1
        else:
            return None
    return out


def cq_pslots(pattern):
    return "[" + "; ".join(f"(FN {i}, {'PAny' if v is ANY else 'PLit ' + decl.cq_value(v)})" for i, v in sorted(pattern.items())) + "]"


ANY = object()


def run(tier, seed, rng):
    import sys
    host = sys.byteorder == 'big'
    ng = 70 if tier == 'quick' else 2000
    groups, meta = [], []
    def add_group(gid, table, vals, nvals=2):
        G = pktcases.Group(table, gid)
        if not vals:
            groups.append(G)
            return
        for v in vals:
            G.add_pack(0, v)
        names = list(range(len(table[0]['fields'])))
        subsets = list(itertools.product([0, 1], repeat=len(names))) if len(names) <= 5 and (len(names) <= 4 or nvals > 2) else \
            [tuple(rng.random() < 0.5 for _ in names) for _ in range(16)] + [tuple(0 for _ in names), tuple(1 for _ in names)]
        for v in vals[:nvals]:
            for sub in subsets:
                pattern = {i: (v[2][i] if fixed else ANY) for i, fixed in zip(names, sub)}
                meta.append((gid, v, pattern))
        groups.append(G)
    for gid in range(ng):
        table = flat_table(rng)
        vg = gen.ValGen(rng, table)
        vals = [v for v in (vg.try_value(0) for _ in range(5)) if v is not None]
        vals = [special_value(rng, table, v) if rng.random() < 0.4 else v for v in vals]
        add_group(gid, table, vals)
    # ---- a string sized by a callable that BRANCHES on a flag (a bit field / a small integer): with the flag and the string left as Any
    # and everything else fixed, the corpus holds candidates of BOTH branches that agree with the pattern on every fixed field
    for variant, (how, flagbits) in enumerate([('lambda', True), ('expr', True), ('lambda', False), ('expr', False)]):
        size = ('ite', ('bin', 'Eq', ('field', 0), ('lit', 1)), ('lit', 3), ('lit', 1))
        if flagbits:
            head = [{'move': None, 'body': ('bits', 1, 0)}, {'move': None, 'body': ('bits', 7, 0)}]
        else:
            head = [{'move': None, 'body': ('elem', ('leaf', ('int', 1, False, None, 0)))}, {'move': None, 'body': ('elem', ('leaf', ('int', 1, False, None, 0)))}]
        fields = head + [{'move': None, 'body': ('elem', ('leaf', ('int', 1, False, None, 0)))},
                         {'move': None, 'body': ('elem', ('leaf', ('dsized', size, how, b'')))},
                         {'move': None, 'body': ('elem', ('leaf', ('int', 1, False, None, 0)))}]
        table = {0: dict(end=None, align=None, sbl=None, gp=True, gu=True, vec=True, ann=True, fields=fields)}
        vals = [('pkt', 0, {0: fl, 1: 5, 2: 7, 3: (b'xyz' if fl == 1 else b'q'), 4: 0x7f}) for fl in (0, 1)]
        vals += [('pkt', 0, {0: fl, 1: 5, 2: 7, 3: (b'abc' if fl == 1 else b'r'), 4: 0x7f}) for fl in (1, 0)]
        add_group(ng + variant, table, vals, nvals=4)
    # first pass: encode the values (corpus); second pass: the patterns against the corpus
    records, dis0 = pktcases.run_groups(groups, 'c18a')
    corpus = {}
    for r in records:
        if r['kind'] == 'pack' and 'ok' in r['outcome']:
            raw = bytes.fromhex(r['outcome']['ok'])
            near = [raw, raw + b'\x00', raw[:-1], raw[:len(raw) // 2] + b'\xff' + raw[len(raw) // 2 + 1:]]
            corpus.setdefault(r['group'], [])
            for x in near:
                if x not in corpus[r['group']]:
                    corpus[r['group']].append(x)
    groups2 = []
    by_gid = {g.gid: g for g in groups}
    cases = []
    for gid, v, pattern in meta:
        cases.append((gid, v, pattern))
    per = {}
    for k, (gid, v, pattern) in enumerate(cases):
        per.setdefault(gid, []).append(k)
    for gid, ks in per.items():
        G = pktcases.Group(by_gid[gid].table, gid)
        for k in ks:
            _, v, pattern = cases[k]
            G.add_extra(0, dict(op='regexp', pattern=[[f"f{i}", ({"any": True} if x is ANY else pktcases.jvalue(x))] for i, x in sorted(pattern.items())],
                                corpus=[x.hex() for x in corpus.get(gid, [])]))
        groups2.append(G)
    records2, _ = pktcases.run_groups(groups2, 'c18b')
    ex = [r for r in records2 if r['kind'] == 'extra:regexp']
    failures = []
    dist = dict(patterns=0, all_any=0, all_fixed=0, matched_strings=0, filtered_out=0, build_errors=0, bits_patterns=0)
    order = [k for gid, ks in per.items() for k in ks]
    coq_lines = []
    tables = {}
    for r, k in zip(ex, order):
        gid, v, pattern = cases[k]
        table = by_gid[gid].table
        o = r['outcome'].get('ok', {})
        dist['patterns'] += 1
        dist['all_any'] += all(x is ANY for x in pattern.values())
        dist['all_fixed'] += all(x is not ANY for x in pattern.values())
        dist['bits_patterns'] += any(fd['body'][0] == 'bits' for fd in table[0]['fields'])
        src = decl.py_class(0, table[0])
        pat_txt = ", ".join(f"f{i}={'Any()' if x is ANY else decl.py_value(x)}" for i, x in sorted(pattern.items()))
        if 'pattern' not in o:
            dist['build_errors'] += 1
            failures.append(dict(kind='oracle', sig='regexp-build', what=f"building the regular expression failed: {o.get('pattern_exc') or r['outcome']}",
                                 classes=src, pattern=pat_txt))
        elif 'with' not in o or 'without' not in o:
            failures.append(dict(kind='oracle', sig='regexp-filter', what=f"filter() raised: {o}", classes=src, pattern=pat_txt))
        else:
            dist['matched_strings'] += len(o['without'])
            dist['filtered_out'] += len(corpus.get(gid, [])) - len(o['with'])
            if o['with'] != o['without']:
                lost = [corpus[gid][i].hex() for i in o['without'] if i not in o['with']]
                failures.append(dict(kind='oracle', sig='regexp-sound', what='filter() with the regexp pre-filter returns other packets than without it',
                                     classes=src, pattern=pat_txt, regexp=bytes.fromhex(o['pattern']).decode('latin1'),
                                     dropped_or_added=lost, corpus=[x.hex() for x in corpus.get(gid, [])], observed=dict(o)))
        tables[gid] = table
        coq_lines.append((gid, cq_pslots(pattern), o.get('pattern')))
    # ---- conditional placeholders Any(startswith=, endswith=, contains=) on byte-string fields (outside the model: the oracle
    # alone): the pre-filter must not lose a packet that equals the pattern
    csrc = ("class CA(Packet):\n    k = Int(1)\n    line = Data(until_marker=b'\\n')\n    t = Int(1)\n"
            "class CB(Packet):\n    n = Int(1)\n    body = Data(n)\n    rest = Data(until_marker=b';', include_delimiter=True)\n"
            "class CC(Packet):\n    body = Data(3)\n    z = Data(until_marker=re.compile(b'\\r\\n|\\n'), include_delimiter=True)\n")
    conds = [dict(startswith=b'GE'), dict(endswith=b'/'), dict(contains=b'T '), dict(startswith=b'G', endswith=b'/'), dict(startswith=b'G', contains=b'E', endswith=b'/'),
             dict(contains=b'.'), dict(startswith=b'\n'), dict(endswith=b'*'),
             # prefix and suffix that can OVERLAP in a short value (b'aba', b'#', b'GE/'): S.*E needs len(S) + len(E) bytes
             # conditions that speak about the KEPT delimiter of an include_delimiter=True string (CB.rest, CC.z): finding D20
             dict(endswith=b';'), dict(endswith=b'/;'), dict(startswith=b'G', endswith=b';'), dict(contains=b';'), dict(endswith=b'\n'), dict(contains=b'\r\n'),
             dict(startswith=b'ab', endswith=b'ba'), dict(startswith=b'#', endswith=b'#'), dict(startswith=b'GE', endswith=b'E/'), dict(startswith=b'aa', endswith=b'aa')]
    corp = {'CA': [b'\x01aba\n\x07', b'\x01#\n\x07', b'\x01abba\n\x07', b'\x01##\n\x02', b'\x01GE/\n\x07', b'\x01aaa\n\x07', b'\x01aaaa\n\x07', b'\x01GET /\n\x02', b'\x01xGET /\n\x02', b'\x01GE\n\x02', b'\x01/\n\x02', b'\x01G/\n\x00', b'\x01AT /x\n/\n', b'\x01.*\n\x07', b'\x01G\x0bE/\n\x01'],
            'CB': [b'\x03aba;', b'\x01#;', b'\x04abba;', b'\x03GE/;', b'\x03aaa;', b'\x00#;', b'\x03GET/;', b'\x03GET;/;', b'\x02GEGE/;', b'\x00/;', b'\x04T /./;', b'\x01*G*/;'],
            'CC': [b'aba#\n', b'aaaaa\n', b'GE/G/\n', b'GE/xGE/\r\n', b'T /T \n', b'.../\n', b'G/G\n/\n']}
    ccases, cmeta = [], []
    for cls_, fld in (('CA', 'line'), ('CB', 'body'), ('CB', 'rest'), ('CC', 'body'), ('CC', 'z')):
        names = {'CA': ['k', 'line', 't'], 'CB': ['n', 'body', 'rest'], 'CC': ['body', 'z']}[cls_]
        for cond in conds:
            pat = [[n, ({"any": {kk: vv.hex() for kk, vv in cond.items()}} if n == fld else {"any": True})] for n in names]
            ccases.append(dict(cls=cls_, op='regexp', pattern=pat, corpus=[x.hex() for x in corp[cls_]]))
            cmeta.append((cls_, fld, cond))
    cres = run_impl(os.path.join(VERIF, 'harness', 'impl_pkt.py'), dict(header=decl.HEADER_PY, blocks=[dict(name='cond', src=csrc)], modname='c18c', cases=ccases))
    dist['conditional_any_patterns'] = len(ccases)
    for (cls_, fld, cond), o in zip(cmeta, cres['outcomes']):
        oo = o.get('ok', {})
        if 'with' not in oo or 'without' not in oo or oo['with'] != oo['without']:
            failures.append(dict(kind='oracle', sig='regexp-sound-conditional', what='filter() with the regexp pre-filter returns other packets than without it for a conditional placeholder Any(startswith=, endswith=, contains=)',
                                 classes=csrc, cls=cls_, pattern=f"{fld}=Any({', '.join(f'{k}={v!r}' for k, v in cond.items())}), every other field Any()",
                                 corpus=[x.hex() for x in corp[cls_]], observed=oo))
    # ---- FIXED values whose bytes spell regular-expression syntax beyond the single metacharacters: counted repetitions {m}, {m,n},
    # {,n} after a byte, alone, across two adjacent fixed fields, character-class / flag / comment spellings
    qsrc = ("class QF(Packet):\n    kind = Int(1)\n    tag = Data(4)\n    body = Data(until_marker=b';')\n"
            "class QG(Packet):\n    tag = Data(4)\n    n = Int(2)\n    rest = Data(until_marker=b'\\n', include_delimiter=True)\n")
    qtags = [b'a{2}', b'{2}z', b'a{,2', b'{,2}', b'a{1,', b'{1,}', b'ab{0', b'{0}b', b'a{2,', b'3}zz', b'2}zz', b'a-z]', b'(?i)', b'(?#x', b'a#b ', b'&&~~', b'\\d{2', b'a{}b', b'{{}}', b'x{1}']
    qbodies = [b'k{3}', b'{3}', b'a{2}{3}', b'a{1,2}b', b'k{0}', b'k{,3}z', b'}{', b'a{2', b'[a]{2}', b'a{2}.']
    qcases, qmeta = [], []
    for tg in qtags:
        exp = [tg, tg[:1] * 2 + b'zz', b'aazz', tg[:1] + tg[:1] + tg[2:], b'zzzz']
        for kind in (0x61, 0x7b, 0x2c):
            corp = [bytes([kind]) + (e + b'....')[:4] + bd + b';' for e in exp for bd in (b'', b'q')]
            for lit in ({'tag': tg}, {'kind': kind, 'tag': tg}, {'kind': kind}):
                pat = [[n, ({"x": lit[n].hex()} if isinstance(lit.get(n), bytes) else (lit[n] if n in lit else {"any": True}))] for n in ('kind', 'tag', 'body')]
                qcases.append(dict(cls='QF', op='regexp', pattern=pat, corpus=[x.hex() for x in corp])); qmeta.append(('QF', lit, corp))
        corp = [(e + b'....')[:4] + nn + b'r\n' for e in exp for nn in (b'{2', b'2}', b'ab')]
        for lit in ({'tag': tg}, {'tag': tg, 'n': 0x7b32}, {'tag': tg, 'n': 0x327d}, {'n': 0x7b32, 'rest': b'}\n'}):
            pat = [[n, ({"x": lit[n].hex()} if isinstance(lit.get(n), bytes) else (lit[n] if n in lit else {"any": True}))] for n in ('tag', 'n', 'rest')]
            qcases.append(dict(cls='QG', op='regexp', pattern=pat, corpus=[x.hex() for x in corp])); qmeta.append(('QG', lit, corp))
    for bd in qbodies:
        corp = [b'a' + b'tttt' + x + b';' for x in (bd, bd[:1] * 3, b'aa', b'aab', b'', b'kkk', b'aa' * 3, b'ab', b'aaz')]
        for lit in ({'body': bd}, {'tag': b'tttt', 'body': bd}):
            pat = [[n, ({"x": lit[n].hex()} if isinstance(lit.get(n), bytes) else {"any": True})] for n in ('kind', 'tag', 'body')]
            qcases.append(dict(cls='QF', op='regexp', pattern=pat, corpus=[x.hex() for x in corp])); qmeta.append(('QF', lit, corp))
    qres = run_impl(os.path.join(VERIF, 'harness', 'impl_pkt.py'), dict(header=decl.HEADER_PY, blocks=[dict(name='quant', src=qsrc)], modname='c18q', cases=qcases))
    dist['quantifier_spelling_patterns'] = len(qcases)
    for (cls_, lit, corp), o in zip(qmeta, qres['outcomes']):
        oo = o.get('ok', {})
        if 'with' not in oo or 'without' not in oo or oo['with'] != oo['without']:
            failures.append(dict(kind='oracle', sig='regexp-sound-literal-syntax', what='filter() with the regexp pre-filter returns other packets than without it (or the expression cannot be built) for fixed values whose bytes spell regular-expression syntax',
                                 classes=qsrc, cls=cls_, pattern=', '.join(f"{k}={v!r}" for k, v in lit.items()) + ' (every other field Any())',
                                 corpus=[x.hex() for x in corp], observed=oo if oo else o))
    # ---- a delimiter that is NOT consumed (consume_delimiter=False: the next field begins with it): finding D19
    usrc = ("class UH(Packet):\n    key = Data(until_marker=b':', consume_delimiter=False)\n    val = Data(until_marker=b'\\n')\n"
            "class UI(Packet):\n    key = Data(until_marker=b':', consume_delimiter=False)\n    sep = Int(1)\n    n = Int(1)\n")
    ucorp = {'UH': [b'A:b\n', b'Host:example\n', b':\n', b'A::b\n'], 'UI': [b'A:\x07', b'AB::', b':\x00']}
    ucases, umeta = [], []
    for cls_, names, lits in (('UH', ['key', 'val'], [{'val': b':b'}, {'val': b':example'}, {'key': b'A'}, {}]),
                              ('UI', ['key', 'sep', 'n'], [{'sep': 0x3a}, {'sep': 0x3a, 'n': 7}, {'n': 0x3a}, {}])):
        for lit in lits:
            pat = [[n, ({"x": lit[n].hex()} if isinstance(lit.get(n), bytes) else (lit[n] if n in lit else {"any": True}))] for n in names]
            ucases.append(dict(cls=cls_, op='regexp', pattern=pat, corpus=[x.hex() for x in ucorp[cls_]]))
            umeta.append((cls_, lit))
    ures = run_impl(os.path.join(VERIF, 'harness', 'impl_pkt.py'), dict(header=decl.HEADER_PY, blocks=[dict(name='uncons', src=usrc)], modname='c18u', cases=ucases))
    dist['unconsumed_delimiter_patterns'] = len(ucases)
    for (cls_, lit), o in zip(umeta, ures['outcomes']):
        oo = o.get('ok', {})
        if 'with' not in oo or 'without' not in oo or oo['with'] != oo['without']:
            failures.append(dict(kind='oracle', sig='D19 a delimiter that is not consumed is required twice by the regular expression',
                                 what='filter() with the regexp pre-filter returns other packets than without it: the string left as Any contributes its delimiter, and so does the field that follows and begins with it',
                                 classes=usrc, cls=cls_, pattern=', '.join(f"{k}={v!r}" for k, v in lit.items()) + ' (every other field Any())',
                                 corpus=[x.hex() for x in ucorp[cls_]], observed=oo))
    # ---- Tie B: the model's regular expression, rendered, must be the implementation's, byte for byte
    files = []
    chunks = shard(coq_lines, 150)
    for ci, part in enumerate(chunks):
        txt = [HEADER_COQ]
        gids = sorted({g for g, _, _ in part})
        for g in gids:
            txt.append(f"Definition T{g} : list (cid * pclass) := {decl.cq_table(tables[g])}.\n")
        txt.append("Eval vm_compute in (" + " ++ ".join(f"enc_case {'true' if host else 'false'} T{g} 0 {ps}" for g, ps, _ in part) + ").\n")
        files.append((f"c18_{ci}", "".join(txt)))
    outs = coq_eval_files(files)
    disagreements = list(dis0)
    for ci, part in enumerate(chunks):
        toks = parse_coq_list(outs[f"c18_{ci}"])
        segs, cur = [], []
        for t in toks:
            if t == -2:
                segs.append(cur); cur = []
            else:
                cur.append(t)
        for (g, ps, impl_pat), seg in zip(part, segs):
            model = None if (seg and seg[0] < 0) else render(seg)
            implb = bytes.fromhex(impl_pat)[4:] if impl_pat is not None else None      # without the (?s) prefix
            if model != implb:
                disagreements.append(dict(kind='correspondence', classes=decl.py_class(0, tables[g][0]), pattern=ps,
                                          model=None if model is None else model.decode('latin1'),
                                          implementation=None if implb is None else implb.decode('latin1'),
                                          what='Model/Pattern.regex_of and Packet.as_regular_expression build different expressions'))
    return dict(evaluations=len(ex) + len(records), distinct_nontrivial=len({(g, ps) for g, ps, _ in coq_lines}),
                rule=("random flat classes over Int, Bits and Data (constant / field / expression / callable size, literal markers with regex "
                      "metacharacters, kept regex delimiters, read-to-end); per class 2 consistent values (some with metacharacter bytes) x every "
                      "subset of fields fixed (all 2^k for k <= 4, else 18 subsets incl. none and all); corpus = encodings of 5 values and "
                      "near-misses; filter() with and without the pre-filter must agree; the expression itself is compared byte for byte with the "
                      "rendering of the model's"),
                samples=[dict(classes=decl.py_class(0, tables[coq_lines[0][0]][0]), pattern=coq_lines[0][1], regexp=coq_lines[0][2])] if coq_lines else [],
                distribution=dist, failures=failures, disagreements=disagreements)


def replay(f):
    return True, dict(note='re-run the check: python3 check.py C18', failure=f)
