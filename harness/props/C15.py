"""C15 A class behaves per its current declaration whatever the code cache holds."""
import os, itertools
from common import *
import cachelib

PID = 'C15'
TARGETS = ['Properties/C15.vo', 'Bridge/CacheBridge.vo', 'Bridge/CodegenBridge.vo']
KERNELS = ['G14_cache', 'G11_codegen']
PROP_FILE = 'Properties/C15.v'
ASSUMPTIONS = ["partial: sha1 collision freedom; the interpreter's rule for using a bytecode file (equal source stamp); atomicity of os.replace; "
               "sys.modules reload semantics are not in the model (covered only by the implementation runs of this check)"]
VARS = ['A', 'A4', 'B', 'C', 'Anv', 'Anp', 'Aoff', 'Ana', 'Ale', 'Anale', 'Dal', 'Dfx']
VID = {v: i for i, v in enumerate(VARS)}

HEADER_COQ = """From Coq Require Import ZArith List Bool.
From Bisturi Require Import Kernel.Cache.
Import ListNotations. Open Scope Z_scope.
(* D := variant number; cookies equal iff same variant; -1 = generation switched off (the cache is not touched) *)
Definition step (s : fs Z * list bool) (x : Z * nat) : fs Z * list bool :=
  let '(d, stamp) := x in
  if d <? 0 then (fst s, snd s ++ [false])
  else
    let m := fst (load Z false (fst s)) in
    let hit := matches Z Z.eqb d m in
    (snd (define Z Z.eqb false true stamp d (fst s)), snd s ++ [negb hit]).
Definition rewrites (h : list (Z * nat)) : list bool := snd (fold_left step h ({| src := None; pyc := None |}, [])).
Fixpoint bad (i : Z) (cs : list (list (Z * nat) * list bool)) : list Z :=
  match cs with
  | [] => []
  | (h, want) :: r =>
      if (Nat.eqb (length (rewrites h)) (length want)) && forallb (fun p => Bool.eqb (fst p) (snd p)) (combine (rewrites h) want)
      then bad (i + 1) r else i :: bad (i + 1) r
  end.
"""


def run_history(args):
    """a history = list of process runs; each process run = (bytecode_on, [steps]); all on one fresh directory"""
    hist = args
    out = []
    with Scratch('c15') as d:
        for k, (bytecode, steps) in enumerate(hist):
            rc, o, log = cachelib.run_proc(d, steps, bytecode=bytecode, tag=f'h{k}')
            out.append((rc, o, log))
    return out


def run(tier, seed, rng):
    hists = []
    base = ['A', 'A4', 'C', 'Anv', 'Aoff', 'Ale', 'Ana', 'Anale', 'Dal', 'Dfx']
    # exhaustive: every sequence of two definitions, in one process and across two processes, bytecode on/off
    for a, b in itertools.product(base, repeat=2):
        for bc in (False, True):
            hists.append([(bc, [dict(variant=a), dict(variant=b)])])
            hists.append([(bc, [dict(variant=a)]), (bc, [dict(variant=b)])])
    # same size and same (forged) time stamp, stale bytecode
    for a, b in (('A', 'A4'), ('A4', 'A'), ('A', 'A')):
        hists.append([(True, [dict(variant=a, forge_mtime=True), dict(variant=b, forge_mtime=True), dict(variant=a, forge_mtime=True)])])
        hists.append([(True, [dict(variant=a, forge_mtime=True)]), (True, [dict(variant=b, forge_mtime=True)]), (True, [dict(variant=a, forge_mtime=True)])])
        hists.append([(True, [dict(variant=a, forge_mtime=True)]), (False, [dict(variant=b, forge_mtime=True)]), (True, [dict(variant=a, forge_mtime=True)])])
    # random longer histories
    for _ in range(40 if tier == 'quick' else 3000):
        h = []
        for _ in range(rng.randint(1, 3)):
            h.append((rng.random() < 0.5, [dict(variant=rng.choice(VARS), forge_mtime=rng.random() < 0.2) for _ in range(rng.randint(1, 4))]))
        hists.append(h)
    from concurrent.futures import ThreadPoolExecutor
    with ThreadPoolExecutor(max_workers=NPROC) as ex:
        results = list(ex.map(run_history, hists))
    failures, lines = [], []
    dist = dict(definitions=0, hits=0, rewrites=0, processes=0, forged=0, generation_off=0)
    for h, res in zip(hists, results):
        flat, obs = [], []
        forged = any(s.get('forge_mtime') for _, steps in h for s in steps)
        for (bc, steps), (rc, o, log) in zip(h, res):
            dist['processes'] += 1
            if o is None:
                failures.append(dict(kind='oracle', sig='cache-crash', what=f"a defining process died (exit {rc}): {log}", history=h))
                continue
            for st, rec in zip(steps, o['steps']):
                dist['definitions'] += 1
                why = cachelib.step_ok(rec, st['variant'])
                if why:
                    failures.append(dict(kind='oracle', sig='cache-behaviour', what=why, history=h, step=st))
                rew = 'replace' in rec['ops']
                dist['rewrites' if rew else 'hits'] += 1
                dist['forged'] += bool(st.get('forge_mtime'))
                dist['generation_off'] += st['variant'] == 'Aoff'
                if not cachelib.conforms(rec['ops']) and rec['ops']:
                    failures.append(dict(kind='oracle', sig='cache-trace', what=f"file operations {rec['ops']} are not a run of the protocol", history=h, step=st))
                flat.append(st['variant'])
                obs.append(rew)
        if not forged:
            # the model predicts, for fresh time stamps, exactly which definitions rewrite the cache file
            hs = "[" + "; ".join(f"({-1 if v == 'Aoff' else VID[v]}, {k + 1}%nat)" for k, v in enumerate(flat)) + "]"
            lines.append((hs + ", [" + "; ".join('true' if x else 'false' for x in obs) + "]", h))
    files = [(f"c15_{i}", HEADER_COQ + "Definition cases : list (list (Z * nat) * list bool) := [\n" + ";\n".join("(" + l + ")" for l, _ in part) +
              "\n].\nEval vm_compute in (bad 0 cases).\n") for i, part in enumerate(shard(lines, 200))]
    outs = coq_eval_files(files)
    disagreements = []
    for i in range(len(files)):
        for j in parse_coq_list(outs[f"c15_{i}"]):
            disagreements.append(dict(kind='correspondence', history=lines[i * 200 + j][1], case=lines[i * 200 + j][0],
                                      what='Kernel/Cache.define and bisturi.codegen disagree on which definitions rewrite the cache file'))
    return dict(evaluations=dist['definitions'], distinct_nontrivial=len({json.dumps(h) for h in hists if sum(len(s) for _, s in h) >= 2}),
                rule=("histories of definitions of a same-named class P in one module m.py of one directory: every ordered pair of 5 declarations "
                      "(same-length generated source A/A4, other field list, vectorize off, generation off) in one process and across two "
                      "processes, bytecode caching on and off; same size + forged equal time stamp with stale bytecode; random histories of up to "
                      "3 processes x 4 definitions over 8 declarations; after every definition the class must behave exactly as a cache-free twin "
                      "of its own declaration; the model predicts which definitions rewrite the cache file"),
                samples=[dict(history=hists[0], steps=[[s['variant'], s['ops']] for s in results[0][0][1]['steps']])],
                distribution=dist, failures=failures, disagreements=disagreements)


def replay(f):
    res = run_history(f['history'])
    bad = []
    for (bc, steps), (rc, o, log) in zip(f['history'], res):
        if o is None:
            bad.append(log)
            continue
        for st, rec in zip(steps, o['steps']):
            why = cachelib.step_ok(rec, st['variant'])
            if why:
                bad.append(why)
    return bool(bad), dict(observed=bad)
