"""C15 A class behaves per its current declaration whatever the code cache holds."""
import os, itertools
from common import *
import cachelib

PID = 'C15'
TARGETS = ['Properties/C15.vo', 'Bridge/CacheBridge.vo', 'Bridge/CodegenBridge.vo']
KERNELS = ['G14_cache', 'G11_codegen']
PROP_FILE = 'Properties/C15.v'
ASSUMPTIONS = ["partial: sha1 collision freedom; the interpreter's rule for using a bytecode file (equal source stamp); atomicity of os.replace; "
               "sys.modules reload semantics are not in the model (covered only by the implementation runs of this check)"]
VARS = ['A', 'A4', 'B', 'C', 'Anv', 'Anp', 'Aoff', 'Ana', 'Ale', 'Anale', 'Dal', 'Dfx', 'Cnp', 'Anu', 'Cnu']
VID = {v: i for i, v in enumerate(VARS)}

HEADER_COQ = """From Coq Require Import ZArith List Bool.
From Bisturi Require Import Kernel.Cache.
Import ListNotations. Open Scope Z_scope.
(* D := variant number; cookies equal iff same variant; -1 = generation switched off (the cache is not touched) *)
Definition step (s : fs Z * list bool) (x : Z * nat) : fs Z * list bool :=
  let '(d, stamp) := x in
  if d <? 0 then (fst s, snd s ++ [false])
  else
    let m := fst (load Z false (fst s)) in
    let hit := matches Z Z.eqb d m in
    (snd (define Z Z.eqb false true stamp d (fst s)), snd s ++ [negb hit]).
Definition rewrites (h : list (Z * nat)) : list bool := snd (fold_left step h ({| src := None; pyc := None |}, [])).
Fixpoint bad (i : Z) (cs : list (list (Z * nat) * list bool)) : list Z :=
  match cs with
  | [] => []
  | (h, want) :: r =>
      if (Nat.eqb (length (rewrites h)) (length want)) && forallb (fun p => Bool.eqb (fst p) (snd p)) (combine (rewrites h) want)
      then bad (i + 1) r else i :: bad (i + 1) r
  end.
"""


def run_history(args):
    """a history = list of process runs; each process run = (bytecode_on, [steps]); all on one fresh directory"""
    hist = args
    out = []
    with Scratch('c15') as d:
        for k, (bytecode, steps) in enumerate(hist):
            rc, o, log = cachelib.run_proc(d, steps, bytecode=bytecode, tag=f'h{k}')
            out.append((rc, o, log))
    return out


def run(tier, seed, rng):
    hists = []
    base = ['A', 'A4', 'C', 'Anv', 'Aoff', 'Ale', 'Ana', 'Anale', 'Dal', 'Dfx', 'Anp', 'Cnp', 'Anu', 'Cnu']
    # exhaustive: every sequence of two definitions, in one process and across two processes, bytecode on/off
    for a, b in itertools.product(base, repeat=2):
        for bc in (False, True):
            hists.append([(bc, [dict(variant=a), dict(variant=b)])])
            hists.append([(bc, [dict(variant=a)]), (bc, [dict(variant=b)])])
    # same size and same (forged) time stamp, stale bytecode
    for a, b in (('A', 'A4'), ('A4', 'A'), ('A', 'A')):
        hists.append([(True, [dict(variant=a, forge_mtime=True), dict(variant=b, forge_mtime=True), dict(variant=a, forge_mtime=True)])])
        hists.append([(True, [dict(variant=a, forge_mtime=True)]), (True, [dict(variant=b, forge_mtime=True)]), (True, [dict(variant=a, forge_mtime=True)])])
        hists.append([(True, [dict(variant=a, forge_mtime=True)]), (False, [dict(variant=b, forge_mtime=True)]), (True, [dict(variant=a, forge_mtime=True)])])
    # the cached SOURCE is removed while its bytecode stays (a cleaned __pkts__/*.py with __pycache__ left behind): timestamp
    # bytecode with the same size and the same (forged) time stamp, and unchecked-hash bytecode
    for a, b in (('A', 'A4'), ('A4', 'A'), ('A', 'C'), ('Ale', 'A'), ('A', 'A')):
        for how in ('plain', 'unchecked'):
            for fg in (True, False):
                hists.append([(True, [dict(variant=a, forge_mtime=fg), dict(variant=b, forge_mtime=fg, drop_source=how), dict(variant=a, forge_mtime=fg)])])
                hists.append([(True, [dict(variant=a, forge_mtime=fg)]), (True, [dict(variant=b, forge_mtime=fg, drop_source=how)]), (False, [dict(variant=b, forge_mtime=fg)])])
    # random longer histories
    for _ in range(40 if tier == 'quick' else 3000):
        h = []
        for _ in range(rng.randint(1, 3)):
            h.append((rng.random() < 0.5, [dict(variant=rng.choice(VARS), forge_mtime=rng.random() < 0.2) for _ in range(rng.randint(1, 4))]))
        hists.append(h)
    # ---- declarations whose generated sources are permutations of one another (two field names exchanged): same length, same
    # bytes, same sums -- what a size / time stamp / checksum comparison cannot tell apart.  Names over digits 0..2 (all pairs with
    # equal digit sums), the first declaration cached, the second defined in the same and in a fresh process
    import json as _json
    def custom(body, conf='{}'):
        return 'custom:' + _json.dumps(dict(conf=conf, body=body), sort_keys=True, ensure_ascii=True)
    digs = [f"{a}{b}{c}" for a in '012' for b in '012' for c in '012']
    anagrams = [(x, y) for i, x in enumerate(digs) for y in digs[i + 1:] if sum(map(int, x)) == sum(map(int, y))]
    if tier == 'quick':
        anagrams = [p for k, p in enumerate(anagrams) if k % 2 == seed % 2 or p in (('121', '202'), ('020', '101'), ('010', '001'))]
    pairs = [(f"r_{x}", f"r_{y}") for x, y in anagrams]
    # ... and identifiers outside ASCII (legal field names): exchanged, and differing from an ASCII name by one letter
    pairs += [('\u03b1', '\u03b2'), ('caf\u00e9', 'cafe'), ('\u00e9t\u00e9', '\u00e8t\u00e9'), ('n\u0303', 'n')]
    for a, b in pairs:
        v1 = custom(f"{a} = Int(1)\n    {b} = Int(2)")
        v2 = custom(f"{b} = Int(1)\n    {a} = Int(2)")
        hists.append([(False, [dict(variant=v1)]), (False, [dict(variant=v2)])])
        hists.append([(True, [dict(variant=v2), dict(variant=v1)])])
    # ---- declarations whose generated code is TEXTUALLY equal although they differ (fields without struct code are reached through
    # the field table: Int(3) / Int(5), odd widths under 'big' / 'little'; annotations off): same cookie by right, one process --
    # every class defined so far must go on behaving per its OWN declaration after each later definition
    def eqtext(body, conf="{'annotate': False}"):
        return custom(body, conf)
    same_text = [(eqtext("val = Int(3)\n    t = Int(1)"), eqtext("val = Int(5)\n    t = Int(1)")),
                 (eqtext("val = Int(3)\n    t = Int(1)", "{'annotate': False, 'endianness': 'big'}"), eqtext("val = Int(3)\n    t = Int(1)", "{'annotate': False, 'endianness': 'little'}")),
                 (eqtext("a = Data(3)\n    n = Int(3)"), eqtext("a = Data(3)\n    n = Int(6, signed=True)")),
                 (eqtext("val = Int(3)"), eqtext("val = Int(3, endianness='little')"))]
    # (equal generated text: equal cookies, the model's variant number is shared -- except for the pair that differs in the CLASS
    # configuration, which the cookie covers: those two rewrite the file each time)
    alias = {v2: v1 for k_, (v1, v2) in enumerate(same_text) if k_ != 1}
    for v1, v2 in same_text:
        for bc in (False, True):
            hists.append([(bc, [dict(variant=v1), dict(variant=v2)])])
            hists.append([(bc, [dict(variant=v1), dict(variant=v2), dict(variant=v1), dict(variant=v2)])])
            hists.append([(bc, [dict(variant=v2)]), (bc, [dict(variant=v1), dict(variant=v2)])])
    # ---- LONG declarations (24 fields, each its own block of generated code) that differ in ONE field in the middle, the generated
    # texts of equal length: a comparison of sizes, of the first and last KiB, of a checksum over a window cannot tell them apart
    def longdecl(mid):
        return custom("\n    ".join((f"n{i:02d} = {mid}" if i == 12 else f"n{i:02d} = Int(3)") for i in range(24)))
    for m1, m2 in (('Int(2)', 'Int(4)'), ('Int(5)', 'Int(7)'), ('Int(2)', 'Int(8)')):
        v1, v2 = longdecl(m1), longdecl(m2)
        hists.append([(False, [dict(variant=v1)]), (False, [dict(variant=v2)])])
        hists.append([(True, [dict(variant=v1), dict(variant=v2), dict(variant=v1)])])
        hists.append([(True, [dict(variant=v2)]), (False, [dict(variant=v1)])])
    # ---- survey of the constant the generated module is recognised by: many declarations, any two with the same constant but
    # different code are a collision; each collision found is then run as a history like the ones above
    nsurvey = 1500 if tier == 'quick' else 40000
    kinds = ['Int(1)', 'Int(2)', 'Int(4)', 'Data(2)', "Int(2, endianness='little')"]
    survey = []
    for k in range(nsurvey):
        nf = rng.randint(1, 3)
        survey.append(custom("\n    ".join(f"{rng.choice('abcdr')}{rng.choice('_xyz')}{rng.randrange(1000)}{'_' * i} = {rng.choice(kinds)}" for i in range(nf))))
    survey = sorted(set(survey))
    collisions = []
    with Scratch('c15s') as d:
        from concurrent.futures import ThreadPoolExecutor as _TPE
        parts = shard(survey, len(survey) // NPROC + 1)
        def one(ip):
            i, part = ip
            sub = os.path.join(d, f's{i}')
            os.makedirs(sub)
            rc, o, log = cachelib.run_proc(sub, part, mode='cookies', tag='cs')
            return o['cookies'] if o else [[None, 'EXC:process']] * len(part)
        with _TPE(max_workers=NPROC) as ex:
            cks = [c for res in ex.map(one, list(enumerate(parts))) for c in res]
    seen = {}
    for v, (ck, digest) in zip(survey, cks):
        if ck is None or digest.startswith('EXC'):
            continue
        if ck in seen and seen[ck][1] != digest:
            collisions.append((seen[ck][0], v))
        seen.setdefault(ck, (v, digest))
    for v1, v2 in collisions[:20]:
        hists.append([(False, [dict(variant=v1)]), (False, [dict(variant=v2)])])
        hists.append([(False, [dict(variant=v2)]), (False, [dict(variant=v1)])])
    from concurrent.futures import ThreadPoolExecutor
    with ThreadPoolExecutor(max_workers=NPROC) as ex:
        results = list(ex.map(run_history, hists))
    failures, lines = [], []
    dist = dict(definitions=0, hits=0, rewrites=0, processes=0, forged=0, generation_off=0, permuted_pairs=len(anagrams), surveyed=len(seen), survey_collisions=len(collisions))
    cid = {}
    for h, res in zip(hists, results):
        flat, obs = [], []
        forged = any(s.get('forge_mtime') or s.get('drop_source') for _, steps in h for s in steps)
        for (bc, steps), (rc, o, log) in zip(h, res):
            dist['processes'] += 1
            if o is None:
                failures.append(dict(kind='oracle', sig='cache-crash', what=f"a defining process died (exit {rc}): {log}", history=h))
                continue
            for st, rec in zip(steps, o['steps']):
                dist['definitions'] += 1
                why = cachelib.step_ok(rec, st['variant'])
                if why:
                    failures.append(dict(kind='oracle', sig='cache-behaviour', what=why, history=h, step=st))
                rew = 'replace' in rec['ops']
                dist['rewrites' if rew else 'hits'] += 1
                dist['forged'] += bool(st.get('forge_mtime'))
                dist['generation_off'] += st['variant'] == 'Aoff'
                if not cachelib.conforms(rec['ops'], rec.get('noload', False)) and rec['ops']:
                    failures.append(dict(kind='oracle', sig='cache-trace', what=f"file operations {rec['ops']} are not a run of the protocol", history=h, step=st))
                flat.append(st['variant'])
                obs.append(rew)
        if not forged:
            # the model predicts, for fresh time stamps, exactly which definitions rewrite the cache file
            hs = "[" + "; ".join(f"({-1 if v == 'Aoff' else (VID[v] if v in VID else cid.setdefault(alias.get(v, v), 100 + len(cid)))}, {k + 1}%nat)" for k, v in enumerate(flat)) + "]"
            lines.append((hs + ", [" + "; ".join('true' if x else 'false' for x in obs) + "]", h))
    files = [(f"c15_{i}", HEADER_COQ + "Definition cases : list (list (Z * nat) * list bool) := [\n" + ";\n".join("(" + l + ")" for l, _ in part) +
              "\n].\nEval vm_compute in (bad 0 cases).\n") for i, part in enumerate(shard(lines, 200))]
    outs = coq_eval_files(files)
    disagreements = []
    for i in range(len(files)):
        for j in parse_coq_list(outs[f"c15_{i}"]):
            disagreements.append(dict(kind='correspondence', history=lines[i * 200 + j][1], case=lines[i * 200 + j][0],
                                      what='Kernel/Cache.define and bisturi.codegen disagree on which definitions rewrite the cache file'))
    return dict(evaluations=dist['definitions'], distinct_nontrivial=len({json.dumps(h) for h in hists if sum(len(s) for _, s in h) >= 2}),
                rule=("histories of definitions of a same-named class P in one module m.py of one directory: every ordered pair of 5 declarations "
                      "(same-length generated source A/A4, other field list, vectorize off, generation off) in one process and across two "
                      "processes, bytecode caching on and off; same size + forged equal time stamp with stale bytecode; random histories of up to "
                      "3 processes x 4 definitions over 8 declarations; after every definition the class must behave exactly as a cache-free twin "
                      "of its own declaration; the model predicts which definitions rewrite the cache file"),
                samples=[dict(history=hists[0], steps=[[s['variant'], s['ops']] for s in results[0][0][1]['steps']])],
                distribution=dist, failures=failures, disagreements=disagreements)


def replay(f):
    res = run_history(f['history'])
    bad = []
    for (bc, steps), (rc, o, log) in zip(f['history'], res):
        if o is None:
            bad.append(log)
            continue
        for st, rec in zip(steps, o['steps']):
            why = cachelib.step_ok(rec, st['variant'])
            if why:
                bad.append(why)
    return bool(bad), dict(observed=bad)
