"""C11 The output buffer never loses, overwrites or misplaces bytes (bisturi/fragments.py)."""
import itertools, os
from common import *

PID = 'C11'
TARGETS = ['Properties/C11.vo', 'Bridge/FragBridge.vo', 'Bridge/MiscFragBridge.vo', 'Proofs/FragContinue.vo']
KERNELS = ['G1_frag', 'G20a_frag_misc']
PROP_FILE = 'Properties/C11.v'
DESIGN_REF = 'DESIGN.md section 8, C11'


def chunk(k, n, style=0):
    """distinct, recognisable content for the k-th operation; style 1: a run of the fill byte ('.' is also what holes read as),
    style 2: NULs, style 3: 0xff -- stored bytes are stored bytes whatever their value"""
    if style:
        return {1: b'.', 2: b'\x00', 3: b'\xff'}[style] * n
    return bytes((97 + 3 * (k % 8) + j) % 256 for j in range(n))


def gen_histories(tier, rng):
    """exhaustive small scope + random longer histories"""
    hs = []
    if tier == 'quick':
        maxlen, npos, nlen = 3, 5, 3
        nrand = 600
    else:
        maxlen, npos, nlen = 4, 6, 4
        nrand = 6000
    alphabet = [('i', p, n) for p in range(npos) for n in range(nlen)] + [('a', n) for n in range(nlen)]
    for L in range(1, maxlen + 1):
        for combo in itertools.product(alphabet, repeat=L):
            h = []
            for k, o in enumerate(combo):
                if o[0] == 'i':
                    h.append(['i', o[1], chunk(k, o[2]).hex()])
                else:
                    h.append(['a', chunk(k, o[1]).hex()])
            hs.append(h)
    # the same scope once more with the FIRST chunk made of the fill byte (and, up to length 2, every chunk of the fill byte / NULs)
    for L in range(2, maxlen + 1):
        for combo in itertools.product(alphabet, repeat=L):
            styles = [(1,) + (0,) * (L - 1)] + ([(1,) * L, (2,) * L, (0, 1)] if L == 2 else [])
            for st in styles:
                h = []
                for k, o in enumerate(combo):
                    if o[0] == 'i':
                        h.append(['i', o[1], chunk(k, o[2], st[k]).hex()])
                    else:
                        h.append(['a', chunk(k, o[1], st[k]).hex()])
                hs.append(h)
    nex = len(hs)
    for _ in range(nrand):
        L = rng.randint(4, 9)
        h = []
        for k in range(L):
            r = rng.random()
            n = rng.choice([0, 0, 1, 1, 2, 3, 5])
            sty = rng.choice([0, 0, 0, 1, 1, 2, 3])
            if r < 0.55:
                h.append(['i', rng.randint(0, 24), chunk(k, n, sty).hex()])
            elif r < 0.75:
                h.append(['a', chunk(k, n, sty).hex()])
            elif r < 0.9:
                h.append(['e', [chunk(k + j, rng.choice([0, 1, 2])).hex() for j in range(rng.randint(0, 3))]])
            else:
                h.append(['c', rng.randint(0, 24)])
        hs.append(h)
    return hs, nex


def op_to_coq(op):
    if op[0] == 'i':
        return f"OInsert {zlit(op[1])} {blit(bytes.fromhex(op[2]))}"
    if op[0] == 'a':
        return f"OAppend {blit(bytes.fromhex(op[1]))}"
    if op[0] == 'e':
        return "OExtend [" + ';'.join(blit(bytes.fromhex(x)) for x in op[1]) + "]"
    return f"OSetCur {zlit(op[1])}"


def outcome_to_coq(o):
    if o[0] == 'ok':
        return f"(0, {blit(bytes.fromhex(o[1]))}, {zlit(o[2])})"
    if o[0] == 'collision':
        return f"(1, [], {o[1]})"
    return f"(2, [], {o[1]})"


HEADER = """From Coq Require Import ZArith List Bool.
From Bisturi Require Import Base.Bytes Kernel.Frag.
Import ListNotations. Open Scope Z_scope.
Definition outcome (ops : list op) : Z * bytes * Z :=
  match run_ops empty ops 0 with
  | (Ok s, _) => (0, tobytes s, cur s)
  | (Collision, k) => (1, [], k)
  | (Crash, k) => (2, [], k)
  end.
Definition same (a b : Z * bytes * Z) : bool :=
  let '(c1, b1, k1) := a in let '(c2, b2, k2) := b in
  (c1 =? c2) && (k1 =? k2) && (Z.of_nat (length b1) =? Z.of_nat (length b2)) && forallb (fun p => fst p =? snd p) (combine b1 b2).
Fixpoint bad (i : Z) (cs : list (list op * (Z * bytes * Z))) : list Z :=
  match cs with [] => [] | (ops, o) :: r => if same (outcome ops) o then bad (i + 1) r else i :: bad (i + 1) r end.
"""


def spec_outcome(h, fill=46):
    """The property itself, as a sparse array (independent of the model and of the implementation)."""
    cells, ext, cur = {}, 0, 0
    def ins(p, b):
        nonlocal ext, cur
        if any((p + j) in cells for j in range(len(b))):
            return False
        for j, x in enumerate(b):
            cells[p + j] = x
        ext = max(ext, p + len(b))
        cur = p + len(b)
        return True
    for k, op in enumerate(h):
        if op[0] == 'i':
            ok = ins(op[1], bytes.fromhex(op[2]))
        elif op[0] == 'a':
            ok = ins(cur, bytes.fromhex(op[1]))
        elif op[0] == 'e':
            ok = True
            for x in op[1]:
                ok = ins(cur, bytes.fromhex(x))
                if not ok:
                    break
        else:
            cur = op[1]
            ok = True
        if not ok:
            return ['collision', k]
    return ['ok', bytes(cells.get(q, fill) for q in range(ext)).hex(), cur]


def run(tier, seed, rng):
    hs, nex = gen_histories(tier, rng)
    parts = shard(hs, 4000)
    outs = run_impl_parallel(os.path.join(VERIF, 'harness', 'impl_frag.py'), [{'histories': p} for p in parts])
    outcomes = [o for part in outs for o in part]
    # ---- oracle: the implementation against the sparse-array statement
    failures = []
    nontrivial = set()
    dist = {'ok': 0, 'collision': 0, 'crash': 0, 'with_hole': 0, 'out_of_order': 0, 'with_empty_chunk': 0}
    for h, o in zip(hs, outcomes):
        want = spec_outcome(h)
        dist[o[0]] = dist.get(o[0], 0) + 1
        poss = [op[1] for op in h if op[0] == 'i']
        if any(b < a for a, b in zip(poss, poss[1:])):
            dist['out_of_order'] += 1
        if any((op[0] == 'i' and op[2] == '') or (op[0] == 'a' and op[1] == '') for op in h):
            dist['with_empty_chunk'] += 1
        if o[0] == 'ok' and '2e' in o[1]:
            dist['with_hole'] += 1
        if len(h) >= 2:
            nontrivial.add(json.dumps(h))
        if o[:3] != want[:3]:
            failures.append(dict(kind='oracle', history=h, observed=o, required=want,
                                 what='Fragments history: implementation differs from the sparse-array statement'))
    # ---- buffers with OTHER fill bytes (Fragments(fill=...)), many of them in one process, holes of equal sizes: every hole of a
    # buffer reads as that buffer's own fill byte (a sample of the histories above, fills in rotation; statement with that fill byte)
    fills = [0x2e, 0x00, 0xff, 0x2d, 0x2e, 0x20, 0x00]
    fhs = [h for h, o in zip(hs, outcomes) if o[0] == 'ok' and '2e' in o[1]][:: (1 if tier != 'quick' else 7)][:6000]
    fcases = [dict(fill='%02x' % fills[k % len(fills)], history=h) for k, h in enumerate(fhs)]
    fouts = run_impl(os.path.join(VERIF, 'harness', 'impl_frag.py'), {'fills': fcases})
    dist['other_fill_bytes'] = len(fcases)
    for c, o in zip(fcases, fouts):
        want = spec_outcome(c['history'], int(c['fill'], 16))
        if o[:3] != want[:3]:
            failures.append(dict(kind='oracle', sig='fill-byte', history=c['history'], fill=c['fill'], observed=o, required=want,
                                 what=f"Fragments(fill=0x{c['fill']}) after other buffers with other fill bytes were rendered in the same process: the holes do not read as this buffer's fill byte"))
    # ---- a caller that CATCHES the collision and goes on: a rejected insertion leaves the array as it was -- stored bytes, extent and
    # cursor -- so what follows lands where it would have landed without the rejected call (implementation against the statement only)
    chs = []
    for _ in range(1500 if tier == 'quick' else 30000):
        h = []
        for k in range(rng.randint(3, 8)):
            r = rng.random()
            n = rng.choice([1, 1, 2, 3])
            if r < 0.55:
                h.append(['i', rng.randint(0, 10), chunk(k, n, rng.choice([0, 0, 1])).hex()])
            elif r < 0.9:
                h.append(['a', chunk(k, n, rng.choice([0, 0, 1])).hex()])
            else:
                h.append(['c', rng.randint(0, 10)])
        chs.append(h)
    couts = [o for part in run_impl_parallel(os.path.join(VERIF, 'harness', 'impl_frag.py'), [{'histories': p, 'continue': True} for p in shard(chs, 4000)]) for o in part]
    dist['continued_after_collision'] = 0
    for h, o in zip(chs, couts):
        cells, ext, cur, raised = {}, 0, 0, []
        for k, op in enumerate(h):
            if op[0] == 'c':
                cur = op[1]
                continue
            b = bytes.fromhex(op[2] if op[0] == 'i' else op[1])
            p0 = op[1] if op[0] == 'i' else cur
            if any((p0 + j) in cells for j in range(len(b))):
                raised.append(k)
                continue
            for j, x in enumerate(b):
                cells[p0 + j] = x
            ext = max(ext, p0 + len(b))
            cur = p0 + len(b)
        want = ['ok', bytes(cells.get(q, 46) for q in range(ext)).hex(), cur, raised]
        dist['continued_after_collision'] += bool(raised) and raised[-1] < len(h) - 1
        if o != want:
            failures.append(dict(kind='oracle', history=h, observed=o, required=want, sig='continued-after-collision',
                                 what='Fragments history in which the caller catches collisions and goes on: a rejected insertion must leave stored bytes, extent and cursor as they were'))
    # ... and the Coq model on the same continued histories (Proofs/FragContinue.run_ops_c: a rejected operation is skipped)
    HEADER_C = ("From Coq Require Import ZArith List Bool.\nFrom Bisturi Require Import Base.Bytes Kernel.Frag Proofs.FragContinue.\n"
                "Import ListNotations. Open Scope Z_scope.\n"
                "Definition eqb_l (a b : list Z) : bool := (Z.of_nat (length a) =? Z.of_nat (length b)) && forallb (fun p => fst p =? snd p) (combine a b).\n"
                "Definition same_c (ops : list op) (want : bytes * Z * list Z) : bool :=\n"
                "  let '(s, bad) := run_ops_c empty ops 0 in let '(b, c, r) := want in eqb_l (tobytes s) b && (cur s =? c) && eqb_l bad r.\n"
                "Fixpoint bad_c (i : Z) (cs : list (list op * (bytes * Z * list Z))) : list Z :=\n"
                "  match cs with [] => [] | (ops, o) :: r => if same_c ops o then bad_c (i + 1) r else i :: bad_c (i + 1) r end.\n")
    cfiles, cidx = [], []
    okc = [(h, o) for h, o in zip(chs, couts) if o[0] == 'ok']
    for i, part in enumerate(shard(okc, 500)):
        body = ";\n".join(f"([{'; '.join(op_to_coq(op) for op in h)}], ({blit(bytes.fromhex(o[1]))}, {zlit(o[2])}, [{'; '.join(str(x) for x in o[3])}]))" for h, o in part)
        cfiles.append((f"cont_{i}", HEADER_C + f"Definition cases : list (list op * (bytes * Z * list Z)) := [\n{body}\n].\nEval vm_compute in (bad_c 0 cases).\n"))
    cres = coq_eval_files(cfiles)
    cont_dis = []
    for i in range(len(cfiles)):
        for j in parse_coq_list(cres[f"cont_{i}"]):
            h, o = okc[i * 500 + j]
            cont_dis.append(dict(kind='correspondence', history=h, implementation=o,
                                 what='model Proofs/FragContinue.run_ops_c and bisturi.fragments.Fragments differ on this history (collisions caught, the caller goes on)'))
    # ---- Tie B: the Coq model on the same histories
    files = []
    csize = 500
    for i, part in enumerate(shard(list(zip(hs, outcomes)), csize)):
        body = ";\n".join(f"([{'; '.join(op_to_coq(op) for op in h)}], {outcome_to_coq(o)})" for h, o in part)
        files.append((f"cases_{i}", HEADER + f"Definition cases : list (list op * (Z * bytes * Z)) := [\n{body}\n].\n"
                      "Eval vm_compute in (bad 0 cases).\n"))
    res = coq_eval_files(files)
    disagreements = []
    for i in range(len(files)):
        for j in parse_coq_list(res[f"cases_{i}"]):
            idx = i * csize + j
            disagreements.append(dict(kind='correspondence', history=hs[idx], implementation=outcomes[idx],
                                      what='model Kernel/Frag.v and bisturi.fragments.Fragments differ on this history'))
    disagreements += cont_dis
    return dict(evaluations=len(hs) + len(chs), distinct_nontrivial=len(nontrivial), exhaustive_part=nex,
                rule=("all histories of insert(p, chunk)/append(chunk) up to the tier's length bound over a small position and "
                      "chunk-length range (exhaustive), plus random histories of 4..9 insert/append/extend/set-cursor steps over "
                      "positions 0..24; non-trivial = at least two operations; distinct by the full operation list"),
                samples=[dict(history=hs[i], implementation=outcomes[i]) for i in (0, nex // 2, nex - 1, len(hs) - 1)],
                distribution=dist, failures=failures, disagreements=disagreements)


def replay(obj):
    if obj.get('sig') == 'continued-after-collision':
        o = run_impl(os.path.join(VERIF, 'harness', 'impl_frag.py'), {'histories': [obj['history']], 'continue': True})[0]
        return o != obj['required'], dict(observed=o, required=obj['required'])
    o = run_impl(os.path.join(VERIF, 'harness', 'impl_frag.py'), {'histories': [obj['history']]})[0]
    want = spec_outcome(obj['history'])
    return o[:3] != want[:3], dict(observed=o, required=want)
