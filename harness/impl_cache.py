"""Implementation driver for C15 / C16: definitions of same-named packet classes in one directory, with the file
operations of bisturi.codegen interposed FROM THIS PROCESS (nothing in /repo is changed): counting, crashing at the
k-th operation or after n bytes of a write, stepping under an external scheduler, forging time stamps.

usage: impl_cache.py <in.json> <out.json>
in  = {"dir": scratch directory shared by the processes, "mode": "history"|"crash"|"sched",
       "steps": [{"variant": name, "forge_mtime": bool}...], "crash_at": k, "crash_bytes": n|null}
Variants are declarations of a class named P in module m.py (same module and class name => same cache file)."""
import sys, os, json, importlib.util, builtins, time, hashlib

VARIANTS = {
    # same-length generated source: only the byte order character differs
    'A': ("{}", "x = Int(2)\n    y = Int(2)"),
    'B': ("{}", "x = Int(2, endianness='little')\n    y = Int(2, endianness='little')"),
    'A4': ("{}", "x = Int(4)\n    y = Int(4)"),
    # same field lines, same names, same sizes: only the class-wide byte order differs
    'Ale': ("{'endianness': 'little'}", "x = Int(2)\n    y = Int(2)"),
    'Anale': ("{'endianness': 'little', 'annotate': False}", "x = Int(2)\n    y = Int(2)"),
    # different field lists
    'C': ("{}", "x = Int(1)\n    y = Int(4)\n    z = Data(2)"),
    'D': ("{}", "x = Int(2)\n    n = Int(1)\n    d = Data(n)"),
    # changed options
    'Anv': ("{'vectorize': False}", "x = Int(2)\n    y = Int(2)"),
    'Anp': ("{'generate_for_pack': False}", "x = Int(2)\n    y = Int(2)"),
    # one half of the code generated only: two different field lists under the same option
    'Cnp': ("{'generate_for_pack': False}", "x = Int(1)\n    y = Int(4)\n    z = Data(2)"),
    'Anu': ("{'generate_for_unpack': False}", "x = Int(2)\n    y = Int(2)"),
    'Cnu': ("{'generate_for_unpack': False}", "x = Int(1)\n    y = Int(4)\n    z = Data(2)"),
    'Aoff': ("{'generate_for_pack': False, 'generate_for_unpack': False}", "x = Int(2)\n    y = Int(2)"),
    'Ana': ("{'annotate': False}", "x = Int(2)\n    y = Int(2)"),
    # same field lines, names, sizes and options: only the descriptor of the described field (and so its hooks) differs
    'Dal': ("{}", "length = Int(1).describe(AutoLength('a'))\n    a = Data(length)", "from bisturi.descriptor import AutoLength\n"),
    'Dfx': ("{}", "length = Int(1).describe(AutoLength('a'))\n    a = Data(length)",
            "class AutoLength(object):\n    def __init__(self, name):\n        pass\n    def __get__(self, inst, owner):\n        return self if inst is None else 0\n"
            "    def __set__(self, inst, v):\n        pass\n"),
}
RAW = bytes([1, 2, 3, 4, 2, 65, 66, 7, 8])
LONG = bytes((i * 7 + 1) & 0xff for i in range(400))
FORGED = 1_600_000_000


def vdef(variant):
    """(conf, body, prelude) of a named variant or of a declaration given in full ('custom:' + JSON {conf, body})"""
    if variant.startswith('custom:'):
        d = json.loads(variant[7:])
        return d.get('conf', '{}'), d['body'], d.get('prelude', '')
    v = VARIANTS[variant]
    return v[0], v[1], (v[2] if len(v) > 2 else '')


def source(variant, clsname='P'):
    conf, body, prelude = vdef(variant)
    return ("from bisturi.packet import Packet\nfrom bisturi.field import Int, Data\n" + prelude +
            f"class {clsname}(Packet):\n    __bisturi__ = {conf}\n    {body}\n")


def behaviour(cls):
    """what the class does on a fixed input: parsed values, end offset, re-packed bytes, default pack"""
    out = {}
    try:
        p = cls(_initialize_fields=False)
        end = p.unpack_impl(RAW, 0, root=p)
        out['values'] = [[n, repr(getattr(p, n))] for n, _, _, _ in cls.get_fields()]
        out['end'] = end
        out['packed'] = p.pack().hex()
        out['default'] = cls().pack().hex()
        if any(n == 'a' for n, _, _, _ in cls.get_fields()):
            out['built'] = cls(a=b'abc').pack().hex()
    except Exception as e:
        out['exc'] = type(e).__name__           # (the text names the class: P here, R for the cache-free twin)
        # a declaration too long for RAW: the same observations on a long input
        try:
            p = cls(_initialize_fields=False)
            out['long_end'] = p.unpack_impl(LONG, 0, root=p)
            out['long_values'] = [[n, repr(getattr(p, n))] for n, _, _, _ in cls.get_fields()]
            out['long_packed'] = p.pack().hex()
            out['long_default'] = cls().pack().hex()
        except Exception as e2:
            out['long_exc'] = type(e2).__name__
    return out


class Gate:
    def __init__(self, cfg):
        self.cfg = cfg
        self.count = 0
        self.log = []

    def __call__(self, name):
        self.count += 1
        self.log.append(name)
        if self.cfg.get('mode') == 'crash' and self.count == self.cfg.get('crash_at') and self.cfg.get('crash_bytes') is None:
            os._exit(77)
        if self.cfg.get('mode') == 'sched':
            sys.stdout.write("AT %d %s\n" % (self.count, name)); sys.stdout.flush()
            tok = sys.stdin.readline()
            if tok.startswith('DIE'):
                os._exit(77)


def install(gate, cfg):
    import bisturi.codegen as cg
    real_os = os

    class PathProxy:
        def __getattr__(self, n):
            f = getattr(real_os.path, n)
            if n == 'exists':
                def w(*a, **k):
                    gate('exists')
                    return f(*a, **k)
                return w
            return f

    class OsProxy:
        path = PathProxy()

        def __getattr__(self, n):
            f = getattr(real_os, n)
            if n == 'getpid' and cfg.get('fixed_pid') is not None:
                return lambda: cfg['fixed_pid']        # "the pid of an earlier (crashed) writer is given to this process"
            if n in ('remove', 'makedirs', 'replace'):
                def w(*a, **k):
                    gate(n)
                    r = f(*a, **k)
                    if n == 'replace' and cfg.get('forge_next'):
                        real_os.utime(a[1], (FORGED, FORGED))
                    return r
                return w
            return f

    class FileProxy:
        def __init__(self, f):
            self.f = f

        def write(self, data):
            gate('write')
            if cfg.get('mode') == 'crash' and gate.count == cfg.get('crash_at') and cfg.get('crash_bytes') is not None:
                self.f.write(data[:cfg['crash_bytes']]); self.f.flush()
                os._exit(77)
            return self.f.write(data)

        def __enter__(self):
            return self

        def __exit__(self, *a):
            gate('close')
            self.f.close()

        def __getattr__(self, n):
            return getattr(self.f, n)

    def open_proxy(*a, **k):
        gate('open')
        return FileProxy(builtins.open(*a, **k))

    # (the loader is a name the code generator imports; when it loads modules some other way the 'load' events are simply not
    # in the trace, which the checks are told: cfg['loader_proxied'])
    RealLoader = getattr(cg, 'SourceFileLoader', None)
    cfg['loader_proxied'] = RealLoader is not None

    class LoaderProxy:
        def __init__(self, *a, **k):
            self.l = RealLoader(*a, **k)

        def load_module(self, *a, **k):
            gate('load')
            return self.l.load_module(*a, **k)
    # every process defines its class from its OWN source file (two processes rewriting one m.py would race in the
    # harness, not in bisturi); the code generator is told that the class lives in <dir>/m.py, so that all of them
    # share the cache file __pkts__/m_P.py exactly as same-named classes of one module do
    real_inspect = cg.inspect

    class InspectProxy:
        def __getattr__(self, n):
            if n == 'getfile':
                return lambda cls: real_os.path.join(cfg['dir'], 'm.py')
            return getattr(real_inspect, n)
    cg.inspect = InspectProxy()
    cg.os = OsProxy()
    cg.open = open_proxy
    if RealLoader is not None:
        cg.SourceFileLoader = LoaderProxy


def define(d, variant, k):
    """(re)write m.py with the variant's declaration and import it afresh: this runs the metaclass and the cache protocol"""
    path = os.path.join(d, 'm_%d_%d.py' % (os.getpid(), k))
    with builtins.open(path, 'w', encoding='utf-8') as f:
        f.write(source(variant))
    spec = importlib.util.spec_from_file_location('m', path)
    mod = importlib.util.module_from_spec(spec)
    sys.modules['m'] = mod
    spec.loader.exec_module(mod)
    return mod.P


def reference(d, variant, k):
    """the same declaration under another class and module name, with code generation off: no cache involved"""
    conf, body, prelude = vdef(variant)
    tag = hashlib.sha1(variant.encode()).hexdigest()[:10]
    path = os.path.join(d, 'ref_%s_%d.py' % (tag, os.getpid()))
    with builtins.open(path, 'w', encoding='utf-8') as f:
        f.write("from bisturi.packet import Packet\nfrom bisturi.field import Int, Data\n" + prelude +
                f"class R(Packet):\n    __bisturi__ = dict({conf}, generate_for_pack=False, generate_for_unpack=False)\n    {body}\n")
    spec = importlib.util.spec_from_file_location('ref_%s' % tag, path)
    mod = importlib.util.module_from_spec(spec)
    spec.loader.exec_module(mod)
    return mod.R


def cache_state(d):
    p = os.path.join(d, '__pkts__', 'm_P.py')
    try:
        data = builtins.open(p, 'rb').read()
        st = os.stat(p)
        return [hashlib.sha1(data).hexdigest()[:12], len(data), int(st.st_mtime)]
    except FileNotFoundError:
        return None


def main():
    cfg = json.load(builtins.open(sys.argv[1]))
    d = cfg['dir']
    sys.path.insert(0, d)
    gate = Gate(cfg)
    install(gate, cfg)
    if cfg.get('mode') == 'cookies':
        # survey: define each declaration in turn (same class, same module: each rewrites the cache file) and report the value the
        # generated module carries in its *COOKIE* constant together with a digest of the rest of the module
        import re as _re
        res = []
        for k, variant in enumerate(cfg['variants']):
            try:
                define(d, variant, k)
                text = builtins.open(os.path.join(d, '__pkts__', 'm_P.py'), encoding='utf-8', errors='replace').read()
                m = _re.search(r"(?m)^(\w*COOKIE\w*) = '([^']*)'\s*$", text)
                res.append([m.group(2) if m else None, hashlib.sha1(_re.sub(r"(?m)^\w*COOKIE\w* = '[^']*'\s*$", '', text).encode()).hexdigest()])
            except BaseException as e:
                res.append([None, 'EXC:' + type(e).__name__])
        json.dump({'cookies': res}, builtins.open(sys.argv[2], 'w'), default=lambda o: {'object': type(o).__name__})
        return
    out = {'steps': [], 'loader_proxied': cfg.get('loader_proxied', True)}
    alive = []          # every class this process defined so far stays alive: it must go on behaving per its OWN declaration
    for k, step in enumerate(cfg['steps']):
        cfg['forge_next'] = step.get('forge_mtime')
        if step.get('drop_source'):
            # somebody cleaned __pkts__/*.py but not __pkts__/__pycache__: the cached source goes, its bytecode stays (optionally
            # recompiled as an unchecked-hash .pyc, which the interpreter uses without looking at the source at all)
            src_p = os.path.join(d, '__pkts__', 'm_P.py')
            if os.path.exists(src_p):
                if step['drop_source'] == 'unchecked':
                    import py_compile
                    from importlib.util import cache_from_source
                    py_compile.compile(src_p, cfile=cache_from_source(src_p), doraise=True, invalidation_mode=py_compile.PycInvalidationMode.UNCHECKED_HASH)
                os.remove(src_p)
        before = cache_state(d)
        n0 = len(gate.log)
        rec = {'variant': step['variant'], 'before': before}
        try:
            cls = define(d, step['variant'], k)
            rec['defined'] = True
            rec['behaviour'] = behaviour(cls)
            rec['reference'] = behaviour(reference(d, step['variant'], k))
            rec['generated'] = [cls.pack_impl.__module__ != 'bisturi.packet', cls.unpack_impl.__module__ != 'bisturi.packet']
            rec['earlier'] = [[v0, behaviour(c0) == r0] for c0, v0, r0 in alive]
            alive.append((cls, step['variant'], rec['reference']))
        except BaseException as e:
            rec['defined'] = False
            rec['exc'] = type(e).__name__ + ': ' + str(e)[:200]
        rec['after'] = cache_state(d)
        rec['ops'] = gate.log[n0:]
        rec['noload'] = not cfg.get('loader_proxied', True)
        out['steps'].append(rec)
    json.dump(out, builtins.open(sys.argv[2], 'w'), default=lambda o: {'object': type(o).__name__})
    if cfg.get('mode') == 'sched':
        sys.stdout.write("DONE\n"); sys.stdout.flush()


if __name__ == '__main__':
    main()
