"""Shared machinery of the checks: environment, Coq build (Tie A + theorems), evaluation of the model on
generated cases (Tie B), running the implementation, evidence, known findings, verdict."""
import os, sys, json, time, subprocess, tempfile, shutil, fcntl, re, hashlib, random

VERIF = os.path.dirname(os.path.dirname(os.path.abspath(__file__)))
REPO = os.environ.get('BISTURI_REPO', '/repo')
COQ = os.path.join(VERIF, 'coq')
PY = '/venv/bin/python' if os.path.exists('/venv/bin/python') else sys.executable
NPROC = int(os.environ.get('VERIF_JOBS', '16'))
sys.path.insert(0, os.path.join(VERIF, 'harness'))

TRUSTED_BASE = [
    "Coq 8.16.1 kernel and vm_compute (no native_compute); stdlib only (ZArith, List, Bool, Lia, String); "
    "Print Assumptions of every property theorem: Closed under the global context (no axioms)",
    "harness/pygen.py: translator of the python kernels to Gallina (Tie A), incl. its reading of python integer "
    "semantics (//, % as floor division for a non-zero divisor; % by zero raises)",
    "harness correspondence (Tie B): case generators, python->Gallina renderers, canonicalisation, comparison",
    "CPython itself (struct, int.from_bytes/to_bytes, slicing, bytes.find, re, bisect, dict, descriptors, import "
    "system, os.replace) is modelled, not verified",
]


def impl_env(extra=None):
    env = dict(os.environ)
    env['PYTHONPATH'] = REPO
    if os.environ.get('BVERIF_COV_DIR'):      # diagnosis: line coverage of bisturi under the drivers (harness/covsite)
        env['PYTHONPATH'] = os.path.join(VERIF, 'harness', 'covsite') + os.pathsep + REPO
        env['BVERIF_COV_DIR'] = os.environ['BVERIF_COV_DIR']
    env['PYTHONHASHSEED'] = '0'
    env['PYTHONDONTWRITEBYTECODE'] = '1'
    env['BISTURI_VERIF'] = '1'
    env.pop('PYTHONSTARTUP', None)
    if extra:
        env.update(extra)
    return env


class Scratch:
    """scratch directory outside /repo and /verif, removed afterwards"""
    def __init__(self, tag):
        self.tag = tag

    def __enter__(self):
        self.path = tempfile.mkdtemp(prefix=f'bverif_{self.tag}_')
        return self.path

    def __exit__(self, *a):
        if os.environ.get('BVERIF_KEEP') == '1':       # diagnosis only
            sys.stderr.write(f"kept {self.path}\n")
            return
        shutil.rmtree(self.path, ignore_errors=True)


# ------------------------------------------------------------------ Coq build
def _lock():
    os.makedirs(os.path.join(VERIF, 'build'), exist_ok=True)
    f = open(os.path.join(VERIF, 'build', 'coq.lock'), 'w')
    fcntl.flock(f, fcntl.LOCK_EX)
    return f


def coq_sources():
    out = []
    for d in ('Base', 'Kernel', 'Gen', 'Bridge', 'Model', 'Proofs', 'Properties'):
        p = os.path.join(COQ, d)
        if os.path.isdir(p):
            out += sorted(os.path.join(d, f) for f in os.listdir(p) if f.endswith('.v'))
    return out


def ensure_makefile():
    srcs = coq_sources()
    proj = "-Q . Bisturi\n-arg -w -arg -deprecated-hint-rewrite-without-locality,-deprecated-instance-without-locality,-notation-overridden\n" + "\n".join(srcs) + "\n"
    import pygen
    changed = pygen.write_if_changed(os.path.join(COQ, '_CoqProject'), proj)
    if changed or not os.path.exists(os.path.join(COQ, 'Makefile')):
        subprocess.run(['coq_makefile', '-f', '_CoqProject', '-o', 'Makefile'], cwd=COQ, check=True,
                       stdout=subprocess.DEVNULL, stderr=subprocess.DEVNULL)


def regen_and_build(targets, kernels=None, timeout=1500):
    """Tie A: regenerate Gen/*.v from /repo, then (re)build the given .vo targets (and what they depend on).
    Returns dict(ok, gen_report, failed_files, log_tail, wall_s)."""
    import pygen
    t0 = time.time()
    lock = _lock()
    try:
        gen = pygen.generate(None)
        ensure_makefile()
        cmd = ['make', '-k', '-j', str(NPROC)] + list(targets)
        p = subprocess.run(['timeout', str(timeout)] + cmd, cwd=COQ, stdout=subprocess.PIPE,
                           stderr=subprocess.STDOUT, text=True)
        log = p.stdout
    finally:
        lock.close()
    failed = sorted(set(re.findall(r'File "\./([^"]+\.v)", line', log)) |
                    set(re.findall(r"\*\*\* \[[^:\]]*?([A-Za-z]+/[A-Za-z0-9_]+)\.vo\] Error", log)))
    failed = sorted(set(f if f.endswith('.v') else f + '.v' for f in failed))
    missing = [t for t in targets if not os.path.exists(os.path.join(COQ, t))]
    ok = p.returncode == 0 and not missing
    return dict(ok=ok, gen=gen, failed_files=failed, missing=missing, log_tail=log[-3000:], wall_s=time.time() - t0)


def print_assumptions(prop_file):
    """Re-run coqc on Properties/<prop>.v (cheap) and parse the Print Assumptions output.
    Returns (theorems:list of (name, closed:bool, text), raw)."""
    lock = _lock()
    try:
        p = subprocess.run(['timeout', '600', 'coqc', '-Q', '.', 'Bisturi', prop_file], cwd=COQ,
                           stdout=subprocess.PIPE, stderr=subprocess.STDOUT, text=True)
    finally:
        lock.close()
    src = open(os.path.join(COQ, prop_file)).read()
    names = re.findall(r'Print Assumptions\s+([A-Za-z0-9_\.\']+)\s*\.', src)
    blocks = re.split(r'(?m)^(?=Closed under the global context|Axioms:|Section Variables:)', p.stdout)
    blocks = [b for b in blocks if b.startswith(('Closed', 'Axioms', 'Section'))]
    res = []
    for i, n in enumerate(names):
        b = blocks[i] if i < len(blocks) else 'MISSING'
        res.append((n, b.startswith('Closed under the global context'), b.strip()[:400]))
    return res, p.stdout, p.returncode


# ------------------------------------------------------------------ model evaluation (Tie B)
def coq_eval_files(files, timeout=900):
    """files: list of (name, text). Each is compiled with coqc in a scratch dir, in parallel.
    Returns {name: stdout} ; raises RuntimeError(name, output) if a file does not compile."""
    out = {}
    with Scratch('coq') as d:
        procs = []
        t0 = time.time()
        pending = list(files)
        running = []
        results = {}

        def start(name, text):
            path = os.path.join(d, name + '.v')
            open(path, 'w').write(text)
            return subprocess.Popen(['bash', '-c', 'ulimit -s unlimited 2>/dev/null; exec timeout %d coqc -Q %s Bisturi -w -all %s'
                                     % (timeout, COQ, path)],
                                    cwd=d, stdout=subprocess.PIPE, stderr=subprocess.STDOUT, text=True)
        while pending or running:
            while pending and len(running) < NPROC:
                name, text = pending.pop(0)
                running.append((name, start(name, text)))
            name, pr = running.pop(0)
            o, _ = pr.communicate()
            if os.environ.get('BVERIF_TIMING') == '1':
                sys.stderr.write(f"coq file {name}: done at +{time.time() - t0:.1f}s\n")
            if pr.returncode != 0:
                for _, q in running:
                    q.kill()
                raise RuntimeError(f"model evaluation file {name}.v failed:\n{o[-2000:]}")
            results[name] = o
        return results


def parse_coq_list(out):
    """Parse the result of `Eval vm_compute in (l : list Z)` -> python list of ints (handles line wraps)."""
    m = re.search(r'=\s*(\[.*?\]|nil)\s*:\s*list', out, re.S)
    if not m:
        raise RuntimeError('cannot parse coq output: ' + out[:500])
    body = m.group(1)
    if body == 'nil':
        return []
    body = body.strip()[1:-1]
    return [int(x.replace('%Z', '').replace('(', '').replace(')', '')) for x in body.split(';') if x.strip()]


def zlit(n):
    return f"({n})" if n < 0 else str(n)


def blit(b):
    """python bytes -> Gallina list Z"""
    return '[' + ';'.join(str(x) for x in b) + ']'


def shard(seq, n):
    return [seq[i:i + n] for i in range(0, len(seq), n)]


# ------------------------------------------------------------------ running the implementation
def run_impl(script_path, payload, timeout=900, extra_env=None, cwd=None):
    """Run a harness/impl_*.py driver under the repo's interpreter with PYTHONPATH=/repo; JSON in/out."""
    with Scratch('io') as d:
        inp = os.path.join(d, 'in.json')
        outp = os.path.join(d, 'out.json')
        json.dump(payload, open(inp, 'w'))
        p = subprocess.run(['timeout', str(timeout), PY, script_path, inp, outp], env=impl_env(extra_env),
                           cwd=cwd or d, stdout=subprocess.PIPE, stderr=subprocess.STDOUT, text=True)
        if p.returncode != 0 or not os.path.exists(outp):
            e = ImplCrash(p.stdout[-3000:])
            e.script, e.payload = script_path, payload
            raise e
        return json.load(open(outp))


class ImplCrash(Exception):
    script, payload = None, None

    def inside_implementation(self):
        """True when the innermost frame of the driver's traceback is a file of the bisturi package itself: the exception was
        raised by the implementation (e.g. while a class was being declared), not by the driver stumbling over a renamed API."""
        files = re.findall(r'File "([^"]+)", line \d+', str(self))
        return bool(files) and '/bisturi/' in files[-1] and '/harness/' not in files[-1]


def run_impl_parallel(script_path, payloads, **kw):
    from concurrent.futures import ThreadPoolExecutor
    with ThreadPoolExecutor(max_workers=NPROC) as ex:
        return list(ex.map(lambda pl: run_impl(script_path, pl, **kw), payloads))


# ------------------------------------------------------------------ known findings, evidence, verdict
def known_findings(pid):
    path = os.path.join(VERIF, 'known_findings.json')
    try:
        data = json.load(open(path))
    except FileNotFoundError:
        return []
    return [e for e in data.get('findings', []) if e['property'] == pid and e.get('status') == 'known']


def write_replay(pid, obj):
    d = os.path.join(VERIF, 'replays')
    os.makedirs(d, exist_ok=True)
    h = hashlib.sha1(json.dumps(obj, sort_keys=True, default=str).encode()).hexdigest()[:10]
    path = os.path.join(d, f'{pid}_{h}.json')
    json.dump(obj, open(path, 'w'), indent=1, default=str)
    return path


def write_evidence(pid, tier, seed, coverage, wall_s, violations, assumptions):
    os.makedirs(os.path.join(VERIF, 'evidence'), exist_ok=True)
    ev = dict(property_id=pid, tier=tier, seed=seed, level='proof', coverage=coverage,
              assumptions=assumptions, wall_s=round(wall_s, 2), violations=violations)
    path = os.path.join(VERIF, 'evidence', pid + '.json')
    tmp = path + '.tmp%d' % os.getpid()
    json.dump(ev, open(tmp, 'w'), indent=1, default=str)
    os.replace(tmp, path)
    return path
