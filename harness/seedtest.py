#!/usr/bin/env python3
"""Apply a seeded change, run the pinned suite, its demonstration and the given checks, undo the change.
usage: seedtest.py <seed dir with patch.diff demo.py> <property> [more properties...]   (prints a JSON summary)

A scratch git worktree of /repo is made under /tmp, the change applied there and the checks pointed at it through BISTURI_REPO, so
/repo stays untouched (other runs may be using it); the worktree is removed afterwards.  With SEED_INPLACE=1 the change is applied to
/repo itself instead (git apply / git checkout -- .)."""
import sys, os, subprocess, json, re
d = os.path.abspath(sys.argv[1])
props = sys.argv[2:]
COPY = os.environ.get('SEED_INPLACE') != '1'      # default: never touch /repo itself (a `vp run` or another check may be using it)
tree = '/tmp/seedrepo_%d' % os.getpid() if COPY else '/repo'
env = dict(os.environ, PYTHONPATH=tree, PYTHONHASHSEED='0', BISTURI_REPO=tree)
def sh(cmd, **kw):
    return subprocess.run(cmd, shell=True, stdout=subprocess.PIPE, stderr=subprocess.STDOUT, text=True, env=env, **kw)
out = {}
assert sh('git -C /repo status --porcelain').stdout.strip() == '', 'repo not clean'
if COPY:
    a = sh(f'git -C /repo worktree add --detach {tree} HEAD')
    assert a.returncode == 0, a.stdout
saved = {p: open(f'/verif/evidence/{p}.json').read() for p in props if os.path.exists(f'/verif/evidence/{p}.json')}
try:
    out['demo_clean'] = sh(f'/venv/bin/python {d}/demo.py', cwd='/tmp').returncode
    a = sh(f'git -C {tree} apply {d}/patch.diff')
    assert a.returncode == 0, a.stdout
    t = sh(f'cd {tree} && /venv/bin/python -m pytest -q -p no:cacheprovider tests')
    out['tests'] = t.stdout.strip().split('\n')[-1]
    out['demo_mutated'] = sh(f'/venv/bin/python {d}/demo.py', cwd='/tmp').returncode
    out['checks'] = {}
    for p in props:
        r = sh(f'cd /verif && python3 check.py {p} --tier quick')
        lines = [l for l in r.stdout.split('\n') if l.startswith(('VIOLATION', 'KNOWN-FINDING', '['))]
        out['checks'][p] = dict(exit=r.returncode, lines=[l[:300] for l in lines])
finally:
    if COPY:
        sh(f'git -C /repo worktree remove --force {tree}; rm -rf {tree}; git -C /repo worktree prune')
    else:
        sh('git -C /repo checkout -- . && git -C /repo clean -fdq bisturi tests')
    for p, text in saved.items():      # evidence describes the unchanged tree only
        open(f'/verif/evidence/{p}.json', 'w').write(text)
print(json.dumps(out, indent=1))
