#!/usr/bin/env python3
"""Apply a seeded change to /repo, run the pinned suite, its demonstration and the given checks, undo the change.
usage: seedtest.py <seed dir with patch.diff demo.py> <property> [more properties...]   (prints a JSON summary)"""
import sys, os, subprocess, json, re
d = sys.argv[1]
props = sys.argv[2:]
env = dict(os.environ, PYTHONPATH='/repo', PYTHONHASHSEED='0')
def sh(cmd, **kw):
    return subprocess.run(cmd, shell=True, stdout=subprocess.PIPE, stderr=subprocess.STDOUT, text=True, env=env, **kw)
out = {}
assert sh('git -C /repo status --porcelain').stdout.strip() == '', 'repo not clean'
out['demo_clean'] = sh(f'/venv/bin/python {d}/demo.py', cwd='/tmp').returncode
saved = {p: open(f'/verif/evidence/{p}.json').read() for p in props if os.path.exists(f'/verif/evidence/{p}.json')}
a = sh(f'git -C /repo apply {d}/patch.diff')
assert a.returncode == 0, a.stdout
try:
    t = sh('cd /repo && /venv/bin/python -m pytest -q -p no:cacheprovider tests')
    out['tests'] = t.stdout.strip().split('\n')[-1]
    out['demo_mutated'] = sh(f'/venv/bin/python {d}/demo.py', cwd='/tmp').returncode
    out['checks'] = {}
    for p in props:
        r = sh(f'cd /verif && python3 check.py {p} --tier quick')
        lines = [l for l in r.stdout.split('\n') if l.startswith(('VIOLATION', 'KNOWN-FINDING', '['))]
        out['checks'][p] = dict(exit=r.returncode, lines=[l[:300] for l in lines])
finally:
    sh('git -C /repo checkout -- . && git -C /repo clean -fdq bisturi tests')
    for p, text in saved.items():      # evidence describes the unchanged tree only
        open(f'/verif/evidence/{p}.json', 'w').write(text)
print(json.dumps(out, indent=1))
