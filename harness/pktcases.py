"""Whole-packet correspondence (Tie B for the Model/ files): groups of (class table, operations) are run on the
implementation (harness/impl_pkt.py, one process per shard) and on the Coq model (one cases file per shard,
vm_compute), outcomes compared inside Coq with Model/Canon.v `agrees`."""
import os, sys, json
from common import *
import decl, gen

COQ_HEADER = """From Coq Require Import ZArith List Bool.
From Bisturi Require Import Base.Bytes Kernel.IntCodec Kernel.Align Kernel.DataK Model.Value Model.Decl Model.Unpack Model.Pack Model.Init Model.Canon.
Import ListNotations. Open Scope Z_scope.
"""


def jvalue(v):
    """generator value -> JSON value for impl_pkt.build"""
    if isinstance(v, bytes):
        return {"x": v.hex()}
    if isinstance(v, tuple) and v[0] == 'pkt':
        return {"p": decl.cname(v[1]), "f": [[f"f{i}", jvalue(x)] for i, x in sorted(v[2].items())]}
    if isinstance(v, list):
        return [jvalue(x) for x in v]
    return v


def _isint(x):
    return isinstance(x, int) and not isinstance(x, bool)


def malformed(o):
    """an outcome no correct implementation reports (whatever the declaration): an end offset or an error-stack offset that is not an integer"""
    if not isinstance(o, dict):
        return None
    if 'ok' in o and 'end' in o and not _isint(o['end']):
        return f"a successful unpack reports the end offset {o['end']!r}"
    if 'err' in o and any(not _isint(e[0]) for e in o.get('stack', [])):
        return f"a PacketError carries the offsets {[e[0] for e in o['stack']]}"
    return malformed(o.get('packed')) if isinstance(o.get('packed'), dict) else None


def cq_outcome(o):
    """implementation outcome (impl_pkt) -> Gallina outcome"""
    if 'derived' in o:
        raise ValueError
    if malformed(o):
        return "OOther"        # never agrees with the model
    if 'err' in o:
        return f"(OErr {'true' if o['err'] == 'unpacking' else 'false'} {decl.cq_stack(o['stack'])})"
    if 'exc' in o:
        return "OOther"
    if 'packed' in o:
        return f"(ORoundTrip {decl.cq_canon(o['ok'])} {decl.z(o['end'])} {cq_outcome(o['packed'])})"
    if isinstance(o.get('ok'), str):
        return f"(OBytes {decl.cq_bytes(bytes.fromhex(o['ok']))})"
    return f"(OVal {decl.cq_canon(o['ok'])} {('(Some ' + decl.z(o['end']) + ')') if 'end' in o else 'None'})"


def cq_blocks(bl, o):
    """generated-module block structure (impl_pkt.generated_blocks) -> Gallina option (list bdesc)"""
    if 'ok' not in o:
        return "(Some [DLoop (FN (-7))])"          # could not be read back: never agrees
    if bl is None:
        return "None"
    out = []
    for b in bl:
        if b[0] == 'S':
            if not b[5] or (b[3] is not None and b[3] != sum(m[2] for m in b[2])):
                out.append("DLoop (FN (-8))")       # malformed struct block (format / advance inconsistent)
                continue
            ms = "; ".join(f"({decl.parse_fname(m[0])[3:]}, {'true' if m[1] else 'false'}, {m[2]}, {'true' if m[3] else 'false'})" for m in b[2])
            out.append(f"DStruct {'true' if b[1] else 'false'} [{ms}]")
        elif b[0] == 'L':
            out.append(f"DLoop ({decl.parse_fname(b[1])})")
        else:
            out.append("DLoop (FN (-9))")
    return "(Some [" + "; ".join(out) + "])"


class Group:
    """one class table and the operations to run on it"""
    def __init__(self, table, gid):
        self.table = table
        self.gid = gid
        self.ops = []       # impl cases (dicts for impl_pkt), each with a private key '_k' describing the kind
        self.nomodel = False  # True: the declarations are outside the modelled language: implementation-only (oracle) group
        self.local = False    # True: every class is declared inside a function (not reachable by name: prototypes of such
                              # classes cannot be pickled and are cloned from the live object instead)

    def blocks(self):
        if self.local:
            out = []
            for c, pc in sorted(self.table.items()):
                n = decl.cname(c)
                body = "".join("    " + l + "\n" for l in decl.py_class(c, pc).rstrip("\n").split("\n"))
                out.append(dict(name=n, src=f"def _mk_{n}():\n{body}    return {n}\n{n} = _mk_{n}()\n"))
            return out
        return [dict(name=decl.cname(c), src=decl.py_class(c, pc)) for c, pc in sorted(self.table.items())]

    def add_derive(self, c, value, seed, offsets=(), maxcuts=16, flips=3, record=False, cut_with_prefix=False):
        self.ops.append(dict(cls=decl.cname(c), op='derive', value=jvalue(value), seed=seed, offsets=list(offsets),
                             maxcuts=maxcuts, flips=flips, record=record, cut_with_prefix=cut_with_prefix, _value=value, _c=c))

    def add_unpack(self, c, raw, offset=0, record=False):
        self.ops.append(dict(cls=decl.cname(c), op='roundtrip', raw=raw.hex(), offset=offset, record=record, _c=c))

    def add_repack(self, c, raw, offset, sets):
        """unpack raw, assign the fields in `sets` ({index: value}), pack"""
        self.ops.append(dict(cls=decl.cname(c), op='repack', raw=raw.hex(), offset=offset,
                             set=[[f"f{i}", jvalue(v)] for i, v in sorted(sets.items())], _sets=sets, _c=c))

    def add_eq(self, c, a, b):
        self.ops.append(dict(cls=decl.cname(c), op='eqvals', a=jvalue(a), b=jvalue(b), _a=a, _b=b, _c=c))

    def add_blocks(self, c):
        self.ops.append(dict(cls=decl.cname(c), op='blocks', _c=c))

    def add_extra(self, c, op):
        """an implementation-only operation (not compared with the model): api / eq"""
        op = dict(op)
        op.update(cls=decl.cname(c), _c=c, _extra=True)
        self.ops.append(op)

    def add_pack(self, c, value):
        self.ops.append(dict(cls=decl.cname(c), op='pack', value=jvalue(value), _value=value, _c=c))

    def add_default(self, c, kw, tag=None):
        v = ('pkt', c, kw)
        self.ops.append(dict(cls=decl.cname(c), op='default', value=jvalue(v), _value=v, _c=c, _tag=tag))


def run_groups(groups, tag='g'):
    """Runs every group on implementation and model.  Returns (records, disagreements, stats):
    records = flat list of dict(group, kind, c, raw/offset/value, outcome) -- one per model-comparable case."""
    host = sys.byteorder == 'big'
    shards = shard(groups, max(1, (len(groups) + NPROC * 2 - 1) // (NPROC * 2)))
    payloads = []
    for sh in shards:
        payloads.append(dict(groups=[dict(header=decl.HEADER_PY, blocks=g.blocks(), modname=f"{tag}{g.gid}",
                                          cases=[{k: v for k, v in op.items() if not k.startswith('_')} for op in g.ops])
                                     for g in sh]))
    results = run_impl_parallel(os.path.join(VERIF, 'harness', 'impl_pkt_groups.py'), payloads)
    records, files = [], []
    for si, (sh, res) in enumerate(zip(shards, results)):
        text = [COQ_HEADER]
        calls = []
        for g, gres in zip(sh, res['groups']):
            lines = []
            base = len(records)
            for c in sorted(g.table):
                ok = gres['defs'].get(decl.cname(c)) == 'ok'
                records.append(dict(group=g.gid, kind='defined', c=c, outcome=gres['defs'].get(decl.cname(c))))
                lines.append(f"CDefined {c} {'true' if ok else 'false'}")
            if g.nomodel:
                lines = []
            for op, o in zip(g.ops, gres['outcomes']):
                c = op['_c']
                if g.nomodel and op['op'] in ('derive', 'roundtrip'):
                    if op['op'] == 'derive':
                        for d in o.get('derived', []):
                            records.append(dict(group=g.gid, kind='roundtrip', c=c, raw=bytes.fromhex(d['raw']), offset=d['offset'],
                                                outcome=d['outcome'], variant=d.get('variant'), source=id(op),
                                                source_value=op['_value'], source_raw=bytes.fromhex(o['packed']['ok'])))
                    else:
                        records.append(dict(group=g.gid, kind='roundtrip', c=c, raw=bytes.fromhex(op['raw']), offset=op['offset'], outcome=o))
                    continue
                if op['op'] == 'derive':
                    po = o['packed'] if 'derived' in o else o
                    records.append(dict(group=g.gid, kind='pack', c=c, value=op['_value'], outcome=po))
                    lines.append(f"CPack {decl.cq_value(op['_value'])} {cq_outcome(po)}")
                    for d in o.get('derived', []):
                        raw = bytes.fromhex(d['raw'])
                        records.append(dict(group=g.gid, kind='roundtrip', c=c, raw=raw, offset=d['offset'], outcome=d['outcome'],
                                            variant=d.get('variant'), source=id(op),
                                            source_value=op['_value'], source_raw=bytes.fromhex(o['packed']['ok'])))
                        lines.append(f"CRound {c} {decl.cq_bytes(raw)} {d['offset']} {cq_outcome(d['outcome'])}")
                elif op['op'] == 'repack':
                    raw = bytes.fromhex(op['raw'])
                    records.append(dict(group=g.gid, kind='repack', c=c, raw=raw, offset=op['offset'], sets=op['_sets'], outcome=o))
                    lines.append(f"CRepack {c} {decl.cq_bytes(raw)} {op['offset']} {decl.cq_slots(op['_sets'])} {cq_outcome(o)}")
                elif op['op'] == 'eqvals':
                    records.append(dict(group=g.gid, kind='eq', c=c, a=op['_a'], b=op['_b'], outcome=o))
                    if 'ok' in o:
                        lines.append(f"CEq {decl.cq_value(op['_a'])} {decl.cq_value(op['_b'])} {'true' if o['ok'][0] else 'false'} {'true' if o['ok'][1] else 'false'}")
                    else:
                        lines.append("CDefined (-1) true")      # an exception: never agrees with the model
                elif op['op'] == 'blocks':
                    records.append(dict(group=g.gid, kind='blocks', c=c, outcome=o))
                    lines.append(f"CBlocks {c} {cq_blocks(o.get('ok', {}).get('unpack'), o)} {cq_blocks(o.get('ok', {}).get('pack'), o)}")
                elif op.get('_extra'):
                    records.append(dict(group=g.gid, kind='extra:' + op['op'], c=c, op={k: v for k, v in op.items() if not k.startswith('_')},
                                        outcome=o, nomodel=True))
                    lines.append(None)
                elif op['op'] == 'roundtrip':
                    raw = bytes.fromhex(op['raw'])
                    records.append(dict(group=g.gid, kind='roundtrip', c=c, raw=raw, offset=op['offset'], outcome=o))
                    lines.append(f"CRound {c} {decl.cq_bytes(raw)} {op['offset']} {cq_outcome(o)}")
                elif op['op'] == 'pack':
                    records.append(dict(group=g.gid, kind='pack', c=c, value=op['_value'], outcome=o))
                    lines.append(f"CPack {decl.cq_value(op['_value'])} {cq_outcome(o)}")
                elif op['op'] == 'default':
                    records.append(dict(group=g.gid, kind='default', c=c, value=op['_value'], outcome=o, tag=op.get('_tag')))
                    lines.append(f"CDefault {decl.cq_value(op['_value'])} {cq_outcome(o)}")
            if g.nomodel:
                continue
            text.append(f"Definition T{g.gid} : list (cid * pclass) := {decl.cq_table(g.table)}.\n")
            if g.nomodel:
                for r in records[base:]:
                    r['nomodel'] = True
                continue
            lines = [l if l is not None else 'CDefined (-1) false' for l in lines]   # implementation-only operations: a case that always agrees keeps the indices aligned
            for k, part in enumerate(shard(lines, 120)):
                text.append(f"Definition C{g.gid}_{k} : list pcase := [\n" + ";\n".join(part) + "\n].\n")
                calls.append(f"check_group {'true' if host else 'false'} {base + 120 * k} T{g.gid} C{g.gid}_{k}")
        text.append("Eval vm_compute in (" + (" ++ ".join(calls) if calls else "(@nil Z)") + ").\n")
        files.append((f"{tag}_{si}", "".join(text)))
    outs = coq_eval_files(files)
    bad = []
    for name, _ in files:
        bad += parse_coq_list(outs[name])
    by_gid = {g.gid: g for g in groups}
    disagreements = []
    for idx, r in enumerate(records):
        o = r.get('outcome')
        if malformed(o):
            # implementation-only statement (no model needed): end offsets and error offsets are integers
            disagreements.append(dict(kind='correspondence', index=idx, what=malformed(o),
                                      classes="".join(b['src'] for b in by_gid[r['group']].blocks()),
                                      case=dict(kind='bad-end', c=r.get('c'), raw=r['raw'].hex() if isinstance(r.get('raw'), bytes) else None,
                                                offset=r.get('offset'), outcome=o)))
            break
    for r in records:       # the oracles see such an outcome as what it is: an exception-like result outside the contract
        m = malformed(r.get('outcome'))
        if m:
            r['outcome'] = dict(exc='Malformed', msg=m, was=r['outcome'])
    for idx in bad:
        r = records[idx]
        g = by_gid[r['group']]
        disagreements.append(dict(kind='correspondence', index=idx, what='the Coq model (Model/*.v) and the implementation differ on this case',
                                  classes="".join(b['src'] for b in g.blocks()), case={k: (v.hex() if isinstance(v, bytes) else v)
                                                                                       for k, v in r.items() if k not in ('group',)}))
    return records, disagreements


def source_of(groups, gid):
    for g in groups:
        if g.gid == gid:
            return "".join(b['src'] for b in g.blocks())
    return ''
