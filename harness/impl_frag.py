"""Implementation driver for C11: replays operation histories on bisturi.fragments.Fragments."""
import sys, json
from bisturi.fragments import Fragments


def run_continue(history):
    """a caller that catches the collision and goes on using the buffer: which operations raised, the final bytes and cursor"""
    f = Fragments()
    raised = []
    for k, op in enumerate(history):
        try:
            if op[0] == 'i':
                f.insert(op[1], bytes.fromhex(op[2]))
            elif op[0] == 'a':
                f.append(bytes.fromhex(op[1]))
            elif op[0] == 'c':
                f.current_offset = op[1]
        except Exception as e:
            if type(e) is Exception and str(e).startswith('Collision detected'):
                raised.append(k)
            else:
                return ['crash', k, type(e).__name__]
    try:
        return ['ok', f.tobytes().hex(), f.current_offset, raised]
    except Exception as e:
        return ['crash', len(history), type(e).__name__]


def run(history, fill=None):
    f = Fragments() if fill is None else Fragments(fill=fill)
    for k, op in enumerate(history):
        try:
            if op[0] == 'i':
                f.insert(op[1], bytes.fromhex(op[2]))
            elif op[0] == 'a':
                f.append(bytes.fromhex(op[1]))
            elif op[0] == 'e':
                f.extend([bytes.fromhex(x) for x in op[1]])
            elif op[0] == 'c':
                f.current_offset = op[1]
        except Exception as e:
            if type(e) is Exception and str(e).startswith('Collision detected'):
                return ['collision', k]
            return ['crash', k, type(e).__name__]
    try:
        return ['ok', f.tobytes().hex(), f.current_offset]
    except Exception as e:
        return ['crash', len(history), type(e).__name__]


if __name__ == '__main__':
    payload = json.load(open(sys.argv[1]))
    if 'fills' in payload:      # many buffers with their own fill bytes, one process
        json.dump([run(c['history'], bytes.fromhex(c['fill'])) for c in payload['fills']], open(sys.argv[2], 'w'), default=lambda o: {'object': type(o).__name__})
        sys.exit(0)
    json.dump([(run_continue(h) if payload.get('continue') else run(h)) for h in payload['histories']], open(sys.argv[2], 'w'), default=lambda o: {'object': type(o).__name__})
