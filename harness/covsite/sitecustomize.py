"""Line coverage of /repo/bisturi/*.py under the implementation drivers (diagnosis of the generators' blind spots only; enabled
by BVERIF_COV_DIR, see harness/common.impl_env).  Uses sys.monitoring (python 3.12): cheap, no dependency."""
import os, sys, atexit, json
_dir = os.environ.get('BVERIF_COV_DIR')
if _dir and hasattr(sys, 'monitoring'):
    _root = os.path.join(os.environ.get('BISTURI_REPO', '/repo'), 'bisturi') + os.sep
    _seen = {}
    mon = sys.monitoring
    TOOL = mon.COVERAGE_ID
    try:
        mon.use_tool_id(TOOL, 'bverif-cov')

        def _line(code, lineno):
            fn = code.co_filename
            if fn.startswith(_root):
                _seen.setdefault(fn[len(_root):], set()).add(lineno)
            return mon.DISABLE          # each line location reports once
        mon.register_callback(TOOL, mon.events.LINE, _line)
        mon.set_events(TOOL, mon.events.LINE)

        def _dump():
            try:
                json.dump({k: sorted(v) for k, v in _seen.items()}, open(os.path.join(_dir, '%d.json' % os.getpid()), 'w'))
            except Exception:
                pass
        atexit.register(_dump)
    except Exception:
        pass
