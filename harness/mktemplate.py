#!/usr/bin/env python3
"""mktemplate.py <kernel id>: (re)write harness/templates/<kernel>.py for a TEMPLATE-ONLY kernel (no holes) from the functions
the kernel lists, as they are in /repo now.  Only for kernels whose holes dict is empty; review the diff before committing:
the template is the statement "this is the code the model was written against"."""
import ast, os, sys
sys.path.insert(0, os.path.dirname(os.path.abspath(__file__)))
import pygen

kid = sys.argv[1]
k = pygen.KERNELS[kid]
assert not k['holes'], 'kernel has holes: edit its template by hand'
src = open(os.path.join(pygen.REPO, k['pyfile'])).read()
tree = ast.parse(src)
by_cls = {}
for cls, fn in k['functions']:
    by_cls.setdefault(cls, []).append(fn)
out = [f"# template of kernel {kid}: {k['pyfile']} (written by harness/mktemplate.py; docstrings and comments do not count)\n"]
for cls, fns in by_cls.items():
    if cls is None:
        for fn in fns:
            node = next(n for n in tree.body if isinstance(n, ast.FunctionDef) and n.name == fn)
            out.append(ast.get_source_segment(src, node, padded=True) if not node.decorator_list else
                       "\n".join(src.split("\n")[node.decorator_list[0].lineno - 1:node.end_lineno]))
            out.append("\n\n")
    else:
        cnode = next(n for n in tree.body if isinstance(n, ast.ClassDef) and n.name == cls)
        out.append(f"class {cls}:\n")
        for fn in fns:
            node = next(n for n in cnode.body if isinstance(n, ast.FunctionDef) and n.name == fn)
            first = node.decorator_list[0].lineno if node.decorator_list else node.lineno
            out.append("\n".join(src.split("\n")[first - 1:node.end_lineno]))
            out.append("\n\n")
open(os.path.join(pygen.TEMPLATES, kid + '.py'), 'w').write("".join(out))
print('wrote', kid)
