(* Base definitions shared by every kernel and model file: bytes are lists of Z in [0,256),
   python-style slicing, the three-valued outcome of a python call. Stdlib only. *)
From Coq Require Import ZArith List Bool Lia.
Import ListNotations.
Open Scope Z_scope.

Definition bytes := list Z.
Definition blen (b : bytes) : Z := Z.of_nat (length b).
Definition wf_byte (b : Z) : Prop := 0 <= b < 256.
Definition wf_bytes (bs : bytes) : Prop := Forall wf_byte bs.
Definition wf_byteb (b : Z) : bool := (0 <=? b) && (b <? 256).
Definition wf_bytesb (bs : bytes) : bool := forallb wf_byteb bs.

(* raw[a:b] for a python bytes object, for a >= 0 (every caller guards a >= 0; see DESIGN, D2) and any b:
   b <= a gives the empty string, b beyond the end is clipped. *)
Definition slice (raw : bytes) (a b : Z) : bytes :=
  firstn (Z.to_nat (b - a)) (skipn (Z.to_nat a) raw).
(* raw[a:] *)
Definition slice_from (raw : bytes) (a : Z) : bytes := skipn (Z.to_nat a) raw.

Definition FILL : Z := 46. (* b'.' *)
