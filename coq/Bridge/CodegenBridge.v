(* Tie A for a kernel without arithmetic: codegen.py:CodeGenerator(G11_codegen).  The translator requires the functions to be structurally the ones
   the model was written from (harness/templates); a mismatch makes the generated marker file fail to compile,
   which breaks this lemma. *)
From Bisturi Require Gen.CodegenGen.
Lemma codegen_template_matched : CodegenGen.codegen_template_matched = true. Proof. reflexivity. Qed.
