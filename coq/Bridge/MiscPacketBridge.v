(* Tie A, template-only kernel G20b_packet_misc: the metaclass shim, as_prototype, iterative_unpack and Prototype.clone of packet.py must be structurally the functions the model was written against
   (harness/templates/G20b_packet_misc.py).  With G20a..e every function of bisturi/*.py except the inspection helpers of util.py is
   under a template. *)
From Bisturi Require Gen.PacketMiscGen.
Lemma packet_misc_template_matched : PacketMiscGen.packet_misc_template_matched = true. Proof. reflexivity. Qed.
