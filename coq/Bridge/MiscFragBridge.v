(* Tie A, template-only kernel G20a_frag_misc: the constructor, repr and comparison of Fragments must be structurally the functions the model was written against
   (harness/templates/G20a_frag_misc.py).  With G20a..e every function of bisturi/*.py except the inspection helpers of util.py is
   under a template. *)
From Bisturi Require Gen.FragMiscGen.
Lemma frag_misc_template_matched : FragMiscGen.frag_misc_template_matched = true. Proof. reflexivity. Qed.
