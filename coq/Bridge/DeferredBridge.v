(* Tie A for bisturi/deferred.py (kernel G13_deferred): compile_expr, exec_compiled_expr, compile_expr_into_callable,
   _defer_method (which operand goes where, also for the reflected methods), chooses, if_true_then_else must be
   structurally the functions Kernel/ExprK.v models (harness/templates/G13_deferred.py). *)
From Bisturi Require Gen.DeferredGen.
Lemma deferred_template_matched : DeferredGen.deferred_template_matched = true. Proof. reflexivity. Qed.
