(* Tie A for a kernel without arithmetic: packet.py:unpack/unpack_impl/pack/pack_impl/PacketError(G9_errors).  The translator requires the functions to be structurally the ones
   the model was written from (harness/templates); a mismatch makes the generated marker file fail to compile,
   which breaks this lemma. *)
From Bisturi Require Gen.ErrorsGen.
Lemma errors_template_matched : ErrorsGen.errors_template_matched = true. Proof. reflexivity. Qed.
