(* Tie A bridge for kernels G3_move and G4_seq: positioning arithmetic regenerated from
   bisturi/structural_fields.py equals Kernel/Align.v.  The control skeleton (which expression sits in
   which branch) is fixed by the template the translator matched; it is re-assembled here. *)
From Coq Require Import ZArith Bool Lia ZifyBool.
From Bisturi Require Import Kernel.Align.
From Bisturi Require Gen.MoveGen Gen.SeqGen.
Open Scope Z_scope.

Definition gen_move_unpack (al : bool) (r : reference) (mv offset ipp : Z) : Z * bool :=
  let o := if al then
             MoveGen.u_align mv offset
               (match r with RBegins => MoveGen.u_start_begins | RCur => MoveGen.u_start_cur offset
                           | RInner => MoveGen.u_start_inner ipp end)
           else match r with RBegins => MoveGen.u_jump_begins mv | RCur => MoveGen.u_jump_cur mv offset
                           | RInner => MoveGen.u_jump_inner mv ipp end in
  (o, MoveGen.u_neg o).
Definition gen_move_pack (al : bool) (r : reference) (mv offset ipp : Z) : Z * bool :=
  let o := if al then
             offset + MoveGen.p_align mv offset
               (match r with RBegins => MoveGen.p_start_begins | RCur => MoveGen.p_start_cur offset
                           | RInner => MoveGen.p_start_inner ipp end)
           else match r with RBegins => MoveGen.p_jump_begins mv | RCur => offset + MoveGen.p_jump_cur mv offset
                           | RInner => MoveGen.p_jump_inner mv ipp end in
  (o, MoveGen.p_neg o).

Definition as_result (x : Z * bool) : option Z := if snd x then None else Some (fst x).

(* python's % raises for a zero modulus (translator semantics); for every other modulus: *)
Lemma move_unpack_eq : forall al r mv offset ipp, (al = true -> mv <> 0) ->
  as_result (gen_move_unpack al r mv offset ipp) = move_unpack al r mv offset ipp.
Proof.
  intros al r mv offset ipp H. unfold as_result, gen_move_unpack, move_unpack, align_to, pymod, jump_to, align_start.
  cbv delta [MoveGen.u_align MoveGen.u_start_begins MoveGen.u_start_cur MoveGen.u_start_inner
             MoveGen.u_jump_begins MoveGen.u_jump_cur MoveGen.u_jump_inner MoveGen.u_neg] beta.
  cbn [fst snd].
  destruct al.
  - specialize (H eq_refl). destruct (Z.eqb_spec mv 0) as [E|E]; [contradiction|]. destruct r; reflexivity.
  - destruct r; reflexivity.
Qed.
Lemma move_pack_eq : forall al r mv offset ipp, (al = true -> mv <> 0) ->
  as_result (gen_move_pack al r mv offset ipp) = move_pack al r mv offset ipp.
Proof.
  intros al r mv offset ipp H. unfold as_result, gen_move_pack, move_pack, align_to, pymod, jump_to, align_start.
  cbv delta [MoveGen.p_align MoveGen.p_start_begins MoveGen.p_start_cur MoveGen.p_start_inner
             MoveGen.p_jump_begins MoveGen.p_jump_cur MoveGen.p_jump_inner MoveGen.p_neg] beta.
  cbn [fst snd].
  destruct al.
  - specialize (H eq_refl). destruct (Z.eqb_spec mv 0) as [E|E]; [contradiction|]. destruct r; reflexivity.
  - destruct r; reflexivity.
Qed.

Lemma seq_unpack_align1_eq : forall a offset, a <> 0 -> Some (offset + SeqGen.su_align1 a offset) = seq_align a offset.
Proof. intros a o H. unfold seq_align, pymod, SeqGen.su_align1. destruct (Z.eqb_spec a 0); [contradiction|reflexivity]. Qed.
Lemma seq_unpack_align2_eq : forall a offset, a <> 0 -> Some (offset + SeqGen.su_align2 a offset) = seq_align a offset.
Proof. intros a o H. unfold seq_align, pymod, SeqGen.su_align2. destruct (Z.eqb_spec a 0); [contradiction|reflexivity]. Qed.
Lemma seq_pack_align_eq : forall a offset, a <> 0 -> Some (offset + SeqGen.sp_align a offset) = seq_align a offset.
Proof. intros a o H. unfold seq_align, pymod, SeqGen.sp_align. destruct (Z.eqb_spec a 0); [contradiction|reflexivity]. Qed.
Lemma seq_count_nonpos_eq : forall count, SeqGen.su_count_nonpos count = (count <=? 0).
Proof. intros. unfold SeqGen.su_count_nonpos. lia. Qed.
