(* Tie A, template-only kernel G20d_field_misc: Field.pack_regexp and the debugging field Bkpt must be structurally the functions the model was written against
   (harness/templates/G20d_field_misc.py).  With G20a..e every function of bisturi/*.py except the inspection helpers of util.py is
   under a template. *)
From Bisturi Require Gen.FieldMiscGen.
Lemma field_misc_template_matched : FieldMiscGen.field_misc_template_matched = true. Proof. reflexivity. Qed.
