(* Tie A bridge for kernel G1_frag: the expressions regenerated from bisturi/fragments.py on this run
   (Gen/FragGen.v) are the ones the hand-written model Kernel/Frag.v uses, for all arguments. *)
From Coq Require Import ZArith Bool Lia ZifyBool.
From Bisturi Require Kernel.Frag Gen.FragGen.
Open Scope Z_scope.
Ltac bridge := intros; cbv delta [
  FragGen.ins_is_empty FragGen.ins_index FragGen.ins_end FragGen.ins_end2 FragGen.ins_hits_prev
  FragGen.ins_has_next FragGen.ins_next_index FragGen.ins_hits_next FragGen.ins_slot FragGen.ins_new_cur
  FragGen.tb_gap FragGen.tb_next
  Frag.ins_is_empty Frag.ins_index Frag.ins_end Frag.ins_hits_prev Frag.ins_has_next Frag.ins_hits_next
  Frag.ins_slot Frag.ins_new_cur Frag.tb_gap Frag.tb_next] beta; try reflexivity; lia.

Lemma ins_is_empty_eq : forall L, FragGen.ins_is_empty L = Frag.ins_is_empty L. Proof. bridge. Qed.
Lemma ins_index_eq : forall b, FragGen.ins_index b = Frag.ins_index b. Proof. bridge. Qed.
Lemma ins_end_eq : forall b l, FragGen.ins_end b l = Frag.ins_end b l. Proof. bridge. Qed.
Lemma ins_end2_eq : forall b l, FragGen.ins_end2 b l = Frag.ins_end b l. Proof. bridge. Qed.
Lemma ins_hits_prev_eq : forall b1 e1 p, FragGen.ins_hits_prev b1 e1 p = Frag.ins_hits_prev b1 e1 p. Proof. bridge. Qed.
Lemma ins_has_next_eq : forall i n, FragGen.ins_has_next i n = Frag.ins_has_next i n. Proof. bridge. Qed.
Lemma ins_next_index_eq : forall i, FragGen.ins_next_index i = i + 1. Proof. bridge. Qed.
Lemma ins_hits_next_eq : forall b2 p L, FragGen.ins_hits_next b2 p L = Frag.ins_hits_next b2 p L. Proof. bridge. Qed.
Lemma ins_slot_eq : forall i, FragGen.ins_slot i = Frag.ins_slot i. Proof. bridge. Qed.
Lemma ins_new_cur_eq : forall p L, FragGen.ins_new_cur p L = Frag.ins_new_cur p L. Proof. bridge. Qed.
Lemma tb_gap_eq : forall o b, FragGen.tb_gap o b = Frag.tb_gap o b. Proof. bridge. Qed.
Lemma tb_next_eq : forall b o l, FragGen.tb_next b o l = Frag.tb_next b o l. Proof. bridge. Qed.
