(* Tie A bridge for kernel G6_int (bisturi/field.py, class Int): the struct-path test, the cursor
   advance of both decode paths, the short-read test of the D1 fix.  The endianness resolution has no
   hole: the translator requires it to be textually the expression Kernel/IntCodec.v models. *)
From Coq Require Import ZArith Bool Lia ZifyBool.
From Bisturi Require Kernel.IntCodec Gen.IntGen.
Open Scope Z_scope.
Lemma i_has_struct_eq : forall n, IntGen.i_has_struct n = IntCodec.has_struct_code n.
Proof. intros. unfold IntGen.i_has_struct, IntCodec.has_struct_code. lia. Qed.
Lemma i_next1_eq : forall o n, IntGen.i_next1 o n = o + n. Proof. reflexivity. Qed.
Lemma i_next2_eq : forall o n, IntGen.i_next2 o n = o + n. Proof. reflexivity. Qed.
Lemma i_short_eq : forall l n, IntGen.i_short l n = negb (l =? n). Proof. intros. unfold IntGen.i_short. lia. Qed.
Lemma i_base_eq : forall n, IntGen.i_base n = 2 ^ (8 * n). Proof. intros. unfold IntGen.i_base. f_equal. lia. Qed.
