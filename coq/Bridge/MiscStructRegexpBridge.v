(* Tie A, template-only kernel G20e_structural_regexp: the (unimplemented: they raise) pack_regexp of Sequence and Optional must be structurally the functions the model was written against
   (harness/templates/G20e_structural_regexp.py).  With G20a..e every function of bisturi/*.py except the inspection helpers of util.py is
   under a template. *)
From Bisturi Require Gen.StructRegexpGen.
Lemma struct_regexp_template_matched : StructRegexpGen.struct_regexp_template_matched = true. Proof. reflexivity. Qed.
