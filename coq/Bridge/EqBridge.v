(* Tie A for a kernel without arithmetic: packet.py:__init__/__eq__/__repr__(G10_eq).  The translator requires the functions to be structurally the ones
   the model was written from (harness/templates); a mismatch makes the generated marker file fail to compile,
   which breaks this lemma. *)
From Bisturi Require Gen.EqGen.
Lemma eq_template_matched : EqGen.eq_template_matched = true. Proof. reflexivity. Qed.
