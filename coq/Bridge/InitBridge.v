(* Tie A for the field initialisers (kernels G15, G15b): Field.init and the init of Int, Data, Ref, Bits, Em, Sequence,
   Optional must be structurally the functions Model/Init.v was written from (harness/templates/G15...py). *)
From Bisturi Require Gen.InitGen Gen.InitStructGen.
Lemma init_template_matched : InitGen.init_template_matched = true. Proof. reflexivity. Qed.
Lemma init_struct_template_matched : InitStructGen.init_struct_template_matched = true. Proof. reflexivity. Qed.
