(* Tie A for the plumbing the model describes as data (kernels G17, G13b, G18, G19; template-only): the metaclass
   (packet_builder.py: what Model/Decl.describe abstracts), the operator-method generation of deferred expressions, the
   count / when normalisers and modifiers of repeated / optional fields, and the constructors / compile steps of Field,
   Int, Data, Em must be structurally the functions the model was written against (harness/templates/G17...G19). *)
From Bisturi Require Gen.BuilderGen Gen.DeferredOpsGen Gen.ConditionsGen Gen.FieldCtorGen.
Lemma builder_template_matched : BuilderGen.builder_template_matched = true. Proof. reflexivity. Qed.
Lemma deferred_ops_template_matched : DeferredOpsGen.deferred_ops_template_matched = true. Proof. reflexivity. Qed.
Lemma conditions_template_matched : ConditionsGen.conditions_template_matched = true. Proof. reflexivity. Qed.
Lemma field_ctor_template_matched : FieldCtorGen.field_ctor_template_matched = true. Proof. reflexivity. Qed.
