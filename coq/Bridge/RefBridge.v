(* Tie A for the plumbing of references, optionals, field modifiers and prototypes (kernels G16, G16b, G16c): Ref
   (compile, run-time selection on both directions), Field._describe_yourself / modifiers, Em, Optional, Sequence
   construction, Prototype.clone must be structurally the functions Model/Decl.v, Model/Unpack.v, Model/Pack.v and
   Model/Init.v were written from (harness/templates/G16...py). *)
From Bisturi Require Gen.RefGen Gen.OptionalGen Gen.PrototypeGen.
Lemma ref_template_matched : RefGen.ref_template_matched = true. Proof. reflexivity. Qed.
Lemma optional_template_matched : OptionalGen.optional_template_matched = true. Proof. reflexivity. Qed.
Lemma prototype_template_matched : PrototypeGen.prototype_template_matched = true. Proof. reflexivity. Qed.
