(* Tie A bridge for kernel G7_auto (bisturi/descriptor.py): Auto has no arithmetic; the translator requires
   __get__/__set__/__delete__/sync_before_pack and AutoLength to be structurally the functions that
   Kernel/Desc.v models (template harness/templates/G7_auto.py).  This file only checks that the generated
   marker exists, so that a template mismatch breaks this obligation. *)
From Bisturi Require Gen.AutoGen.
Lemma auto_template_matched : AutoGen.auto_template_matched = true. Proof. reflexivity. Qed.
