(* Tie A bridge for kernel G8_data (bisturi/field.py class Data): the cursor arithmetic, the short-read
   test, the window end, the found test and the delimiter accounting regenerated from the source equal
   the expressions of Kernel/DataK.v.  The skeleton (find in the window; include / consume branches;
   the `$` shortcut; pack = value + delimiter) is fixed by the template the translator matched. *)
From Coq Require Import ZArith Bool Lia ZifyBool.
From Bisturi Require Kernel.DataK Gen.DataGen.
Open Scope Z_scope.
Lemma d_next1_eq : forall o bc, DataGen.d_next1 o bc = DataK.data_next o bc. Proof. reflexivity. Qed.
Lemma d_next2_eq : forall o bc, DataGen.d_next2 o bc = DataK.data_next o bc. Proof. reflexivity. Qed.
Lemma d_next3_eq : forall o bc, DataGen.d_next3 o bc = DataK.data_next o bc. Proof. reflexivity. Qed.
Lemma d_short1_eq : forall l bc, DataGen.d_short1 l bc = DataK.data_short l bc. Proof. intros. unfold DataGen.d_short1, DataK.data_short. lia. Qed.
Lemma d_short2_eq : forall l bc, DataGen.d_short2 l bc = DataK.data_short l bc. Proof. intros. unfold DataGen.d_short2, DataK.data_short. lia. Qed.
Lemma d_short3_eq : forall l bc, DataGen.d_short3 l bc = DataK.data_short l bc. Proof. intros. unfold DataGen.d_short3, DataK.data_short. lia. Qed.
Lemma d_win_end1_eq : forall o l, DataGen.d_win_end1 o l = o + l. Proof. reflexivity. Qed.
Lemma d_win_end2_eq : forall o l, DataGen.d_win_end2 o l = o + l. Proof. reflexivity. Qed.
(* bytes.find returns -1 when absent: the assert passes exactly when an index was found *)
Lemma d_found_eq : forall c, DataGen.d_found c = (0 <=? c). Proof. intros. unfold DataGen.d_found. lia. Qed.
Lemma d_marker_count_eq : forall c m, c + DataGen.d_incl_add m = DataK.marker_count c m true. Proof. reflexivity. Qed.
Lemma d_marker_extra_eq : forall m, DataGen.d_extra m = DataK.marker_extra m false. Proof. reflexivity. Qed.
Lemma d_marker_ret_eq : forall o c m incl,
  DataGen.d_ret4 (DataGen.d_next4 o (DataK.marker_count c m incl)) (DataK.marker_extra m incl)
  = o + DataK.marker_count c m incl + DataK.marker_extra m incl.
Proof. reflexivity. Qed.
Lemma d_eos_count_eq : forall rl o, DataGen.d_eos_count rl o = rl - o. Proof. reflexivity. Qed.
Lemma d_regex_ret_eq : forall o st en, DataGen.d_ret5 (DataGen.d_next5 o st) (DataGen.d_rx_extra en st) = o + en.
Proof. intros. unfold DataGen.d_ret5, DataGen.d_next5, DataGen.d_rx_extra. lia. Qed.
