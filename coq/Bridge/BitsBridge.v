(* Tie A bridge for kernel G5_bits (bisturi/field.py, class Bits). *)
From Coq Require Import ZArith Bool Lia ZifyBool.
From Bisturi Require Kernel.BitsK Gen.BitsGen.
Open Scope Z_scope.
Lemma b_init_mask_eq : forall w, BitsGen.b_init_mask w = 2 ^ w - 1. Proof. reflexivity. Qed.
Lemma b_mask_eq : forall w s, BitsGen.b_mask w s = BitsK.mask_of w s. Proof. reflexivity. Qed.
Lemma b_cum_eq : forall c w, c + BitsGen.b_cum c w = c + w. Proof. intros. unfold BitsGen.b_cum. lia. Qed.
Lemma b_boundary_ok_eq : forall c, BitsGen.b_boundary_ok c = (c mod 8 =? 0). Proof. intros. unfold BitsGen.b_boundary_ok. reflexivity. Qed.
Lemma b_bytes_eq : forall c, BitsGen.b_bytes c = c / 8. Proof. reflexivity. Qed.
Lemma b_get_eq : forall I m s, BitsGen.b_get I m s = BitsK.bits_get I m s. Proof. reflexivity. Qed.
Lemma b_put_eq : forall I v m s, BitsGen.b_put I v m s = BitsK.bits_put I v m s. Proof. reflexivity. Qed.
