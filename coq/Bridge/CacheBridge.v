(* Tie A for the cache protocol of CodeGenerator.generate_code (kernel G14_cache: everything from locating the
   module file to installing pack_impl / unpack_impl; the code-building part before it is a wildcard).  A mismatch
   with harness/templates/G14_cache.py makes the generated marker file fail to compile and breaks this lemma. *)
From Bisturi Require Gen.CacheGen.
Lemma cache_template_matched : CacheGen.cache_template_matched = true. Proof. reflexivity. Qed.
