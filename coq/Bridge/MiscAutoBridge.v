(* Tie A, template-only kernel G20c_auto_ctor: the constructor and compile step of Auto must be structurally the functions the model was written against
   (harness/templates/G20c_auto_ctor.py).  With G20a..e every function of bisturi/*.py except the inspection helpers of util.py is
   under a template. *)
From Bisturi Require Gen.AutoCtorGen.
Lemma auto_ctor_template_matched : AutoCtorGen.auto_ctor_template_matched = true. Proof. reflexivity. Qed.
