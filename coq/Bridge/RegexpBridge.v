(* Tie A for the regexp pre-filter (kernels G12 a-d): Int/Data/Bits.pack_regexp, FragmentsOfRegexps (how fragments are
   assembled into one expression), Packet.as_regular_expression, bisturi/pattern_matching.py (Any, filter) must be
   structurally the functions Model/Pattern.v was written from (harness/templates/G12...py). *)
From Bisturi Require Gen.RegexpGen Gen.RegexpFragsGen Gen.RegexpPacketGen Gen.PatternMatchingGen.
Lemma regexp_template_matched : RegexpGen.regexp_template_matched = true. Proof. reflexivity. Qed.
Lemma regexp_frags_template_matched : RegexpFragsGen.regexp_frags_template_matched = true. Proof. reflexivity. Qed.
Lemma regexp_packet_template_matched : RegexpPacketGen.regexp_packet_template_matched = true. Proof. reflexivity. Qed.
Lemma pattern_matching_template_matched : PatternMatchingGen.pattern_matching_template_matched = true. Proof. reflexivity. Qed.
