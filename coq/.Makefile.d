Base/Bytes.vo Base/Bytes.glob Base/Bytes.v.beautified Base/Bytes.required_vo: Base/Bytes.v 
Base/Bytes.vio: Base/Bytes.v 
Base/Bytes.vos Base/Bytes.vok Base/Bytes.required_vos: Base/Bytes.v 
Kernel/Align.vo Kernel/Align.glob Kernel/Align.v.beautified Kernel/Align.required_vo: Kernel/Align.v 
Kernel/Align.vio: Kernel/Align.v 
Kernel/Align.vos Kernel/Align.vok Kernel/Align.required_vos: Kernel/Align.v 
Kernel/BitsK.vo Kernel/BitsK.glob Kernel/BitsK.v.beautified Kernel/BitsK.required_vo: Kernel/BitsK.v Base/Bytes.vo
Kernel/BitsK.vio: Kernel/BitsK.v Base/Bytes.vio
Kernel/BitsK.vos Kernel/BitsK.vok Kernel/BitsK.required_vos: Kernel/BitsK.v Base/Bytes.vos
Kernel/Frag.vo Kernel/Frag.glob Kernel/Frag.v.beautified Kernel/Frag.required_vo: Kernel/Frag.v Base/Bytes.vo
Kernel/Frag.vio: Kernel/Frag.v Base/Bytes.vio
Kernel/Frag.vos Kernel/Frag.vok Kernel/Frag.required_vos: Kernel/Frag.v Base/Bytes.vos
Kernel/IntCodec.vo Kernel/IntCodec.glob Kernel/IntCodec.v.beautified Kernel/IntCodec.required_vo: Kernel/IntCodec.v Base/Bytes.vo
Kernel/IntCodec.vio: Kernel/IntCodec.v Base/Bytes.vio
Kernel/IntCodec.vos Kernel/IntCodec.vok Kernel/IntCodec.required_vos: Kernel/IntCodec.v Base/Bytes.vos
Gen/BitsGen.vo Gen/BitsGen.glob Gen/BitsGen.v.beautified Gen/BitsGen.required_vo: Gen/BitsGen.v 
Gen/BitsGen.vio: Gen/BitsGen.v 
Gen/BitsGen.vos Gen/BitsGen.vok Gen/BitsGen.required_vos: Gen/BitsGen.v 
Gen/FragGen.vo Gen/FragGen.glob Gen/FragGen.v.beautified Gen/FragGen.required_vo: Gen/FragGen.v 
Gen/FragGen.vio: Gen/FragGen.v 
Gen/FragGen.vos Gen/FragGen.vok Gen/FragGen.required_vos: Gen/FragGen.v 
Gen/IntGen.vo Gen/IntGen.glob Gen/IntGen.v.beautified Gen/IntGen.required_vo: Gen/IntGen.v 
Gen/IntGen.vio: Gen/IntGen.v 
Gen/IntGen.vos Gen/IntGen.vok Gen/IntGen.required_vos: Gen/IntGen.v 
Gen/MoveGen.vo Gen/MoveGen.glob Gen/MoveGen.v.beautified Gen/MoveGen.required_vo: Gen/MoveGen.v 
Gen/MoveGen.vio: Gen/MoveGen.v 
Gen/MoveGen.vos Gen/MoveGen.vok Gen/MoveGen.required_vos: Gen/MoveGen.v 
Gen/SeqGen.vo Gen/SeqGen.glob Gen/SeqGen.v.beautified Gen/SeqGen.required_vo: Gen/SeqGen.v 
Gen/SeqGen.vio: Gen/SeqGen.v 
Gen/SeqGen.vos Gen/SeqGen.vok Gen/SeqGen.required_vos: Gen/SeqGen.v 
Bridge/BitsBridge.vo Bridge/BitsBridge.glob Bridge/BitsBridge.v.beautified Bridge/BitsBridge.required_vo: Bridge/BitsBridge.v Kernel/BitsK.vo Gen/BitsGen.vo
Bridge/BitsBridge.vio: Bridge/BitsBridge.v Kernel/BitsK.vio Gen/BitsGen.vio
Bridge/BitsBridge.vos Bridge/BitsBridge.vok Bridge/BitsBridge.required_vos: Bridge/BitsBridge.v Kernel/BitsK.vos Gen/BitsGen.vos
Bridge/FragBridge.vo Bridge/FragBridge.glob Bridge/FragBridge.v.beautified Bridge/FragBridge.required_vo: Bridge/FragBridge.v Kernel/Frag.vo Gen/FragGen.vo
Bridge/FragBridge.vio: Bridge/FragBridge.v Kernel/Frag.vio Gen/FragGen.vio
Bridge/FragBridge.vos Bridge/FragBridge.vok Bridge/FragBridge.required_vos: Bridge/FragBridge.v Kernel/Frag.vos Gen/FragGen.vos
Bridge/IntBridge.vo Bridge/IntBridge.glob Bridge/IntBridge.v.beautified Bridge/IntBridge.required_vo: Bridge/IntBridge.v Kernel/IntCodec.vo Gen/IntGen.vo
Bridge/IntBridge.vio: Bridge/IntBridge.v Kernel/IntCodec.vio Gen/IntGen.vio
Bridge/IntBridge.vos Bridge/IntBridge.vok Bridge/IntBridge.required_vos: Bridge/IntBridge.v Kernel/IntCodec.vos Gen/IntGen.vos
Bridge/MoveBridge.vo Bridge/MoveBridge.glob Bridge/MoveBridge.v.beautified Bridge/MoveBridge.required_vo: Bridge/MoveBridge.v Kernel/Align.vo Gen/MoveGen.vo Gen/SeqGen.vo
Bridge/MoveBridge.vio: Bridge/MoveBridge.v Kernel/Align.vio Gen/MoveGen.vio Gen/SeqGen.vio
Bridge/MoveBridge.vos Bridge/MoveBridge.vok Bridge/MoveBridge.required_vos: Bridge/MoveBridge.v Kernel/Align.vos Gen/MoveGen.vos Gen/SeqGen.vos
Proofs/AlignProofs.vo Proofs/AlignProofs.glob Proofs/AlignProofs.v.beautified Proofs/AlignProofs.required_vo: Proofs/AlignProofs.v Kernel/Align.vo
Proofs/AlignProofs.vio: Proofs/AlignProofs.v Kernel/Align.vio
Proofs/AlignProofs.vos Proofs/AlignProofs.vok Proofs/AlignProofs.required_vos: Proofs/AlignProofs.v Kernel/Align.vos
Proofs/BitsProofs.vo Proofs/BitsProofs.glob Proofs/BitsProofs.v.beautified Proofs/BitsProofs.required_vo: Proofs/BitsProofs.v Base/Bytes.vo Kernel/BitsK.vo
Proofs/BitsProofs.vio: Proofs/BitsProofs.v Base/Bytes.vio Kernel/BitsK.vio
Proofs/BitsProofs.vos Proofs/BitsProofs.vok Proofs/BitsProofs.required_vos: Proofs/BitsProofs.v Base/Bytes.vos Kernel/BitsK.vos
Proofs/FragProofs.vo Proofs/FragProofs.glob Proofs/FragProofs.v.beautified Proofs/FragProofs.required_vo: Proofs/FragProofs.v Base/Bytes.vo Kernel/Frag.vo
Proofs/FragProofs.vio: Proofs/FragProofs.v Base/Bytes.vio Kernel/Frag.vio
Proofs/FragProofs.vos Proofs/FragProofs.vok Proofs/FragProofs.required_vos: Proofs/FragProofs.v Base/Bytes.vos Kernel/Frag.vos
Proofs/IntCodecProofs.vo Proofs/IntCodecProofs.glob Proofs/IntCodecProofs.v.beautified Proofs/IntCodecProofs.required_vo: Proofs/IntCodecProofs.v Base/Bytes.vo Kernel/IntCodec.vo
Proofs/IntCodecProofs.vio: Proofs/IntCodecProofs.v Base/Bytes.vio Kernel/IntCodec.vio
Proofs/IntCodecProofs.vos Proofs/IntCodecProofs.vok Proofs/IntCodecProofs.required_vos: Proofs/IntCodecProofs.v Base/Bytes.vos Kernel/IntCodec.vos
Properties/C05.vo Properties/C05.glob Properties/C05.v.beautified Properties/C05.required_vo: Properties/C05.v Base/Bytes.vo Kernel/IntCodec.vo
Properties/C05.vio: Properties/C05.v Base/Bytes.vio Kernel/IntCodec.vio
Properties/C05.vos Properties/C05.vok Properties/C05.required_vos: Properties/C05.v Base/Bytes.vos Kernel/IntCodec.vos
Properties/C11.vo Properties/C11.glob Properties/C11.v.beautified Properties/C11.required_vo: Properties/C11.v Base/Bytes.vo Kernel/Frag.vo
Properties/C11.vio: Properties/C11.v Base/Bytes.vio Kernel/Frag.vio
Properties/C11.vos Properties/C11.vok Properties/C11.required_vos: Properties/C11.v Base/Bytes.vos Kernel/Frag.vos
