(* Proofs/ExprProofs.v -- the deferred field expressions over the concrete python values: the generic tree that
   the overloaded operators build (Model/ExprInst.to_g) means what the python expression means (Value.eval), and
   the postfix program run on the stack machine computes exactly that (from Kernel/ExprK.compile_correct). *)
From Coq Require Import ZArith List Bool Lia.
From Bisturi Require Import Kernel.ExprK Model.Value Model.ExprInst.
Import ListNotations.
Local Open Scope nat_scope.

(* ---- induction on Value.expr through the option lists of EChoose / EChooseD ---- *)
Section VInd.
Variable P : Value.expr -> Prop.
Hypothesis HLit : forall v, P (ELit v).
Hypothesis HField : forall f, P (EField f).
Hypothesis HUn : forall o a, P a -> P (EUn o a).
Hypothesis HBin : forall o l r, P l -> P r -> P (EBin o l r).
Hypothesis HCh : forall s opts, P s -> Forall P opts -> P (EChoose s opts).
Hypothesis HChD : forall s keys opts, P s -> Forall P opts -> P (EChooseD s keys opts).
Hypothesis HIte : forall c a b, P c -> P a -> P b -> P (EIte c a b).
Hypothesis HAttr : forall a f, P a -> P (EAttr a f).
Hypothesis HOff : P EOffset.
Hypothesis HRaw : P ERawLen.
Fixpoint vexpr_ind' (e : Value.expr) : P e :=
  match e with
  | ELit v => HLit v
  | EField f => HField f
  | EUn o a => HUn o a (vexpr_ind' a)
  | EBin o l r => HBin o l r (vexpr_ind' l) (vexpr_ind' r)
  | EChoose s opts => HCh s opts (vexpr_ind' s)
      ((fix go (es : list Value.expr) : Forall P es :=
          match es with [] => Forall_nil P | a :: r => Forall_cons a (vexpr_ind' a) (go r) end) opts)
  | EChooseD s keys opts => HChD s keys opts (vexpr_ind' s)
      ((fix go (es : list Value.expr) : Forall P es :=
          match es with [] => Forall_nil P | a :: r => Forall_cons a (vexpr_ind' a) (go r) end) opts)
  | EIte c a b => HIte c a b (vexpr_ind' c) (vexpr_ind' a) (vexpr_ind' b)
  | EAttr a f => HAttr a f (vexpr_ind' a)
  | EOffset => HOff
  | ERawLen => HRaw
  end.
End VInd.

(* ---- the nested list recursions, named ---- *)
Fixpoint to_gs (es : list Value.expr) : option (list gexpr) :=
  match es with
  | [] => Some []
  | a :: r => match to_g a, to_gs r with Some x, Some xs => Some (x :: xs) | _, _ => None end
  end.

Fixpoint vevals (cx : ectx) (es : list Value.expr) : res (list value) :=
  match es with
  | [] => Ok []
  | a :: r => do y <- Value.eval cx a; do ys <- vevals cx r; Ok (y :: ys)
  end.

Definition g_evals (cx : ectx) (gs : list gexpr) : list value + exn :=
  ExprK.evals value exn ectx fname g_lookup g_op1 g_op2 VTuple VDict cx gs.

Lemma to_g_choose s opts : to_g (EChoose s opts) =
  match to_g s, to_gs opts with
  | Some gs, Some gl => Some (NaryL value fname CHOOSE gs gl)
  | _, _ => None
  end.
Proof. reflexivity. Qed.

Lemma to_g_choosed s keys opts : to_g (EChooseD s keys opts) =
  match to_g s, to_gs opts with
  | Some gs, Some gl => Some (NaryD value fname CHOOSE gs keys gl)
  | _, _ => None
  end.
Proof. reflexivity. Qed.

Lemma veval_choose cx s opts : Value.eval cx (EChoose s opts) =
  do x <- Value.eval cx s; do vs <- vevals cx opts; apply_bop GetItem (VTuple vs) x.
Proof.
  cbn [Value.eval]. destruct (Value.eval cx s); auto. cbn [bind].
  match goal with |- bind ?a _ = bind ?b _ => replace a with b; auto end.
  induction opts as [|o r IH]; cbn [vevals]; auto. rewrite IH. reflexivity.
Qed.

Lemma veval_choosed cx s keys opts : Value.eval cx (EChooseD s keys opts) =
  do x <- Value.eval cx s; do vs <- vevals cx opts; apply_bop GetItem (VDict keys vs) x.
Proof.
  cbn [Value.eval]. destruct (Value.eval cx s); auto. cbn [bind].
  match goal with |- bind ?a _ = bind ?b _ => replace a with b; auto end.
  induction opts as [|o r IH]; cbn [vevals]; auto. rewrite IH. reflexivity.
Qed.

Lemma g_eval_naryl cx c l args : g_eval cx (NaryL value fname c l args) =
  match g_eval cx l with inr ex => inr ex | inl x =>
  match g_evals cx args with inr ex => inr ex | inl ys => g_op2 c x (VTuple ys) end end.
Proof. unfold g_eval, g_evals. apply eval_naryl. Qed.

Lemma g_eval_naryd cx c l keys args : g_eval cx (NaryD value fname c l keys args) =
  match g_eval cx l with inr ex => inr ex | inl x =>
  match g_evals cx args with inr ex => inr ex | inl ys => g_op2 c x (VDict keys ys) end end.
Proof.
  unfold g_eval, g_evals. cbn [ExprK.eval].
  destruct (ExprK.eval value exn ectx fname g_lookup g_op1 g_op2 VTuple VDict cx l); auto.
  match goal with |- match ?a with _ => _ end = match ?b with _ => _ end => replace a with b; auto end.
  induction args as [|a r IH]; cbn [ExprK.evals]; auto.
  destruct (ExprK.eval value exn ectx fname g_lookup g_op1 g_op2 VTuple VDict cx a); auto.
  rewrite IH. reflexivity.
Qed.

Lemma g_evals_cons cx a r : g_evals cx (a :: r) =
  match g_eval cx a with inr ex => inr ex | inl y =>
  match g_evals cx r with inr ex => inr ex | inl ys => inl (y :: ys) end end.
Proof. reflexivity. Qed.

(* ---- the operator tables decode the codes ---- *)
Lemma g_op1_uop o x : g_op1 (uop_code o) x = to_sum (apply_uop o x).
Proof. destruct o; reflexivity. Qed.

Lemma g_op2_bop o x y : g_op2 (bop_code o) x y = to_sum (apply_bop o x y).
Proof. destruct o; reflexivity. Qed.

Lemma g_op2_choose x y : g_op2 CHOOSE x y = to_sum (apply_bop GetItem y x).
Proof. reflexivity. Qed.

Lemma g_op2_ite x a b : g_op2 ITE x (VTuple [a; b]) = inl (if truth x then a else b).
Proof. reflexivity. Qed.

(* ---- 1. the deferred tree means what the python expression means ---- *)
Definition sound (cx : ectx) (e : Value.expr) : Prop :=
  forall g, to_g e = Some g -> g_eval cx g = to_sum (Value.eval cx e).

Lemma to_gs_evals cx opts : Forall (sound cx) opts ->
  forall gl, to_gs opts = Some gl -> g_evals cx gl = to_sum (vevals cx opts).
Proof.
  induction 1 as [|a r Ha _ IH]; intros gl; cbn [to_gs vevals].
  - intros [= <-]. reflexivity.
  - destruct (to_g a) as [x|] eqn:Hx; [|discriminate].
    destruct (to_gs r) as [xs|] eqn:Hxs; [|discriminate]. intros [= <-].
    rewrite g_evals_cons, (Ha _ Hx), (IH _ eq_refl).
    destruct (Value.eval cx a); cbn [bind to_sum]; auto.
    destruct (vevals cx r); reflexivity.
Qed.

Theorem to_g_eval : forall cx e g, to_g e = Some g -> g_eval cx g = to_sum (Value.eval cx e).
Proof.
  intros cx e. change (sound cx e).
  induction e using vexpr_ind'; intros g Hg.
  - injection Hg as <-. reflexivity.
  - injection Hg as <-. unfold g_eval. cbn [ExprK.eval Value.eval]. unfold g_lookup.
    destruct (slot_get (e_slots cx) f); reflexivity.
  - cbn [to_g] in Hg. destruct (to_g e) as [x|] eqn:Hx; [|discriminate]. injection Hg as <-.
    specialize (IHe _ Hx). unfold g_eval in *. cbn [ExprK.eval Value.eval]. rewrite IHe.
    destruct (Value.eval cx e); cbn [bind to_sum]; auto. apply g_op1_uop.
  - cbn [to_g] in Hg. destruct (to_g e1) as [a|] eqn:Ha; [|discriminate].
    destruct (to_g e2) as [b|] eqn:Hb; [|discriminate]. injection Hg as <-.
    specialize (IHe1 _ Ha). specialize (IHe2 _ Hb).
    unfold g_eval in *. cbn [ExprK.eval Value.eval]. rewrite IHe1, IHe2.
    destruct (Value.eval cx e1); cbn [bind to_sum]; auto.
    destruct (Value.eval cx e2); cbn [bind to_sum]; auto. apply g_op2_bop.
  - rewrite to_g_choose in Hg. destruct (to_g e) as [gs|] eqn:Hs; [|discriminate].
    destruct (to_gs opts) as [gl|] eqn:Hl; [|discriminate]. injection Hg as <-.
    rewrite g_eval_naryl, veval_choose, (IHe _ Hs), (to_gs_evals cx opts H _ Hl).
    destruct (Value.eval cx e); cbn [bind to_sum]; auto.
    destruct (vevals cx opts); cbn [bind to_sum]; auto.
  - rewrite to_g_choosed in Hg. destruct (to_g e) as [gs|] eqn:Hs; [|discriminate].
    destruct (to_gs opts) as [gl|] eqn:Hl; [|discriminate]. injection Hg as <-.
    rewrite g_eval_naryd, veval_choosed, (IHe _ Hs), (to_gs_evals cx opts H _ Hl).
    destruct (Value.eval cx e); cbn [bind to_sum]; auto.
    destruct (vevals cx opts); cbn [bind to_sum]; auto.
  - cbn [to_g] in Hg. destruct (to_g e1) as [gc|] eqn:Hc; [|discriminate].
    destruct (to_g e2) as [ga|] eqn:Ha; [|discriminate].
    destruct (to_g e3) as [gb|] eqn:Hb; [|discriminate]. injection Hg as <-.
    rewrite g_eval_naryl, !g_evals_cons, (IHe1 _ Hc), (IHe2 _ Ha), (IHe3 _ Hb).
    cbn [Value.eval].
    destruct (Value.eval cx e1); cbn [bind to_sum]; auto.
    destruct (Value.eval cx e2); cbn [bind to_sum]; auto.
    destruct (Value.eval cx e3); cbn [bind to_sum]; auto.
  - discriminate.
  - discriminate.
  - discriminate.
Qed.

(* ---- 2. the compiled program on the stack machine computes the python meaning ---- *)
Theorem deferred_correct : forall cx e g st, to_g e = Some g ->
  g_run cx st (g_compile g) =
  match Value.eval cx e with Ok v => inl (v :: st) | Exn x => inr x end.
Proof.
  intros cx e g st Hg.
  pose proof (compile_correct value exn ectx fname g_lookup g_op1 g_op2 VTuple VDict cx g st) as HC.
  pose proof (to_g_eval cx e g Hg) as HE. unfold g_eval in HE.
  unfold g_run, g_compile. rewrite HC, HE.
  destruct (Value.eval cx e); reflexivity.
Qed.

(* ---- 3. every expression without EAttr / EOffset / ERawLen is deferrable ---- *)
Fixpoint deferrable (e : Value.expr) : bool :=
  match e with
  | ELit _ | EField _ => true
  | EUn _ a => deferrable a
  | EBin _ l r => deferrable l && deferrable r
  | EChoose s opts =>
      deferrable s &&
      (fix go (es : list Value.expr) : bool :=
         match es with [] => true | a :: r => deferrable a && go r end) opts
  | EChooseD s _ opts =>
      deferrable s &&
      (fix go (es : list Value.expr) : bool :=
         match es with [] => true | a :: r => deferrable a && go r end) opts
  | EIte c a b => deferrable c && deferrable a && deferrable b
  | EAttr _ _ | EOffset | ERawLen => false
  end.

Fixpoint deferrables (es : list Value.expr) : bool :=
  match es with [] => true | a :: r => deferrable a && deferrables r end.

Lemma deferrable_choose s opts : deferrable (EChoose s opts) = deferrable s && deferrables opts.
Proof. reflexivity. Qed.

Lemma deferrable_choosed s keys opts :
  deferrable (EChooseD s keys opts) = deferrable s && deferrables opts.
Proof. reflexivity. Qed.

Lemma to_gs_total opts :
  Forall (fun e => deferrable e = true -> exists g, to_g e = Some g) opts ->
  deferrables opts = true -> exists gl, to_gs opts = Some gl.
Proof.
  induction 1 as [|a r Ha _ IH]; cbn [deferrables to_gs]; intros Hd.
  - eauto.
  - apply andb_prop in Hd as [Hda Hdr]. destruct (Ha Hda) as [x ->]. destruct (IH Hdr) as [xs ->]. eauto.
Qed.

Theorem to_g_total : forall e, deferrable e = true -> exists g, to_g e = Some g.
Proof.
  induction e using vexpr_ind'; intros Hd.
  - cbn [to_g]. eauto.
  - cbn [to_g]. eauto.
  - cbn [deferrable] in Hd. cbn [to_g]. destruct (IHe Hd) as [x ->]. eauto.
  - cbn [deferrable] in Hd. apply andb_prop in Hd as [H1 H2]. cbn [to_g].
    destruct (IHe1 H1) as [a ->]. destruct (IHe2 H2) as [b ->]. eauto.
  - rewrite deferrable_choose in Hd. apply andb_prop in Hd as [H1 H2]. rewrite to_g_choose.
    destruct (IHe H1) as [gs ->]. destruct (to_gs_total opts H H2) as [gl ->]. eauto.
  - rewrite deferrable_choosed in Hd. apply andb_prop in Hd as [H1 H2]. rewrite to_g_choosed.
    destruct (IHe H1) as [gs ->]. destruct (to_gs_total opts H H2) as [gl ->]. eauto.
  - cbn [deferrable] in Hd. apply andb_prop in Hd as [H12 H3]. apply andb_prop in H12 as [H1 H2].
    cbn [to_g]. destruct (IHe1 H1) as [gc ->]. destruct (IHe2 H2) as [ga ->]. destruct (IHe3 H3) as [gb ->].
    eauto.
  - discriminate.
  - discriminate.
  - discriminate.
Qed.

(* ---- 4. operands stay in source order ---- *)
Theorem reflected_order : forall o l r, to_g (EBin o l r) =
  match to_g l, to_g r with
  | Some a, Some b => Some (Bin value fname (bop_code o) a b)
  | _, _ => None
  end.
Proof. reflexivity. Qed.

(* ---- 5. examples on a packet whose field 0 holds 3 ---- *)
Definition cx0 : ectx := {| e_slots := [(FN 0%Z, VInt 3%Z)]; e_offset := None; e_rawlen := None |}.

Definition run_deferred (cx : ectx) (e : Value.expr) : list value + exn :=
  match to_g e with Some g => g_run cx [] (g_compile g) | None => inr NotImplementedError end.

Definition f0 : Value.expr := EField (FN 0%Z).
Definition lit (z : Z) : Value.expr := ELit (VInt z).

(* (f0 - 8) // 0 raises ZeroDivisionError *)
Example ex_div0 : run_deferred cx0 (EBin FloorDiv (EBin Sub f0 (lit 8)) (lit 0)) = inr ZeroDivisionError.
Proof. vm_compute. reflexivity. Qed.

(* (f0 - 8) // 2 = -5 // 2 = -3 (floor division) *)
Example ex_div2 : run_deferred cx0 (EBin FloorDiv (EBin Sub f0 (lit 8)) (lit 2)) = inl [VInt (-3)%Z].
Proof. vm_compute. reflexivity. Qed.

(* operand order is observable: 8 - f0 = 5 (python __rsub__), f0 - 8 = -5 *)
Example ex_rsub : run_deferred cx0 (EBin Sub (lit 8) f0) = inl [VInt 5%Z].
Proof. vm_compute. reflexivity. Qed.

Example ex_sub : run_deferred cx0 (EBin Sub f0 (lit 8)) = inl [VInt (-5)%Z].
Proof. vm_compute. reflexivity. Qed.

(* the programs themselves *)
Example ex_rsub_prog : option_map g_compile (to_g (EBin Sub (lit 8) f0)) =
  Some [IPush value fname (VInt 8%Z); ILoad value fname (FN 0%Z); IOp2 value fname 1].
Proof. vm_compute. reflexivity. Qed.

Example ex_sub_prog : option_map g_compile (to_g (EBin Sub f0 (lit 8))) =
  Some [ILoad value fname (FN 0%Z); IPush value fname (VInt 8%Z); IOp2 value fname 1].
Proof. vm_compute. reflexivity. Qed.

(* a missing field raises AttributeError before the division is attempted *)
Example ex_attr : run_deferred cx0 (EBin FloorDiv (EField (FN 1%Z)) (lit 0)) = inr AttributeError.
Proof. vm_compute. reflexivity. Qed.

(* f0.chooses([10, 20, 30, 40]) = 40 ; f0.chooses({3: 7}) = 7 ; (f0 > 8).if_true_then_else(1, 2) = 2 *)
Example ex_choose : run_deferred cx0 (EChoose f0 [lit 10; lit 20; lit 30; lit 40]) = inl [VInt 40%Z].
Proof. vm_compute. reflexivity. Qed.

Example ex_choose_prog : option_map g_compile (to_g (EChoose f0 [lit 10; lit 20])) =
  Some [ILoad value fname (FN 0%Z); IPush value fname (VInt 10%Z); IPush value fname (VInt 20%Z);
        ITuple value fname 2; IOp2 value fname CHOOSE].
Proof. vm_compute. reflexivity. Qed.

Example ex_choose_index : run_deferred cx0 (EChoose f0 [lit 10; lit 20]) = inr IndexError.
Proof. vm_compute. reflexivity. Qed.

Example ex_choosed : run_deferred cx0 (EChooseD f0 [VInt 3%Z] [lit 7]) = inl [VInt 7%Z].
Proof. vm_compute. reflexivity. Qed.

Example ex_choosed_prog : option_map g_compile (to_g (EChooseD f0 [VInt 3%Z] [lit 7])) =
  Some [ILoad value fname (FN 0%Z); IPush value fname (VInt 7%Z);
        IDict value fname [VInt 3%Z] 1; IOp2 value fname CHOOSE].
Proof. vm_compute. reflexivity. Qed.

Example ex_ite : run_deferred cx0 (EIte (EBin Gt f0 (lit 8)) (lit 1) (lit 2)) = inl [VInt 2%Z].
Proof. vm_compute. reflexivity. Qed.

Example ex_neg_prog : option_map g_compile (to_g (EUn Neg f0)) =
  Some [ILoad value fname (FN 0%Z); IOp1 value fname 0].
Proof. vm_compute. reflexivity. Qed.

(* a lambda-only expression is not deferrable *)
Example ex_not_deferrable : to_g (EBin Add f0 EOffset) = None.
Proof. reflexivity. Qed.

Print Assumptions to_g_eval.
Print Assumptions deferred_correct.
Print Assumptions to_g_total.
Print Assumptions reflected_order.
