(* Proofs/PackUnpackX.v -- C02 for the larger language of Model/ConsistentX.v: bit runs, until-loops, per-element
   alignment, forward positioning, the empty marker and run-time selected references, on top of the sequential
   constructs of Proofs/PackUnpack.v.  Stdlib only, no axioms.

   Two changes to the statement of notes/stmts/S11_pack_unpack_x.v, each forced by a counterexample proved at the
   end of the file (`nomoves_needs_seqtight`, `visible_needs_vclean`, `visible_needs_vclean_shift`):
   (1) the clause "no Move anywhere -> the parse ends exactly at the end of the output" is false: the per-element
       alignment of a repeated nested packet that writes nothing also leaves the cursor beyond the last byte.  The
       clause is kept under the additional boolean condition [ct_seqtight ct = true]: every repeated field has
       alignment 1 or a leaf element (a leaf always writes a chunk, be it empty, which extends the output up to the
       cursor);
   (2) the added hypothesis [vclean ct (VPkt c s) = true]: no packet value inside the value holds a slot under the
       name of an Em field (FN i) or of a Move pseudo-field (FShift i) of its class.  `consistentx` never looks at
       these names, the parser never sets them, but `visible` lists them.

   Method: the buffer invariant `block` of PackUnpack.v (cursor = end of a contiguous block) is replaced by
   `bx fr B p`: the buffer reads as B, nothing lies at or beyond blen B, and the cursor p is at or beyond blen B.
   Every construct is a step from a state (B, p) to a state (B', p') with B' = B ++ x and p <= p'; the serializer
   realises the step on any buffer in state (B, p), and the parser, started at offset p on B' ++ post for any
   post, ends at p' with related slots.  Writing a chunk b at the cursor gives B' = B ++ fill ++ b. *)
From Coq Require Import ZArith List Bool Lia.
From Bisturi Require Import Base.Bytes Kernel.IntCodec Kernel.Align Kernel.BitsK Kernel.DataK Kernel.Frag
  Model.Value Model.Decl Model.Unpack Model.Pack Model.Init Model.Canon Model.Wf Model.WfBits Model.Consistent Model.ConsistentX
  Proofs.FragProofs Proofs.IntCodecProofs Proofs.DataProofs Proofs.BitsProofs Proofs.AlignProofs
  Proofs.RoundTrip Proofs.RoundTripFull Proofs.PackUnpack.
Import ListNotations. Open Scope Z_scope.

(* ------------------------------------------------------------------------------------------ *)
(** * The output buffer when the cursor only moves forwards                                    *)
(* ------------------------------------------------------------------------------------------ *)

Definition pad (n : Z) : bytes := repeat FILL (Z.to_nat n).

Lemma blen_pad (n : Z) : 0 <= n -> blen (pad n) = n.
Proof. intros H. unfold blen, pad. rewrite repeat_length. lia. Qed.
Lemma wf_pad (n : Z) : wf_bytes (pad n).
Proof. unfold wf_bytes, pad. apply Forall_forall. intros x Hx. apply repeat_spec in Hx. subst x. unfold wf_byte, FILL. lia. Qed.
Lemma pad_0 : pad 0 = [].
Proof. reflexivity. Qed.

(* the buffer holds B (gaps filled), nothing lies at or beyond blen B, and the cursor p is at or beyond blen B *)
Definition bx (fr : frs) (B : bytes) (p : Z) : Prop :=
  Inv fr /\ NonNeg fr /\ extent (frags fr) = blen B /\ cur fr = p /\ blen B <= p /\ tobytes fr = B /\
  (forall q, blen B <= q -> cell (frags fr) q = None).

Lemma bx_empty : bx empty [] 0.
Proof.
  destruct inv_empty as [HI HN]. split; [exact HI|]. split; [exact HN|]. split; [reflexivity|]. split; [reflexivity|].
  split; [rewrite DataProofs.blen_nil; lia|]. split; [reflexivity|]. intros q _. reflexivity.
Qed.

Lemma bx_set_cur (fr : frs) (B : bytes) (p p' : Z) : bx fr B p -> p <= p' -> bx (set_cur fr p') B p'.
Proof.
  intros (HI & HN & Hext & Hcur & Hle & Htb & Hcell) Hp.
  split; [exact HI|]. split; [exact HN|]. split; [exact Hext|]. split; [reflexivity|]. split; [lia|].
  split; [exact Htb|exact Hcell].
Qed.

Lemma nth_error_3 (B P b : bytes) (q : Z) : 0 <= q ->
  nth_error (B ++ P ++ b) (Z.to_nat q) =
  if q <? blen B then nth_error B (Z.to_nat q)
  else if q <? blen B + blen P then nth_error P (Z.to_nat (q - blen B))
  else nth_error b (Z.to_nat (q - blen B - blen P)).
Proof.
  intros Hq. unfold blen. destruct (Z.ltb_spec q (Z.of_nat (length B))).
  - apply nth_error_app1. lia.
  - rewrite nth_error_app2 by lia. destruct (Z.ltb_spec q (Z.of_nat (length B) + Z.of_nat (length P))).
    + rewrite nth_error_app1 by lia. f_equal. lia.
    + rewrite nth_error_app2 by lia. f_equal. lia.
Qed.

(* writing a chunk (possibly empty) at the cursor: the gap up to the cursor is filled *)
Lemma bx_append (fr : frs) (B b : bytes) (p : Z) : bx fr B p ->
  exists fr', append fr b = Frag.Ok fr' /\ bx fr' (B ++ pad (p - blen B) ++ b) (p + blen b).
Proof.
  intros (HI & HN & Hext & Hcur & Hle & Htb & Hcell). unfold append. rewrite Hcur.
  pose proof (DataProofs.blen_nonneg B) as HB. pose proof (DataProofs.blen_nonneg b) as Hb.
  assert (HL : blen (B ++ pad (p - blen B) ++ b) = p + blen b).
  { rewrite !DataProofs.blen_app, blen_pad by lia. lia. }
  destruct (insert fr p b) as [fr'| |] eqn:E.
  - exists fr'. split; [reflexivity|].
    destruct (insert_ok fr p b fr' HI E) as (HI' & Hcur' & Hcell' & Hext').
    assert (HN' : NonNeg fr') by (apply (insert_nonneg fr p b fr' HN); [lia|exact E]).
    split; [exact HI'|]. split; [exact HN'|]. rewrite HL.
    split; [lia|]. split; [exact Hcur'|]. split; [lia|]. split.
    + destruct (tobytes_spec fr' HI' HN') as [HL' Hn']. destruct (tobytes_spec fr HI HN) as [HL0 Hn0].
      apply nth_error_ext_eq.
      * unfold blen in *. lia.
      * intros n Hl. assert (Hq : 0 <= Z.of_nat n < extent (frags fr')) by (unfold blen in *; lia).
        pose proof (Hn' (Z.of_nat n) Hq) as Hq'. rewrite Nat2Z.id in Hq'. rewrite Hq', Hcell'.
        pose proof (nth_error_3 B (pad (p - blen B)) b (Z.of_nat n) ltac:(lia)) as H3. rewrite Nat2Z.id in H3.
        rewrite H3. clear H3. rewrite blen_pad by lia.
        destruct (Z.ltb_spec (Z.of_nat n) (blen B)) as [H1|H1].
        -- destruct (Z.leb_spec p (Z.of_nat n)); [lia|]. cbn [andb].
           rewrite <- (Hn0 (Z.of_nat n)) by lia. rewrite Htb, Nat2Z.id. reflexivity.
        -- destruct (Z.ltb_spec (Z.of_nat n) (blen B + (p - blen B))) as [H2|H2].
           ++ destruct (Z.leb_spec p (Z.of_nat n)); [lia|]. cbn [andb]. rewrite (Hcell _ H1).
              unfold pad. rewrite nth_error_repeat by lia. reflexivity.
           ++ destruct (Z.leb_spec p (Z.of_nat n)); [|lia]. destruct (Z.ltb_spec (Z.of_nat n) (p + blen b)); [|lia].
              cbn [andb]. replace (Z.of_nat n - blen B - (p - blen B)) with (Z.of_nat n - p) by lia.
              destruct (nth_error b (Z.to_nat (Z.of_nat n - p))) eqn:G; [reflexivity|].
              apply nth_error_None in G. unfold blen in *. lia.
    + intros q Hq. rewrite Hcell'. destruct (Z.leb_spec p q), (Z.ltb_spec q (p + blen b)); cbn [andb]; try lia; apply Hcell; lia.
  - exfalso. assert (Hne : b <> []). { intros ->. rewrite insert_empty_eq in E. discriminate. }
    apply (insert_collision_iff fr p b HI Hne) in E. destruct E as (q & Hq & Hc).
    apply Hc. apply Hcell. lia.
  - exfalso. exact (insert_no_crash fr p b HI E).
Qed.

Lemma bx_tobytes (fr : frs) (B : bytes) (p : Z) : bx fr B p -> tobytes fr = B.
Proof. intros H. apply H. Qed.

Lemma emit_bx (sp : slots) (fr : frs) (B b : bytes) (p : Z) : bx fr B p ->
  exists fr', emit sp fr b = KOk sp fr' /\ bx fr' (B ++ pad (p - blen B) ++ b) (p + blen b).
Proof.
  intros H. destruct (bx_append fr B b p H) as (fr' & E & H'). exists fr'. unfold emit. rewrite E. split; [reflexivity|exact H'].
Qed.

(* ------------------------------------------------------------------------------------------ *)
(** * One step of the serializer: from (bytes written, cursor) to (bytes written, cursor)      *)
(* ------------------------------------------------------------------------------------------ *)

Definition step (B : bytes) (p : Z) (B' : bytes) (p' : Z) : Prop :=
  (exists x, B' = B ++ x /\ wf_bytes x) /\ blen B' <= p' /\ p <= p'.

Lemma step_refl (B : bytes) (p : Z) : blen B <= p -> step B p B p.
Proof. intros H. split; [exists []; split; [symmetry; apply app_nil_r|constructor]|]. lia. Qed.
Lemma step_trans (B : bytes) (p : Z) (B1 : bytes) (p1 : Z) (B2 : bytes) (p2 : Z) :
  step B p B1 p1 -> step B1 p1 B2 p2 -> step B p B2 p2.
Proof.
  intros ((x & -> & Hx) & H1 & H2) ((y & -> & Hy) & H3 & H4).
  split; [exists (x ++ y); split; [symmetry; apply app_assoc|apply Forall_app; split; assumption]|]. lia.
Qed.
Lemma step_move (B : bytes) (p p' : Z) : blen B <= p -> p <= p' -> step B p B p'.
Proof. intros H H'. split; [exists []; split; [symmetry; apply app_nil_r|constructor]|]. lia. Qed.
Lemma step_emit (B b : bytes) (p : Z) : blen B <= p -> wf_bytes b ->
  step B p (B ++ pad (p - blen B) ++ b) (p + blen b) /\ p + blen b = blen (B ++ pad (p - blen B) ++ b).
Proof.
  intros H Hb. pose proof (DataProofs.blen_nonneg b).
  assert (HL : blen (B ++ pad (p - blen B) ++ b) = p + blen b).
  { rewrite !DataProofs.blen_app, blen_pad by lia. lia. }
  split; [|lia]. split; [eexists; split; [reflexivity|apply Forall_app; split; [apply wf_pad|exact Hb]]|]. lia.
Qed.

(* the condition under which the parse ends exactly at the end of the output *)
Definition is_leaf (e : elem) : bool := match e with ELeafE _ => true | _ => false end.
Definition cfield_seqtight (f : cfield) : bool :=
  match f with CSeq _ e _ _ _ _ al => (al =? 1) || is_leaf e | _ => true end.
Definition ct_seqtight (ct : ctab) : bool := forallb (fun ck => forallb cfield_seqtight (cc_fields (snd ck))) ct.
Definition cfield_tight (f : cfield) : bool :=
  match f with CMove _ _ _ _ => false | _ => cfield_seqtight f end.
Definition ct_tight (ct : ctab) : bool := forallb (fun ck => forallb cfield_tight (cc_fields (snd ck))) ct.

Lemma ct_tight_of (ct : ctab) : ct_nomoves ct = true -> ct_seqtight ct = true -> ct_tight ct = true.
Proof.
  unfold ct_nomoves, ct_seqtight, ct_tight. induction ct as [|[c k] r IH]; [reflexivity|].
  cbn [forallb snd]. intros H1 H2. apply andb_true_iff in H1 as [A1 R1]. apply andb_true_iff in H2 as [A2 R2].
  rewrite (IH R1 R2), andb_true_r. clear IH R1 R2. induction (cc_fields k) as [|f fs IHf]; [reflexivity|].
  cbn [forallb] in *. apply andb_true_iff in A1 as [a1 r1]. apply andb_true_iff in A2 as [a2 r2].
  rewrite (IHf r1 r2), andb_true_r. destruct f; try discriminate a1; exact a2.
Qed.

(* ------------------------------------------------------------------------------------------ *)
(** * Leaves                                                                                   *)
(* ------------------------------------------------------------------------------------------ *)

Section LeafX.
Variables (host : bool) (dl : dstate) (ct : ctab).

Lemma leaf_okx (cf : lconf) (c : cid) (name : fname) (l : leaf) (before : slots) (v : value) :
  leaf_seq_ok l = true -> leaf_plain l = true -> leaf_consistent cf l before v = true ->
  exists enc, wf_bytes enc /\
    (forall sp fr, slot_get sp name = Some v -> pack_leaf host dl cf c name l sp fr = emit sp fr enc) /\
    (forall pre rest su, ext ct before su ->
       exists t, unpack_leaf host (pre ++ enc ++ rest) cf c name l su (blen pre) = Ok (v, blen pre + blen enc, t)).
Proof.
  intros Hok Hpl Hc. destruct l as [n signed fe d|size ic d|m incl d|r incl d|d]; cbn [leaf_seq_ok] in Hok; try discriminate.
  - destruct v as [z| | | | | | | | |]; cbn [leaf_consistent] in Hc; try discriminate.
    apply andb_true_iff in Hc as [H1 H2]. apply Z.leb_le in Hok, H1. apply Z.ltb_lt in H2.
    destruct (decode_encode n signed (is_bigendian (resolve_endianness fe (lc_endianness cf)) host) z Hok (conj H1 H2))
      as (bs & Eenc & Hlen & Hwf & Edec).
    exists bs. split; [exact Hwf|]. split.
    + intros sp fr Hs. unfold pack_leaf. rewrite Hs. cbn [as_int]. rewrite Eenc. reflexivity.
    + intros pre rest su _. cbn [unpack_leaf]. unfold int_unpack. subst n. rewrite slice_mid, Edec.
      eexists. reflexivity.
  - destruct v as [| |b| | | | | | |]; cbn [leaf_consistent] in Hc; try discriminate.
    apply andb_true_iff in Hc as [Hwf Hn]. apply wf_bytesb_ok in Hwf.
    destruct (eval_int (cctx before) size) as [n|] eqn:En; [|discriminate]. apply Z.eqb_eq in Hn. subst n.
    exists b. split; [exact Hwf|]. split.
    + intros sp fr Hs. unfold pack_leaf. rewrite Hs. unfold data_pack. rewrite app_nil_r. reflexivity.
    + intros pre rest su Hx. cbn [unpack_leaf]. cbn [leaf_plain] in Hpl.
      rewrite (eval_int_sim ct (cctx before) (mkctx (pre ++ b ++ rest) su (blen pre)) size (blen b) Hx Hpl En). cbn [bind].
      pose proof (DataProofs.blen_nonneg pre). pose proof (DataProofs.blen_nonneg b). pose proof (DataProofs.blen_nonneg rest).
      rewrite data_sized_complete by (rewrite ?DataProofs.blen_app; lia). rewrite slice_mid. eexists. reflexivity.
  - destruct v as [| |b| | | | | | |]; cbn [leaf_consistent] in Hc; try discriminate.
    apply andb_true_iff in Hc as [Hc Hf]. apply andb_true_iff in Hc as [Hwf Hsbl]. apply wf_bytesb_ok in Hwf.
    destruct incl.
    + destruct (find b m) as [c0|] eqn:F; [|discriminate]. apply Z.eqb_eq in Hf.
      exists b. split; [exact Hwf|]. split.
      * intros sp fr Hs. unfold pack_leaf. rewrite Hs. unfold data_pack. rewrite app_nil_r. reflexivity.
      * intros pre rest su _. cbn [unpack_leaf].
        assert (Fw : find (window (pre ++ b ++ rest) (blen pre) (lc_sbl cf)) m = Some c0).
        { rewrite (window_all _ _ _ Hsbl), slice_from_mid. exact (find_incl_ext b m rest c0 F). }
        rewrite (data_marker_complete _ _ _ m true c0 Fw).
        replace (blen pre + (c0 + blen m)) with (blen pre + blen b) by lia.
        replace (blen pre + c0 + blen m) with (blen pre + blen b) by lia.
        rewrite slice_mid. eexists. reflexivity.
    + destruct (find (b ++ m) m) as [c0|] eqn:F; [|discriminate]. apply Z.eqb_eq in Hf. subst c0.
      cbn [leaf_plain orb] in Hpl. apply wf_bytesb_ok in Hpl.
      exists (b ++ m). split; [apply Forall_app; split; assumption|]. split.
      * intros sp fr Hs. unfold pack_leaf. rewrite Hs. unfold data_pack. reflexivity.
      * intros pre rest su _. cbn [unpack_leaf]. rewrite <- (app_assoc b m rest).
        assert (Fw : find (window (pre ++ b ++ m ++ rest) (blen pre) (lc_sbl cf)) m = Some (blen b)).
        { rewrite (window_all _ _ _ Hsbl), slice_from_mid. exact (find_excl_ext b m rest F). }
        rewrite (data_marker_complete _ _ _ m false (blen b) Fw). rewrite slice_mid.
        rewrite DataProofs.blen_app. replace (blen pre + blen b + blen m) with (blen pre + (blen b + blen m)) by lia.
        eexists. reflexivity.
Qed.

(* the same from a state (B, p) of the serializer: the gap up to the cursor is filled, then the encoding *)
Lemma leaf_st (cf : lconf) (c : cid) (name : fname) (l : leaf) (before : slots) (v : value) :
  leaf_seq_ok l = true -> leaf_plain l = true -> leaf_consistent cf l before v = true ->
  forall B p, blen B <= p ->
  exists B' p', step B p B' p' /\ p' = blen B' /\
    (forall sp fr, slot_get sp name = Some v -> bx fr B p ->
       exists fr', pack_leaf host dl cf c name l sp fr = KOk sp fr' /\ bx fr' B' p') /\
    (forall post su, ext ct before su ->
       exists t, unpack_leaf host (B' ++ post) cf c name l su p = Ok (v, p', t)).
Proof.
  intros Hok Hpl Hc B p Hp. destruct (leaf_okx cf c name l before v Hok Hpl Hc) as (enc & Hwf & Hpk & Hu).
  destruct (step_emit B enc p Hp Hwf) as [Hst Hl].
  exists (B ++ pad (p - blen B) ++ enc), (p + blen enc). split; [exact Hst|]. split; [exact Hl|]. split.
  - intros sp fr Hs Hb. rewrite (Hpk sp fr Hs). exact (emit_bx sp fr B enc p Hb).
  - intros post su Hx. pose proof (DataProofs.blen_nonneg B).
    assert (Hpre : blen (B ++ pad (p - blen B)) = p). { rewrite DataProofs.blen_app, blen_pad by lia. lia. }
    destruct (Hu (B ++ pad (p - blen B)) post su Hx) as (t & E). rewrite Hpre in E.
    replace ((B ++ pad (p - blen B) ++ enc) ++ post) with ((B ++ pad (p - blen B)) ++ enc ++ post)
      by (rewrite <- !app_assoc; reflexivity).
    exists t. exact E.
Qed.
End LeafX.

(* ------------------------------------------------------------------------------------------ *)
(** * One level of nesting, the levels below being given                                       *)
(* ------------------------------------------------------------------------------------------ *)

(* no packet value inside v holds a slot under the name of an Em field or of a Move pseudo-field of its class
   (the consistency predicate does not look at these names, the parser never sets them, `visible` lists them) *)
Definition is_some {A : Type} (o : option A) : bool := match o with Some _ => true | None => false end.
Definition cfield_clean (s : slots) (f : cfield) : bool :=
  match f with
  | CMove i _ _ _ => negb (is_some (slot_get s (FShift i)))
  | CEm i => negb (is_some (slot_get s (FN i)))
  | _ => true
  end.
Fixpoint vclean (ct : ctab) (v : value) {struct v} : bool :=
  match v with
  | VList l => (fix go (l : list value) : bool := match l with [] => true | a :: r => vclean ct a && go r end) l
  | VPkt c s =>
      match ct_get ct c with Some k => forallb (cfield_clean s) (cc_fields k) | None => true end &&
      (fix go (s : list (fname * value)) : bool := match s with [] => true | (_, x) :: r => vclean ct x && go r end) s
  | _ => true
  end.

Lemma vclean_list (ct : ctab) (l : list value) : vclean ct (VList l) = forallb (vclean ct) l.
Proof. induction l as [|a r IH]; [reflexivity|]. cbn [forallb]. rewrite <- IH. reflexivity. Qed.
Lemma vclean_pkt (ct : ctab) (c : cid) (s : slots) : vclean ct (VPkt c s) = true ->
  (forall k, ct_get ct c = Some k -> forallb (cfield_clean s) (cc_fields k) = true) /\
  (forall f v, slot_get s f = Some v -> vclean ct v = true).
Proof.
  cbn [vclean]. intros H. apply andb_true_iff in H as [H1 H2]. split.
  - intros k Hk. rewrite Hk in H1. exact H1.
  - clear H1. induction s as [|[g x] r IH]; intros f v E; [discriminate E|].
    apply andb_true_iff in H2 as [Hx Hr]. cbn [slot_get] in E. destruct (fname_eqb f g).
    + injection E as <-. exact Hx.
    + exact (IH Hr f v E).
Qed.

Definition pkt_okx (ct : ctab) (rec_pack : cid -> slots -> frs -> qres) (rec_unpack : bytes -> cid -> Z -> pres)
                   (c' : cid) (s' : slots) : Prop :=
  forall B p, blen B <= p ->
  exists B' p', step B p B' p' /\ (ct_tight ct = true -> p = blen B -> p' = blen B') /\
    (forall fr, bx fr B p -> exists v fr', rec_pack c' s' fr = QOk v fr' /\ bx fr' B' p') /\
    (forall post, exists s'' t,
       rec_unpack (B' ++ post) c' p = POk (VPkt c' s'') p' t /\ canon ct (VPkt c' s'') = canon ct (VPkt c' s')).

Lemma er_leaf_inv (v : value) (l : leaf) : er v = VLeaf l -> v = VLeaf l.
Proof. destruct v; try discriminate; try (intros H; exact H). Qed.
Lemma er_new_inv (v : value) (c : cid) (kw : slots) : er v = VNew c kw -> v = VNew c kw.
Proof. destruct v; try discriminate; try (intros H; exact H). Qed.
Lemma er_pkt_inv (v : value) (c : cid) (x : slots) : er v = VPkt c x -> exists s, v = VPkt c s.
Proof. destruct v; try discriminate. cbn [er]. intros H. injection H as -> _. eexists; reflexivity. Qed.

Section LevelX.
Variables (host : bool) (dl : dstate) (ct : ctab).
Variable rec_pack : cid -> slots -> frs -> qres.
Variable rec_unpack : bytes -> cid -> Z -> pres.
Variable rec_cons : cid -> slots -> bool.
Variable lf : nat.
Hypothesis HREC : forall c' s', rec_cons c' s' = true -> vclean ct (VPkt c' s') = true -> pkt_okx ct rec_pack rec_unpack c' s'.
Let TT : Prop := ct_tight ct = true.

Lemma elem_okx (cf : lconf) (c : cid) (name : fname) (e : elem) (before : slots) (v : value) :
  elem_plain e = true -> elem_consistentx rec_cons cf e before v = true -> vclean ct v = true ->
  forall B p, blen B <= p ->
  exists B' p', step B p B' p' /\ ((is_leaf e = true \/ (TT /\ p = blen B)) -> p' = blen B') /\
    (forall sp fr, slot_get sp name = Some v -> ext ct before sp -> bx fr B p ->
       exists fr', pack_elem host dl rec_pack cf c name e sp fr = KOk sp fr' /\ bx fr' B' p') /\
    (forall post su, ext ct before su ->
       exists v' t, unpack_elem host (B' ++ post) (rec_unpack (B' ++ post)) cf c name e su p
                    = FOk (slot_set su name v') p' t /\ vrel ct v' v).
Proof.
  intros Hpl Hc Hvc B p Hp. destruct e as [l|c' proto|sel d].
  - cbn [elem_consistentx] in Hc. apply andb_true_iff in Hc as [Hok Hc].
    destruct (leaf_st host dl ct cf c name l before v Hok Hpl Hc B p Hp) as (B' & p' & Hst & Hl & Hpk & Hu).
    exists B', p'. split; [exact Hst|]. split; [intros _; exact Hl|]. split.
    + intros sp fr Hs _ Hb. cbn [pack_elem]. exact (Hpk sp fr Hs Hb).
    + intros post su Hx. destruct (Hu post su Hx) as (t & E). cbn [unpack_elem]. rewrite E.
      exists v, t. split; [reflexivity|apply vrel_refl].
  - destruct v as [| | | | | | |c'' s'| |]; cbn [elem_consistentx] in Hc; try discriminate.
    apply andb_true_iff in Hc as [Hcc Hc]. apply Z.eqb_eq in Hcc. subst c''.
    destruct (HREC c' s' Hc Hvc B p Hp) as (B' & p' & Hst & Hti & Hpk & Hu).
    exists B', p'. split; [exact Hst|]. split.
    { intros [H|[HT Hpb]]; [discriminate H|exact (Hti HT Hpb)]. } split.
    + intros sp fr Hs _ Hb. cbn [pack_elem]. rewrite Hs. destruct (Hpk fr Hb) as (v & fr' & E & Hb'). rewrite E.
      exists fr'. split; [reflexivity|exact Hb'].
    + intros post su _. destruct (Hu post) as (s'' & t & E & Hcan). cbn [unpack_elem]. rewrite E.
      exists (VPkt c' s''), t. split; [reflexivity|]. split; [exact Hcan|reflexivity].
  - cbn [elem_consistentx] in Hc. apply andb_true_iff in Hc as [Hps Hc].
    destruct (eval (cctx before) sel) as [w|] eqn:Ew; [|discriminate].
    destruct w as [| | | | | | |c' ps|c' kw|l]; try discriminate.
    + (* a packet instance *)
      destruct v as [| | | | | | |c'' s'| |]; try discriminate.
      apply andb_true_iff in Hc as [Hcc Hc]. apply Z.eqb_eq in Hcc. subst c''.
      destruct (HREC c' s' Hc Hvc B p Hp) as (B' & p' & Hst & Hti & Hpk & Hu).
      exists B', p'. split; [exact Hst|]. split.
      { intros [H|[HT Hpb]]; [discriminate H|exact (Hti HT Hpb)]. } split.
      * intros sp fr Hs _ Hb. cbn [pack_elem]. rewrite Hs. destruct (Hpk fr Hb) as (v & fr' & E & Hb'). rewrite E.
        exists fr'. split; [reflexivity|exact Hb'].
      * intros post su Hx. cbn [unpack_elem].
        destruct (eval_sim ct (cctx before) (mkctx (B' ++ post) su p) Hx sel _ Hps Ew) as (w' & Ew' & Er).
        apply er_pkt_inv in Er as [ps' ->]. rewrite Ew'.
        destruct (Hu post) as (s'' & t & E & Hcan). rewrite E.
        exists (VPkt c' s''), t. split; [reflexivity|]. split; [exact Hcan|reflexivity].
    + (* a constructor call *)
      destruct v as [| | | | | | |c'' s'| |]; try discriminate.
      apply andb_true_iff in Hc as [Hcc Hc]. apply Z.eqb_eq in Hcc. subst c''.
      destruct (HREC c' s' Hc Hvc B p Hp) as (B' & p' & Hst & Hti & Hpk & Hu).
      exists B', p'. split; [exact Hst|]. split.
      { intros [H|[HT Hpb]]; [discriminate H|exact (Hti HT Hpb)]. } split.
      * intros sp fr Hs _ Hb. cbn [pack_elem]. rewrite Hs. destruct (Hpk fr Hb) as (v & fr' & E & Hb'). rewrite E.
        exists fr'. split; [reflexivity|exact Hb'].
      * intros post su Hx. cbn [unpack_elem].
        destruct (eval_sim ct (cctx before) (mkctx (B' ++ post) su p) Hx sel _ Hps Ew) as (w' & Ew' & Er).
        apply er_new_inv in Er as ->. rewrite Ew'.
        destruct (Hu post) as (s'' & t & E & Hcan). rewrite E.
        exists (VPkt c' s''), t. split; [reflexivity|]. split; [exact Hcan|reflexivity].
    + (* a field *)
      assert (Hl3 : leaf_plain l && leaf_seq_ok l && leaf_consistent empty_conf l before v = true /\
                    match v with VPkt _ _ => False | _ => True end).
      { destruct v; try discriminate Hc; split; [exact Hc|exact I|exact Hc|exact I]. }
      destruct Hl3 as [Hl3 Hnp]. apply andb_true_iff in Hl3 as [Hl3 Hlc]. apply andb_true_iff in Hl3 as [Hlp Hlo].
      destruct (leaf_st host dl ct empty_conf c name l before v Hlo Hlp Hlc B p Hp) as (B' & p' & Hst & Hl & Hpk & Hu).
      exists B', p'. split; [exact Hst|]. split; [intros _; exact Hl|]. split.
      * intros sp fr Hs Hxs Hb. cbn [pack_elem]. rewrite Hs.
        destruct (eval_sim ct (cctx before) (pctx sp) Hxs sel _ Hps Ew) as (w' & Ew' & Er).
        apply er_leaf_inv in Er as ->.
        destruct v; try contradiction; rewrite Ew'; exact (Hpk sp fr Hs Hb).
      * intros post su Hx. cbn [unpack_elem].
        destruct (eval_sim ct (cctx before) (mkctx (B' ++ post) su p) Hx sel _ Hps Ew) as (w' & Ew' & Er).
        apply er_leaf_inv in Er as ->. rewrite Ew'.
        destruct (Hu post su Hx) as (t & E). rewrite E.
        exists v, t. split; [reflexivity|apply vrel_refl].
Qed.

Lemma bx_cur (fr : frs) (B : bytes) (p : Z) : bx fr B p -> cur fr = p.
Proof. intros H. apply H. Qed.

Lemma seq_align_fwd (al p : Z) : 1 <= al -> exists pa, seq_align al p = Some pa /\ p <= pa /\ (al = 1 -> pa = p).
Proof.
  intros Hal. destruct (seq_align_min al p ltac:(lia)) as (d & E & Hd & _). exists (p + d). split; [exact E|]. split; lia.
Qed.

(* the until-condition from the list built so far: true exactly when nothing remains *)
Fixpoint until_tail (u : expr) (before : slots) (i : Z) (done rest : list value) : bool :=
  match eval (cctx (slot_set before (FN i) (VList done))) u with
  | Ok c => match rest with [] => truth c | x :: r => negb (truth c) && until_tail u before i (done ++ [x]) r end
  | Exn _ => false
  end.
Lemma until_ok_tail (u : expr) (before : slots) (i : Z) : forall rest done x,
  until_ok u before i done (x :: rest) = until_tail u before i (done ++ [x]) rest.
Proof.
  induction rest as [|y r IH]; intros done x.
  - cbn [until_ok until_tail]. destruct (eval _ u); reflexivity.
  - cbn [until_ok]. cbn [until_tail]. destruct (eval _ u); [|reflexivity]. f_equal. apply IH.
Qed.

Lemma Forall2_snoc {A B : Type} (R : A -> B -> Prop) (l : list A) (l' : list B) (a : A) (b : B) :
  Forall2 R l l' -> R a b -> Forall2 R (l ++ [a]) (l' ++ [b]).
Proof. intros H Hab. apply Forall2_app; [exact H|constructor; [exact Hab|constructor]]. Qed.

Lemma seq_okx (cf : lconf) (c : cid) (i : Z) (e : elem) (al : Z) : 1 <= al -> elem_plain e = true -> forall l : list value,
  forallb (elem_consistentx rec_cons cf e []) l = true -> forallb (vclean ct) l = true ->
  forall B p, blen B <= p ->
  exists B' p', step B p B' p' /\ (TT -> (al = 1 \/ is_leaf e = true) -> p = blen B -> p' = blen B') /\
    (forall sp fr, bx fr B p ->
       exists sp' fr', pack_seq host dl rec_pack cf c i e al l sp fr = KOk sp' fr' /\ bx fr' B' p' /\
                       (forall g, g <> FSeqElem i -> slot_get sp' g = slot_get sp g)) /\
    (forall post su l0 t0, slot_get su (FN i) = Some (VList l0) ->
       exists su' l' t,
         unpack_count host (B' ++ post) (rec_unpack (B' ++ post)) cf c i e al (length l) su p t0 = FOk su' p' t /\
         slot_get su' (FN i) = Some (VList (l0 ++ l')) /\ Forall2 (vrel ct) l' l /\
         (forall j, j <> i -> slot_get su' (FN j) = slot_get su (FN j))) /\
    (forall u before done post su su0 done' t0 fuel,
       expr_plain u = true -> only_fn before -> until_tail u before i done l = true -> (length l <= fuel)%nat ->
       ext ct before su0 -> (forall j, j <> i -> slot_get su (FN j) = slot_get su0 (FN j)) ->
       slot_get su (FN i) = Some (VList done') -> Forall2 (vrel ct) done' done ->
       exists su' l' t,
         unpack_until host (B' ++ post) (rec_unpack (B' ++ post)) fuel cf c i e al u su p t0 = FOk su' p' t /\
         slot_get su' (FN i) = Some (VList (done' ++ l')) /\ Forall2 (vrel ct) l' l /\
         (forall j, j <> i -> slot_get su' (FN j) = slot_get su (FN j))).
Proof.
  intros Hal Hpl. induction l as [|v r IH]; intros Hall Hvl B p Hp.
  - exists B, p. split; [apply step_refl; exact Hp|]. split; [intros _ _ H; exact H|]. split; [|split].
    + intros sp fr Hb. exists sp, fr. cbn [pack_seq]. auto.
    + intros post su l0 t0 Hl. exists su, [], t0. cbn [unpack_count length]. rewrite app_nil_r.
      split; [reflexivity|]. split; [exact Hl|]. split; [constructor|reflexivity].
    + intros u before done post su su0 done' t0 fuel Hpu Hfn Hut _ Hx0 Hfr Hl Hrel.
      cbn [until_tail] in Hut. destruct (eval (cctx (slot_set before (FN i) (VList done))) u) as [cnd|] eqn:Ec; [|discriminate].
      assert (Hx : ext ct (slot_set before (FN i) (VList done)) su).
      { apply (ext_update ct before su0 su i (VList done) (VList done') Hx0 Hfn Hfr Hl). apply vrel_list. exact Hrel. }
      destruct (eval_truth_sim ct (cctx (slot_set before (FN i) (VList done))) (mkctx (B ++ post) su p) u cnd Hx Hpu Ec)
        as (cnd' & Ec' & Ht).
      exists su, [], t0. rewrite app_nil_r. split; [|split; [exact Hl|split; [constructor|reflexivity]]].
      destruct fuel; cbn [unpack_until]; rewrite Ec', Ht, Hut; reflexivity.
  - cbn [forallb] in Hall, Hvl. apply andb_true_iff in Hall as [Hv Hr]. apply andb_true_iff in Hvl as [Hvv Hvr].
    destruct (seq_align_fwd al p Hal) as (pa & Epa & Hpa & Hpa1).
    destruct (elem_okx cf c (FSeqElem i) e [] v Hpl Hv Hvv B pa ltac:(lia)) as (B1 & p1 & Hst1 & Hti1 & Hp1 & Hu1).
    assert (Hp1' : blen B1 <= p1) by apply Hst1.
    destruct (IH Hr Hvr B1 p1 Hp1') as (B' & p' & Hst2 & Hti2 & Hp2 & Hc2 & Hw2).
    pose proof Hst2 as ((y & EB' & Hy) & _).
    exists B', p'. split; [apply (step_trans B p B pa); [apply step_move; assumption|apply (step_trans B pa B1 p1); assumption]|].
    split.
    { intros HT Hor Hpb. apply (Hti2 HT Hor). apply Hti1. destruct Hor as [H1|Hlf]; [right|left; exact Hlf].
      split; [exact HT|]. rewrite (Hpa1 H1). exact Hpb. }
    split; [|split].
    + intros sp fr Hb. cbn [pack_seq]. rewrite (bx_cur fr B p Hb), Epa.
      destruct (Hp1 (slot_set sp (FSeqElem i) v) (set_cur fr pa) (slot_get_set_same _ _ _) (ext_nil ct _)
                  (bx_set_cur fr B p pa Hb Hpa)) as (fr1 & E1 & Hb1). rewrite E1.
      destruct (Hp2 (slot_set sp (FSeqElem i) v) fr1 Hb1) as (sp' & fr2 & E2 & Hb2 & Hfn). rewrite E2.
      exists sp', fr2. split; [reflexivity|]. split; [exact Hb2|].
      intros g Hg. rewrite (Hfn g Hg). apply slot_get_set_other. exact Hg.
    + intros post su l0 t0 Hl. cbn [unpack_count length]. rewrite Epa. subst B'. rewrite <- (app_assoc B1 y post).
      destruct (Hu1 (y ++ post) su (ext_nil ct su)) as (v' & t1 & E1 & Hv'). rewrite E1.
      assert (Hev : elem_value (slot_set su (FSeqElem i) v') (FSeqElem i) = v').
      { unfold elem_value. rewrite slot_get_set_same. reflexivity. }
      rewrite Hev. unfold append_to at 1. rewrite slot_get_set_other by discriminate. rewrite Hl.
      set (su2 := slot_set (slot_set su (FSeqElem i) v') (FN i) (VList (l0 ++ [v']))).
      assert (Hl2 : slot_get su2 (FN i) = Some (VList (l0 ++ [v']))) by apply slot_get_set_same.
      destruct (Hc2 post su2 (l0 ++ [v']) (t0 ++ t1) Hl2) as (su' & l' & t & E2 & Hl' & Hrel & Hfr).
      rewrite <- (app_assoc B1 y post) in E2. rewrite E2.
      exists su', (v' :: l'), t. split; [reflexivity|].
      split; [rewrite Hl', <- app_assoc; reflexivity|]. split; [constructor; assumption|].
      intros j Hj. rewrite (Hfr j Hj). unfold su2. rewrite slot_get_set_other by congruence.
      apply slot_get_set_other. discriminate.
    + intros u before done post su su0 done' t0 fuel Hpu Hfn Hut Hfu Hx0 Hfr0 Hl Hrel.
      cbn [until_tail] in Hut. destruct (eval (cctx (slot_set before (FN i) (VList done))) u) as [cnd|] eqn:Ec; [|discriminate].
      apply andb_true_iff in Hut as [Hnt Hut]. apply negb_true_iff in Hnt.
      assert (Hx : ext ct (slot_set before (FN i) (VList done)) su).
      { apply (ext_update ct before su0 su i (VList done) (VList done') Hx0 Hfn Hfr0 Hl). apply vrel_list. exact Hrel. }
      destruct (eval_truth_sim ct (cctx (slot_set before (FN i) (VList done))) (mkctx (B' ++ post) su p) u cnd Hx Hpu Ec)
        as (cnd' & Ec' & Ht).
      destruct fuel as [|fuel]; [cbn [length] in Hfu; lia|]. cbn [length] in Hfu.
      cbn [unpack_until]. rewrite Ec', Ht, Hnt, Epa. subst B'. rewrite <- (app_assoc B1 y post).
      destruct (Hu1 (y ++ post) su (ext_nil ct su)) as (v' & t1 & E1 & Hv'). rewrite E1.
      assert (Hev : elem_value (slot_set su (FSeqElem i) v') (FSeqElem i) = v').
      { unfold elem_value. rewrite slot_get_set_same. reflexivity. }
      rewrite Hev. unfold append_to at 1. rewrite slot_get_set_other by discriminate. rewrite Hl.
      set (su2 := slot_set (slot_set su (FSeqElem i) v') (FN i) (VList (done' ++ [v']))).
      assert (Hl2 : slot_get su2 (FN i) = Some (VList (done' ++ [v']))) by apply slot_get_set_same.
      assert (Hfr2 : forall j, j <> i -> slot_get su2 (FN j) = slot_get su0 (FN j)).
      { intros j Hj. unfold su2. rewrite slot_get_set_other by congruence. rewrite slot_get_set_other by discriminate.
        apply Hfr0. exact Hj. }
      destruct (Hw2 u before (done ++ [v]) post su2 su0 (done' ++ [v']) (t0 ++ t1) fuel Hpu Hfn Hut ltac:(lia) Hx0 Hfr2 Hl2
                  (Forall2_snoc _ _ _ _ _ Hrel Hv')) as (su' & l' & t & E2 & Hl' & Hrel' & Hfr).
      rewrite <- (app_assoc B1 y post) in E2. rewrite E2.
      exists su', (v' :: l'), t. split; [reflexivity|].
      split; [rewrite Hl', <- app_assoc; reflexivity|]. split; [constructor; assumption|].
      intros j Hj. rewrite (Hfr j Hj). unfold su2. rewrite slot_get_set_other by congruence.
      apply slot_get_set_other. discriminate.
Qed.

Lemma move_fwd_ok (z : Z) (rf : reference) (al : bool) (p ipp : Z) : move_fwd (MConst z) rf al = true -> 0 <= p ->
  exists p', move_pack al rf z p ipp = Some p' /\ p <= p' /\ al && (z =? 0) = false.
Proof.
  unfold move_fwd. destruct al.
  - intros Hz Hp. apply Z.ltb_lt in Hz. destruct (align_to_min z p (align_start rf p ipp) Hz) as (d & E & Hd & _).
    exists (p + d). unfold move_pack. rewrite E. destruct (Z.ltb_spec (p + d) 0); [lia|].
    split; [reflexivity|]. split; [lia|]. cbn [andb]. apply Z.eqb_neq. lia.
  - destruct rf; try discriminate. intros Hz Hp. apply Z.leb_le in Hz. exists (p + z). unfold move_pack, jump_to.
    destruct (Z.ltb_spec (p + z) 0); [lia|]. split; [reflexivity|]. split; [lia|reflexivity].
Qed.

Definition before_after (f : cfield) (before s : slots) : slots :=
  match f with
  | CMove _ _ _ _ | CEm _ => before
  | _ => match slot_get s (cf_name f) with Some v => slot_set before (cf_name f) v | None => before end
  end.

Lemma ext_of_agree (before s sp : slots) : only_fn before -> sub before s ->
  (forall j, slot_get sp (FN j) = slot_get s (FN j)) -> ext ct before sp.
Proof.
  intros Hfn Hsub Hag f v E. destruct (Hfn f v E) as [j ->]. exists v. split; [|apply vrel_refl].
  rewrite Hag. exact (Hsub _ _ E).
Qed.

Lemma elem_staticx_before (cf : lconf) (e : elem) (b1 b2 : slots) (v : value) :
  elem_static e = true -> elem_consistentx rec_cons cf e b1 v = elem_consistentx rec_cons cf e b2 v.
Proof.
  destruct e as [l|c' p|sel d]; cbn [elem_static]; try discriminate; [|reflexivity].
  destruct l as [n sg fe d|size ic d|m incl d|r incl d|d]; try discriminate; try reflexivity.
  destruct size as [w| | | | | | | | |]; try discriminate. destruct w; try discriminate. reflexivity.
Qed.

Lemma pack_seq_app (cf : lconf) (c : cid) (i : Z) (e : elem) (al : Z) : forall l1 l2 sp fr,
  pack_seq host dl rec_pack cf c i e al (l1 ++ l2) sp fr =
  match pack_seq host dl rec_pack cf c i e al l1 sp fr with
  | KOk s2 fr2 => pack_seq host dl rec_pack cf c i e al l2 s2 fr2
  | x => x
  end.
Proof.
  induction l1 as [|v r IH]; intros l2 sp fr; [reflexivity|]. cbn [app pack_seq].
  destruct (seq_align al (cur fr)) as [pa|]; [|reflexivity].
  destruct (pack_elem host dl rec_pack cf c (FSeqElem i) e (slot_set sp (FSeqElem i) v) (set_cur fr pa)); try reflexivity.
  apply IH.
Qed.

Lemma field_okx (cf : lconf) (c : cid) (f : cfield) (before s : slots) :
  (forall g v, slot_get s g = Some v -> vclean ct v = true) ->
  isb f = false -> field_consistentx rec_cons lf cf f before s = true -> only_fn before -> sub before s ->
  forall B p ipp, blen B <= p ->
  exists B' p', step B p B' p' /\ (TT -> cfield_tight f = true -> p = blen B -> p' = blen B') /\
    (forall sp fr, (forall j, slot_get sp (FN j) = slot_get s (FN j)) -> bx fr B p ->
       exists sp' fr', pack_field host dl rec_pack cf c f sp fr ipp = KOk sp' fr' /\ bx fr' B' p' /\
                       (forall g, (forall j, g <> FSeqElem j) -> (forall j, g <> FOptElem j) -> slot_get sp' g = slot_get sp g)) /\
    (forall post su, ext ct before su ->
       exists su' t,
         unpack_field host (B' ++ post) (rec_unpack (B' ++ post)) lf cf c f su p ipp = FOk su' p' t /\
         ext ct (before_after f before s) su').
Proof.
  intros Hcl Hnb Hc Hfn Hsub B p ipp Hp. pose proof (DataProofs.blen_nonneg B) as HB0.
  destruct f as [i arg rf al|i e|i fi la r0 sh mk nb d|i e count until when d al|i e w d|i];
    cbn [field_consistentx] in Hc; try discriminate Hnb; cbn [before_after cf_name].
  - (* positioning *)
    destruct arg as [z| |]; try discriminate Hc.
    destruct (move_fwd_ok z rf al p ipp Hc ltac:(lia)) as (pm & Em & Hpm & Hz).
    exists B, pm. split; [apply step_move; assumption|]. split; [intros _ H; discriminate H|]. split.
    + intros sp fr _ Hb. cbn [pack_field]. rewrite (bx_cur fr B p Hb), Em. exists sp, (set_cur fr pm).
      split; [reflexivity|]. split; [apply (bx_set_cur fr B p pm Hb Hpm)|reflexivity].
    + intros post su Hx. cbn [unpack_field]. rewrite Hz, <- move_pack_is_move_unpack, Em.
      exists su. eexists. split; [reflexivity|exact Hx].
  - (* one element *)
    destruct (slot_get s (FN i)) as [v|] eqn:Hv; [|discriminate]. apply andb_true_iff in Hc as [Hpl Hc].
    destruct (elem_okx cf c (FN i) e before v Hpl Hc (Hcl _ _ Hv) B p Hp) as (B' & p' & Hst & Hti & Hpk & Hu).
    exists B', p'. split; [exact Hst|]. split; [intros HT _ Hpb; apply Hti; right; split; assumption|]. split.
    + intros sp fr Hag Hb. cbn [pack_field]. rewrite <- (Hag i) in Hv.
      destruct (Hpk sp fr Hv (ext_of_agree before s sp Hfn Hsub Hag) Hb) as (fr' & E & Hb'). exists sp, fr'. auto.
    + intros post su Hx. cbn [unpack_field]. destruct (Hu post su Hx) as (v' & t & E & Hv').
      exists (slot_set su (FN i) v'), t. split; [exact E|]. apply ext_set; assumption.
  - (* repeated field *)
    destruct count as [ce|]; destruct until as [u|]; destruct when as [wh|]; try discriminate Hc.
    + (* counted *)
      repeat (apply andb_true_iff in Hc as [Hc ?]). rename H into Hm, H0 into Hst, H1 into Hple, H2 into Hplc, H3 into Hloc.
      apply Z.leb_le in Hc. rename Hc into Hal.
      destruct (slot_get s (FN i)) as [v|] eqn:Hv; [|discriminate].
      destruct v as [| | | |l| | | | |]; try discriminate.
      destruct (eval_int (cctx (slot_set before (FN i) (VList []))) ce) as [n|] eqn:En; [|discriminate].
      apply andb_true_iff in Hm as [Hlen Hall]. apply Z.eqb_eq in Hlen.
      assert (Hall0 : forallb (elem_consistentx rec_cons cf e []) l = true).
      { rewrite forallb_forall in *. intros x Hx. rewrite (elem_staticx_before cf e [] before x Hst). exact (Hall x Hx). }
      pose proof (Hcl _ _ Hv) as Hvl. rewrite vclean_list in Hvl.
      destruct (seq_okx cf c i e al Hal Hple l Hall0 Hvl B p Hp) as (B' & p' & Hstp & Hti & Hpk & Hu & _).
      exists B', p'. split; [exact Hstp|]. split.
      { intros HT Htf Hpb. apply (Hti HT); [|exact Hpb]. cbn [cfield_tight cfield_seqtight] in Htf.
        apply orb_true_iff in Htf as [H1|H1]; [left; apply Z.eqb_eq; exact H1|right; exact H1]. }
      split.
      * intros sp fr Hag Hb. cbn [pack_field]. rewrite (Hag i), Hv.
        destruct (Hpk sp fr Hb) as (sp' & fr' & E & Hb' & Hfr). exists sp', fr'. split; [exact E|]. split; [exact Hb'|].
        intros g Hg _. apply Hfr. apply Hg.
      * intros post su Hx.
        assert (Hx0 : ext ct (slot_set before (FN i) (VList [])) (slot_set su (FN i) (VList []))).
        { apply ext_set; [exact Hx|apply vrel_refl]. }
        assert (En' : eval_int (mkctx (B' ++ post) (slot_set su (FN i) (VList [])) p) ce = Ok n).
        { exact (eval_int_sim ct (cctx (slot_set before (FN i) (VList [])))
                 (mkctx (B' ++ post) (slot_set su (FN i) (VList [])) p) ce n Hx0 Hplc En). }
        cbn [unpack_field]. rewrite En'.
        replace (Z.to_nat n) with (length l) by lia.
        destruct (Hu post (slot_set su (FN i) (VList [])) [] [] (slot_get_set_same _ _ _)) as (su' & l' & t & E & Hl' & Hrel & Hfr).
        rewrite E. exists su', t. split; [reflexivity|].
        apply (ext_update ct before su su' i (VList l) (VList l') Hx Hfn).
        -- intros j Hj. rewrite (Hfr j Hj). apply slot_get_set_other. congruence.
        -- exact Hl'.
        -- apply vrel_list. exact Hrel.
    + (* until *)
      repeat (apply andb_true_iff in Hc as [Hc ?]). rename H into Hm, H0 into Hst, H1 into Hple, H2 into Hplu, H3 into Hloc.
      apply Z.leb_le in Hc. rename Hc into Hal.
      destruct (slot_get s (FN i)) as [v|] eqn:Hv; [|discriminate].
      destruct v as [| | | |l| | | | |]; try discriminate.
      apply andb_true_iff in Hm as [Hm Hall]. apply andb_true_iff in Hm as [Hlen Hut]. apply Nat.leb_le in Hlen.
      destruct l as [|x r]; [discriminate Hut|]. rewrite until_ok_tail in Hut. cbn [app] in Hut.
      assert (Hall0 : forallb (elem_consistentx rec_cons cf e []) (x :: r) = true).
      { rewrite forallb_forall in *. intros y Hy. rewrite (elem_staticx_before cf e [] before y Hst). exact (Hall y Hy). }
      cbn [forallb] in Hall0. apply andb_true_iff in Hall0 as [Hx1 Hr1].
      assert (Hx1' : forallb (elem_consistentx rec_cons cf e []) [x] = true) by (cbn [forallb]; rewrite Hx1; reflexivity).
      pose proof (Hcl _ _ Hv) as Hvl. rewrite vclean_list in Hvl. cbn [forallb] in Hvl. apply andb_true_iff in Hvl as [Hvx Hvr].
      assert (Hvx' : forallb (vclean ct) [x] = true) by (cbn [forallb]; rewrite Hvx; reflexivity).
      destruct (seq_okx cf c i e al Hal Hple [x] Hx1' Hvx' B p Hp) as (B1 & p1 & Hst1 & Hti1 & Hpk1 & Hu1 & _).
      assert (Hp1 : blen B1 <= p1) by apply Hst1.
      destruct (seq_okx cf c i e al Hal Hple r Hr1 Hvr B1 p1 Hp1) as (B' & p' & Hst2 & Hti2 & Hpk2 & _ & Hw2).
      pose proof Hst2 as ((y & EB' & Hy) & _).
      exists B', p'. split; [apply (step_trans B p B1 p1); assumption|]. split.
      { intros HT Htf Hpb. cbn [cfield_tight cfield_seqtight] in Htf.
        assert (Hor : al = 1 \/ is_leaf e = true).
        { apply orb_true_iff in Htf as [H1|H1]; [left; apply Z.eqb_eq; exact H1|right; exact H1]. }
        apply (Hti2 HT Hor). exact (Hti1 HT Hor Hpb). }
      split.
      * intros sp fr Hag Hb. cbn [pack_field]. rewrite (Hag i), Hv. change (x :: r) with ([x] ++ r). rewrite pack_seq_app.
        destruct (Hpk1 sp fr Hb) as (sp1 & fr1 & E1 & Hb1 & Hfr1). rewrite E1.
        destruct (Hpk2 sp1 fr1 Hb1) as (sp2 & fr2 & E2 & Hb2 & Hfr2). rewrite E2.
        exists sp2, fr2. split; [reflexivity|]. split; [exact Hb2|].
        intros g Hg _. rewrite Hfr2, Hfr1; [reflexivity|apply Hg|apply Hg].
      * intros post su Hx. cbn [unpack_field]. change (Z.to_nat 1) with (length [x]).
        subst B'. rewrite <- (app_assoc B1 y post).
        destruct (Hu1 (y ++ post) (slot_set su (FN i) (VList [])) [] [] (slot_get_set_same _ _ _))
          as (su1 & l1' & t1 & E1 & Hl1 & Hrel1 & Hfr1).
        rewrite E1.
        assert (Hfr1' : forall j, j <> i -> slot_get su1 (FN j) = slot_get su (FN j)).
        { intros j Hj. rewrite (Hfr1 j Hj). apply slot_get_set_other. congruence. }
        destruct (Hw2 u before [x] post su1 su ([] ++ l1') t1 lf Hplu Hfn Hut ltac:(cbn [length] in Hlen; lia) Hx Hfr1' Hl1 Hrel1)
          as (su' & l' & t & E2 & Hl' & Hrel' & Hfr2).
        rewrite <- (app_assoc B1 y post) in E2. rewrite E2. exists su', t. split; [reflexivity|].
        apply (ext_update ct before su su' i (VList (x :: r)) (VList (([] ++ l1') ++ l')) Hx Hfn).
        -- intros j Hj. rewrite (Hfr2 j Hj). apply Hfr1'. exact Hj.
        -- exact Hl'.
        -- apply vrel_list. cbn [app]. change (x :: r) with ([x] ++ r). apply Forall2_app; assumption.
  - (* optional *)
    repeat (apply andb_true_iff in Hc as [Hc ?]). rename H into Hm, H0 into Hple, H1 into Hplw. rename Hc into Hloc.
    destruct (slot_get s (FN i)) as [v|] eqn:Hv; [|discriminate].
    destruct (eval (cctx before) w) as [cv|] eqn:Ew; [|destruct v; discriminate].
    assert (Hcase : (v = VNone /\ truth cv = false) \/
                    (v <> VNone /\ truth cv = true /\ elem_consistentx rec_cons cf e before v = true)).
    { destruct v; try (right; apply andb_true_iff in Hm as [A C]; split; [discriminate|split; assumption]).
      left. split; [reflexivity|]. apply negb_true_iff. exact Hm. }
    destruct Hcase as [[-> Htr]|(Hne & Htr & He)].
    + exists B, p. split; [apply step_refl; exact Hp|]. split; [intros _ _ H; exact H|]. split.
      * intros sp fr Hag Hb. cbn [pack_field]. rewrite (Hag i), Hv. exists sp, fr. auto.
      * intros post su Hx. cbn [unpack_field].
        destruct (eval_truth_sim ct (cctx before) (mkctx (B ++ post) su p) w cv Hx Hplw Ew) as (cv' & Ew' & Ht).
        rewrite Ew', Ht, Htr. exists (slot_set su (FN i) VNone), [].
        split; [reflexivity|]. apply ext_set; [exact Hx|apply vrel_refl].
    + destruct (elem_okx cf c (FOptElem i) e before v Hple He (Hcl _ _ Hv) B p Hp) as (B' & p' & Hst & Hti & Hpk & Hu).
      exists B', p'. split; [exact Hst|]. split; [intros HT _ Hpb; apply Hti; right; split; assumption|]. split.
      * intros sp fr Hag Hb. rewrite <- (Hag i) in Hv. rewrite (pack_opt_some host dl rec_pack cf c i e w d sp fr ipp v Hv Hne).
        assert (Hxs : ext ct before (slot_set sp (FOptElem i) v)).
        { apply (ext_of_agree before s _ Hfn Hsub). intros j. rewrite slot_get_set_other by discriminate. apply Hag. }
        destruct (Hpk (slot_set sp (FOptElem i) v) fr (slot_get_set_same _ _ _) Hxs Hb) as (fr' & E & Hb').
        exists (slot_set sp (FOptElem i) v), fr'. split; [exact E|]. split; [exact Hb'|].
        intros g _ Hg. apply slot_get_set_other. apply Hg.
      * intros post su Hx. cbn [unpack_field].
        destruct (eval_truth_sim ct (cctx before) (mkctx (B' ++ post) su p) w cv Hx Hplw Ew) as (cv' & Ew' & Ht).
        rewrite Ew', Ht, Htr. destruct (Hu post su Hx) as (v' & t & E & Hv'). rewrite E.
        unfold elem_value. rewrite slot_get_set_same.
        eexists. exists t. split; [reflexivity|].
        apply (ext_update ct before su _ i v v' Hx Hfn).
        -- intros j Hj. rewrite slot_get_set_other by congruence. apply slot_get_set_other. discriminate.
        -- apply slot_get_set_same.
        -- exact Hv'.
  - (* the empty marker *)
    destruct (step_emit B [] p Hp (Forall_nil _)) as [Hst Hl].
    assert (E0 : p + blen [] = p) by (rewrite DataProofs.blen_nil; lia). rewrite E0 in Hst, Hl.
    exists (B ++ pad (p - blen B) ++ []), p. split; [exact Hst|]. split; [intros _ _ _; exact Hl|]. split.
    + intros sp fr _ Hb. cbn [pack_field]. destruct (emit_bx sp fr B [] p Hb) as (fr' & E & Hb'). rewrite E0 in Hb'.
      exists sp, fr'. split; [exact E|]. split; [exact Hb'|reflexivity].
    + intros post su Hx. cbn [unpack_field]. exists su. eexists. split; [reflexivity|exact Hx].
Qed.

(* ---- bit runs ---- *)
Definition smof (f : cfield) : Z * Z := match f with CBits _ _ _ _ sh mk _ _ => (sh, mk) | _ => (0, 0) end.
Definition zof (s : slots) (f : cfield) : Z :=
  match f with
  | CBits i _ _ _ _ _ _ _ => match slot_get s (FN i) with Some (VInt z) => z | _ => 0 end
  | _ => 0
  end.
(* what the consistency predicate says of a member *)
Definition mfact (s : slots) (f : cfield) : Prop :=
  match f with
  | CBits i _ _ r0 sh mk nb _ =>
      exists z iv, slot_get s (FN i) = Some (VInt z) /\ 0 <= z < 2 ^ bits_width sh mk /\
                   slot_get s (FBitsI r0) = Some (VInt iv) /\ 0 <= iv < 2 ^ (8 * nb)
  | _ => False
  end.

Lemma members_sm (i0 nb : Z) (n : nat) : forall run' k sm', length sm' = length run' ->
  forallb (fun p => member_ok i0 nb n (fst (fst p)) (snd (fst p)) (snd p))
          (combine (combine (seq k (length run')) run') sm') = true ->
  map smof run' = sm'.
Proof.
  induction run' as [|f r IH]; intros k sm' Hlen H.
  - destruct sm'; [reflexivity|discriminate].
  - destruct sm' as [|q sm'']; [discriminate Hlen|].
    cbn [length seq combine forallb fst snd] in H. apply andb_true_iff in H as [Hm Hr].
    cbn [length] in Hlen. injection Hlen as Hlen.
    destruct f as [| |i bf bl r0 sh mk nbv d| | |]; cbn [member_ok] in Hm; try discriminate.
    repeat (apply andb_true_iff in Hm as [Hm ?]).
    cbn [map smof]. f_equal; [|exact (IH (S k) sm'' Hlen Hr)].
    destruct q as [qs qm]. cbn [fst snd] in *. f_equal; apply Z.eqb_eq; assumption.
Qed.

Lemma run_ok_layout (i0 : Z) (f0 l0 : bool) (r0 sh0 mk0 nb : Z) (d0 : value) (r : list cfield) :
  let run := CBits i0 f0 l0 r0 sh0 mk0 nb d0 :: r in
  run_ok run = true ->
  map smof run = layout (map cf_width run) /\
  bits_compile (map cf_width run) = Some (layout (map cf_width run), nb) /\
  Forall (fun w => 0 <= w) (map cf_width run).
Proof.
  intros run H. unfold run_ok in H. fold run in H. cbv zeta in H.
  change (map (fun f => match f with CBits _ _ _ _ shift mask _ _ => bits_width shift mask | _ => 0 end) run)
    with (map cf_width run) in H.
  destruct (bits_compile (map cf_width run)) as [[sm nb']|] eqn:Ec; [|discriminate].
  pose proof Ec as Ec'. apply bits_compile_inv in Ec' as [-> Hz].
  apply andb_true_iff in H as [H Hall]. apply andb_true_iff in H as [Hnb Hlen].
  apply Z.eqb_eq in Hnb. subst nb'. apply Z.eqb_eq in Hlen. apply Nat2Z.inj in Hlen.
  split; [exact (members_sm i0 nb (length run) run 0%nat _ Hlen Hall)|]. split; [reflexivity|].
  destruct (members_aux i0 nb (length run) run 0%nat (layout (map cf_width run)) Hlen eq_refl (layout_shifted _) Hall) as [_ Hw].
  apply Forall_forall. intros w Hin. apply in_map_iff in Hin as (f & <- & Hf).
  rewrite Forall_forall in Hw. specialize (Hw f Hf). cbv beta in Hw. lia.
Qed.

Lemma run_arith (zf : cfield -> Z) (run : list cfield) (nb iv : Z) :
  map smof run = layout (map cf_width run) ->
  bits_compile (map cf_width run) = Some (layout (map cf_width run), nb) ->
  Forall (fun w => 0 <= w) (map cf_width run) -> 0 <= iv < 2 ^ (8 * nb) ->
  (forall f, In f run -> 0 <= zf f < 2 ^ cf_width f) ->
  let R := bits_pack_all iv (map smof run) (map zf run) in
  0 <= R < 2 ^ (8 * nb) /\ forall f, In f run -> bits_get R (snd (smof f)) (fst (smof f)) = zf f.
Proof.
  intros Hsm Hbc Hws Hiv Hz R.
  destruct (bits_pack_all_spec (map cf_width run) (layout (map cf_width run)) nb (map zf run) iv Hws Hbc
              ltac:(rewrite !map_length; reflexivity) Hiv) as [Hr Hn].
  unfold R. rewrite Hsm. split; [exact Hr|].
  intros f Hin. destruct (In_nth_error run f Hin) as [k Hk].
  pose proof (Hn k (cf_width f) (zf f) (map_nth_error cf_width k run Hk) (map_nth_error zf k run Hk)) as Hg.
  assert (Hs : nth_error (layout (map cf_width run)) k = Some (smof f)).
  { rewrite <- Hsm. exact (map_nth_error smof k run Hk). }
  destruct (smof f) as [sh mk] eqn:Esm. rewrite (unpack_nth _ _ k sh mk Hs) in Hg. injection Hg as Hg.
  cbn [fst snd]. rewrite Hg. apply Z.mod_small. exact (Hz f Hin).
Qed.

Lemma run_consistent (cf : lconf) (s : slots) (rest : list cfield) : forall ms before,
  Forall (fun f => isb f = true) ms -> fields_consistentx rec_cons lf cf (ms ++ rest) before s = true ->
  only_fn before -> sub before s ->
  exists before', fields_consistentx rec_cons lf cf rest before' s = true /\ only_fn before' /\ sub before' s /\
    Forall (mfact s) ms /\
    (forall f v, slot_get before' f = Some v -> (exists i, In i (fidxs ms) /\ f = FN i) \/ slot_get before f = Some v) /\
    (forall g, slot_get before g <> None -> slot_get before' g <> None) /\
    (forall j, In j (fidxs ms) -> slot_get before' (FN j) <> None).
Proof.
  induction ms as [|f r IH]; intros before Hb Hc Hfn Hsub.
  - exists before. split; [exact Hc|]. split; [exact Hfn|]. split; [exact Hsub|]. split; [constructor|].
    split; [intros f v H; right; exact H|]. split; [auto|]. intros j [].
  - pose proof (Forall_inv Hb) as Hbf. pose proof (Forall_inv_tail Hb) as Hbr.
    destruct f as [| |i bf bl r0 sh mk nb d| | |]; try discriminate Hbf.
    cbn [app fields_consistentx] in Hc. apply andb_true_iff in Hc as [Hcf Hcr]. cbn [cf_name] in Hcr.
    cbn [field_consistentx] in Hcf.
    destruct (slot_get s (FN i)) as [v|] eqn:Hv; [|discriminate].
    destruct v as [z| | | | | | | | |]; try discriminate.
    destruct (slot_get s (FBitsI r0)) as [w|] eqn:Hw; [|discriminate].
    destruct w as [iv| | | | | | | | |]; try discriminate.
    repeat (apply andb_true_iff in Hcf as [Hcf ?]). apply Z.leb_le in Hcf, H0. apply Z.ltb_lt in H, H1.
    destruct (IH (slot_set before (FN i) (VInt z)) Hbr Hcr (only_fn_set _ _ _ Hfn) (sub_set _ _ _ _ Hsub Hv))
      as (before' & Hc' & Hfn' & Hsub' & Hm & Hor & Hdef & Hmem).
    assert (Hdef1 : forall g, slot_get before g <> None -> slot_get before' g <> None).
    { intros g Hg. apply Hdef. rewrite slot_get_set. destruct (fname_eqb g (FN i)); [discriminate|exact Hg]. }
    exists before'. split; [exact Hc'|]. split; [exact Hfn'|]. split; [exact Hsub'|]. split; [|split; [|split; [exact Hdef1|]]].
    + constructor; [|exact Hm]. cbn [mfact]. exists z, iv. rewrite Hv, Hw. repeat split; assumption.
    + intros f v E. unfold fidxs. cbn [flat_map fidx app]. fold (fidxs r).
      destruct (Hor f v E) as [(j & Hj & ->)|E'].
      * left. exists j. split; [right; exact Hj|reflexivity].
      * rewrite slot_get_set in E'. destruct (fname_eqb_spec f (FN i)) as [->|_].
        -- left. exists i. split; [left; reflexivity|reflexivity].
        -- right. exact E'.
    + intros j Hj. unfold fidxs in Hj. cbn [flat_map fidx app] in Hj. fold (fidxs r) in Hj. destruct Hj as [<-|Hj]; [|exact (Hmem j Hj)].
      apply Hdef. rewrite slot_get_set_same. discriminate.
Qed.

Lemma pack_run_x (cf : lconf) (c : cid) (run0 nb : Z) (rest : list cfield) (ipp : Z) (fr fr1 : frs) (b : bytes) (s : slots) :
  append fr b = Frag.Ok fr1 -> forall ms I sp bf0,
  ms <> [] -> mem_ok run0 nb bf0 ms -> slot_get sp (FBitsI run0) = Some (VInt I) ->
  (forall j, slot_get sp (FN j) = slot_get s (FN j)) -> Forall (mfact s) ms ->
  encode nb false true (bits_pack_all I (map smof ms) (map (zof s) ms)) = Some b ->
  exists sp', (forall g, g <> FBitsI run0 -> slot_get sp' g = slot_get sp g) /\
    pack_fields host dl rec_pack cf c (ms ++ rest) sp fr ipp = pack_fields host dl rec_pack cf c rest sp' fr1 ipp.
Proof.
  intros Happ. induction ms as [|f r IH]; intros I sp bf0 Hne Hm G Hag Hmf Henc; [congruence|].
  destruct f as [| |i bf bl r0 sh mk nbv d| | |]; try contradiction.
  cbn [mem_ok] in Hm. destruct Hm as (_ & Hbl & -> & -> & Hsh & _ & Hr).
  pose proof (Forall_inv Hmf) as Hf. pose proof (Forall_inv_tail Hmf) as Hfr. cbn [mfact] in Hf.
  destruct Hf as (z & iv & Hz & _ & _ & _).
  cbn [map smof zof bits_pack_all] in Henc. rewrite Hz in Henc.
  cbn [app pack_fields pack_field]. rewrite G, (Hag i), Hz. cbn [as_int]. cbv zeta.
  destruct r as [|f' r'].
  - subst bl. cbn [map bits_pack_all] in Henc. rewrite Henc. unfold emit. rewrite Happ. cbn [app].
    exists (slot_set sp (FBitsI run0) (VInt (bits_put I z mk sh))). split; [|reflexivity].
    intros g Hg. apply slot_get_set_other. exact Hg.
  - subst bl.
    destruct (IH (bits_put I z mk sh) (slot_set sp (FBitsI run0) (VInt (bits_put I z mk sh))) false ltac:(discriminate) Hr
                (slot_get_set_same _ _ _)) as (sp' & Hfr' & E).
    + intros j. rewrite slot_get_set_other by discriminate. apply Hag.
    + exact Hfr.
    + exact Henc.
    + exists sp'. split; [|exact E]. intros g Hg. rewrite (Hfr' g Hg). apply slot_get_set_other. exact Hg.
Qed.

Lemma run_okx (cf : lconf) (c : cid) (s : slots) (i0 : Z) (bf0 bl0 : bool) (r0 sh0 mk0 nb : Z) (d0 : value) (run' : list cfield) :
  let run := CBits i0 bf0 bl0 r0 sh0 mk0 nb d0 :: run' in
  run_ok run = true -> NoDup (fidxs run) -> Forall (fun f => isb f = true) run -> Forall (mfact s) run ->
  forall B p, blen B <= p ->
  exists B' p', step B p B' p' /\ p' = blen B' /\
    (forall sp fr ipp rest, (forall j, slot_get sp (FN j) = slot_get s (FN j)) ->
       slot_get sp (FBitsI i0) = slot_get s (FBitsI i0) -> bx fr B p ->
       exists sp' fr', bx fr' B' p' /\ (forall g, g <> FBitsI i0 -> slot_get sp' g = slot_get sp g) /\
         pack_fields host dl rec_pack cf c (run ++ rest) sp fr ipp = pack_fields host dl rec_pack cf c rest sp' fr' ipp) /\
    (forall post su ipp t0 rest, exists su' t,
       unpack_fields host (B' ++ post) (rec_unpack (B' ++ post)) lf cf c (run ++ rest) su p ipp t0 =
       unpack_fields host (B' ++ post) (rec_unpack (B' ++ post)) lf cf c rest su' p' ipp t /\
       (forall g, g <> FBitsI i0 -> (forall j, In j (fidxs run) -> g <> FN j) -> slot_get su' g = slot_get su g) /\
       (forall j, In j (fidxs run) -> slot_get su' (FN j) = slot_get s (FN j))).
Proof.
  intros run Hro Hnd Hbr Hmf B p Hp. pose proof (DataProofs.blen_nonneg B) as HB0.
  destruct (run_ok_mem _ _ _ _ _ _ _ _ _ Hro) as [Hm Hnb]. fold run in Hm.
  destruct (run_ok_layout _ _ _ _ _ _ _ _ _ Hro) as (Hsm & Hbc & Hws). fold run in Hsm, Hbc, Hws.
  pose proof Hm as Hm0. cbn [run mem_ok] in Hm0. destruct Hm0 as (-> & _ & -> & _ & _ & _ & Hm').
  pose proof (Forall_inv Hmf) as Hf0. cbn [mfact] in Hf0. destruct Hf0 as (z0 & iv & Hz0 & _ & Hiv & Hivr).
  assert (Hzr : forall f, In f run -> 0 <= zof s f < 2 ^ cf_width f).
  { intros f Hin. rewrite Forall_forall in Hmf. specialize (Hmf f Hin).
    destruct f as [| |i bf bl r1 sh mk nbv d| | |]; try contradiction. cbn [mfact] in Hmf.
    destruct Hmf as (z & iv' & Hz & Hr & _). cbn [zof cf_width]. rewrite Hz. exact Hr. }
  destruct (run_arith (zof s) run nb iv Hsm Hbc Hws Hivr Hzr) as [HR Hget]. cbv zeta in HR, Hget.
  set (R := bits_pack_all iv (map smof run) (map (zof s) run)) in *.
  destruct (decode_encode nb false true R Hnb HR) as (bs & Eenc & Hlen & Hwf & Edec).
  destruct (step_emit B bs p Hp Hwf) as [Hst Hl].
  exists (B ++ pad (p - blen B) ++ bs), (p + blen bs). split; [exact Hst|]. split; [exact Hl|]. split.
  - intros sp fr ipp rest Hag Hbi Hb. destruct (bx_append fr B bs p Hb) as (fr' & Eapp & Hb').
    rewrite Hiv in Hbi.
    destruct (pack_run_x cf c i0 nb rest ipp fr fr' bs s Eapp run iv sp true ltac:(discriminate) Hm Hbi Hag Hmf Eenc)
      as (sp' & Hfr & E).
    exists sp', fr'. split; [exact Hb'|]. split; [exact Hfr|exact E].
  - intros post su ipp t0 rest.
    assert (Hpre : blen (B ++ pad (p - blen B)) = p). { rewrite DataProofs.blen_app, blen_pad by lia. lia. }
    replace ((B ++ pad (p - blen B) ++ bs) ++ post) with ((B ++ pad (p - blen B)) ++ bs ++ post)
      by (rewrite <- !app_assoc; reflexivity).
    set (raw := (B ++ pad (p - blen B)) ++ bs ++ post).
    assert (Ei : int_unpack nb false true raw p = Some (R, p + blen bs)).
    { assert (Hs : slice raw p (p + nb) = bs).
      { unfold raw. rewrite <- Hlen. pose proof (slice_mid (B ++ pad (p - blen B)) bs post) as S. rewrite Hpre in S. exact S. }
      unfold int_unpack. rewrite Hs, Edec, Hlen. reflexivity. }
    cbn [run app unpack_fields]. rewrite unpack_bits_first, Ei.
    rewrite (unpack_tail host raw (rec_unpack raw) lf cf c i0 nb R rest (p + blen bs) ipp run' _ _ Hm')
      by (rewrite slot_get_set_other by discriminate; apply slot_get_set_same).
    change (set_members R run' (slot_set (slot_set su (FBitsI i0) (VInt R)) (FN i0) (VInt (bits_get R mk0 sh0))))
      with (set_members R run (slot_set su (FBitsI i0) (VInt R))).
    eexists. eexists. split; [reflexivity|]. split.
    + intros g Hg1 Hg2. rewrite set_members_other by exact Hg2. apply slot_get_set_other. exact Hg1.
    + intros j Hj. pose proof (set_members_get R run (slot_set su (FBitsI i0) (VInt R)) Hnd Hbr) as Hms.
      unfold fidxs in Hj. apply in_flat_map in Hj as (f & Hin & Hjf).
      rewrite Forall_forall in Hms, Hmf. specialize (Hms f Hin). specialize (Hmf f Hin). specialize (Hget f Hin).
      destruct f as [| |i bf bl r1 sh mk nbv d| | |]; try contradiction.
      cbn [fidx] in Hjf. destruct Hjf as [<-|[]]. cbn [mslot] in Hms. cbn [mfact] in Hmf.
      destruct Hmf as (z & iv' & Hz & _). cbn [smof fst snd zof] in Hget. rewrite Hz in Hget.
      rewrite Hms, Hget, Hz. reflexivity.
Qed.

(* ---- the field loop ---- *)
Definition novalue (f : cfield) : bool := match f with CMove _ _ _ _ | CEm _ => true | _ => false end.
Definition vidx (f : cfield) : list Z := if novalue f then [] else fidx f.
(* the names no field of the list sets when parsing *)
Definition frx (f : cfield) (g : fname) : Prop :=
  match g with FN j => ~ In j (vidx f) | FShift _ => True | _ => False end.

Lemma vidx_in (r : list cfield) (f : cfield) (j : Z) : In f r -> In j (vidx f) -> In j (fidxs r).
Proof.
  intros Hf Hj. unfold fidxs. apply in_flat_map. exists f. split; [exact Hf|].
  unfold vidx in Hj. destruct (novalue f); [contradiction|exact Hj].
Qed.

Lemma novalue_name_frx (f0 : cfield) (r : list cfield) : novalue f0 = true -> NoDup (fidx f0 ++ fidxs r) ->
  forall f, In f r -> frx f (cf_name f0).
Proof.
  intros Hn Hnd f Hf. destruct f0; try discriminate Hn; cbn [cf_name frx]; [exact I|].
  intros Hin. pose proof (vidx_in r f i Hf Hin) as Hi. cbn [fidx app] in Hnd. inversion Hnd as [|? ? Hni _]; subst. exact (Hni Hi).
Qed.

Lemma head_frame (cf : lconf) (c : cid) (raw : bytes) (f : cfield) (su : slots) (p ipp : Z) (su1 : slots) (p1 : Z) (t1 : trace) (g : fname) :
  unpack_field host raw (rec_unpack raw) lf cf c f su p ipp = FOk su1 p1 t1 -> frx f g -> slot_get su1 g = slot_get su g.
Proof.
  intros E Hg. destruct (novalue f) eqn:En.
  - destruct f; try discriminate En.
    + apply (unpack_field_frame host raw (rec_unpack raw) lf cf c _ su p ipp su1 p1 t1 g E).
      destruct g; try contradiction; cbn [fr_ok fidx]; auto.
    + cbn [unpack_field] in E. injection E as <- _ _. reflexivity.
  - apply (unpack_field_frame host raw (rec_unpack raw) lf cf c f su p ipp su1 p1 t1 g E).
    unfold frx, vidx in Hg. rewrite En in Hg. destruct g; try contradiction; cbn [fr_ok]; auto.
Qed.

Lemma fields_cons_step (cf : lconf) (f : cfield) (r : list cfield) (before s : slots) :
  fields_consistentx rec_cons lf cf (f :: r) before s = true ->
  field_consistentx rec_cons lf cf f before s = true /\
  fields_consistentx rec_cons lf cf r (before_after f before s) s = true /\
  (only_fn before -> only_fn (before_after f before s)) /\
  (sub before s -> sub (before_after f before s) s) /\
  (forall g, slot_get before g <> None -> slot_get (before_after f before s) g <> None) /\
  (novalue f = false -> slot_get (before_after f before s) (cf_name f) = slot_get s (cf_name f) /\
                        slot_get s (cf_name f) <> None).
Proof.
  cbn [fields_consistentx]. intros H. apply andb_true_iff in H as [Hf Hr]. split; [exact Hf|].
  assert (Hgen : forall i, cf_name f = FN i -> novalue f = false ->
            match slot_get s (FN i) with Some v => fields_consistentx rec_cons lf cf r (slot_set before (FN i) v) s | None => false end = true ->
            before_after f before s = match slot_get s (FN i) with Some v => slot_set before (FN i) v | None => before end ->
            fields_consistentx rec_cons lf cf r (before_after f before s) s = true /\
            (only_fn before -> only_fn (before_after f before s)) /\
            (sub before s -> sub (before_after f before s) s) /\
            (forall g, slot_get before g <> None -> slot_get (before_after f before s) g <> None) /\
            (novalue f = false -> slot_get (before_after f before s) (cf_name f) = slot_get s (cf_name f) /\
                                  slot_get s (cf_name f) <> None)).
  { intros i Hn Hnv Hr' ->. rewrite Hn. destruct (slot_get s (FN i)) as [v|] eqn:Hv; [|discriminate].
    split; [exact Hr'|]. split; [apply only_fn_set|]. split; [intros Hs; apply sub_set; assumption|]. split.
    - intros g Hg. rewrite slot_get_set. destruct (fname_eqb g (FN i)); [discriminate|exact Hg].
    - intros _. rewrite slot_get_set_same. split; [reflexivity|discriminate]. }
  destruct f as [i arg rf al|i e|i fi la r0 sh mk nb d|i e count until when d al|i e w d|i].
  - cbn [before_after]. split; [exact Hr|]. split; [auto|]. split; [auto|]. split; [auto|]. discriminate.
  - exact (Hgen i eq_refl eq_refl Hr eq_refl).
  - exact (Hgen i eq_refl eq_refl Hr eq_refl).
  - exact (Hgen i eq_refl eq_refl Hr eq_refl).
  - exact (Hgen i eq_refl eq_refl Hr eq_refl).
  - cbn [before_after]. split; [exact Hr|]. split; [auto|]. split; [auto|]. split; [auto|]. discriminate.
Qed.

Lemma novalue_name (f : cfield) : novalue f = true ->
  (exists i, cf_name f = FShift i) \/ (exists i, cf_name f = FN i /\ In i (fidx f)).
Proof.
  destruct f; try discriminate; intros _; cbn [cf_name fidx]; [left|right]; eexists; [reflexivity|split; [reflexivity|left; reflexivity]].
Qed.
Lemma novalue_self_frx (f : cfield) : novalue f = true -> frx f (cf_name f).
Proof. destruct f; try discriminate; intros _; cbn; auto. Qed.
Lemma novalue_name_frx2 (f f' : cfield) (r : list cfield) : novalue f' = true -> In f' r ->
  (forall x, In x (fidx f) -> ~ In x (fidxs r)) -> frx f (cf_name f').
Proof.
  intros Hn Hin Hd. destruct (novalue_name f' Hn) as [[i ->]|(i & -> & Hi)]; [exact I|].
  cbn [frx]. intros Hv. unfold vidx in Hv. destruct (novalue f); [contradiction|].
  apply (Hd i Hv). unfold fidxs. apply in_flat_map. exists f'. split; assumption.
Qed.

Lemma fields_okx (cf : lconf) (c : cid) (s : slots) :
  (forall g v, slot_get s g = Some v -> vclean ct v = true) -> forall n fs before,
  runs_ok n fs = true -> NoDup (fidxs fs) -> fields_consistentx rec_cons lf cf fs before s = true ->
  only_fn before -> sub before s ->
  forall B p ipp, blen B <= p ->
  exists B' p', step B p B' p' /\ (TT -> forallb cfield_tight fs = true -> p = blen B -> p' = blen B') /\
    (forall sp fr, (forall j, slot_get sp (FN j) = slot_get s (FN j)) ->
       (forall j, In j (fidxs fs) -> slot_get sp (FBitsI j) = slot_get s (FBitsI j)) -> bx fr B p ->
       exists v fr', pack_fields host dl rec_pack cf c fs sp fr ipp = QOk v fr' /\ bx fr' B' p') /\
    (forall post su t0, ext ct before su ->
       exists su' t,
         unpack_fields host (B' ++ post) (rec_unpack (B' ++ post)) lf cf c fs su p ipp t0 = POk (VPkt c su') p' t /\
         ext ct before su' /\
         (forall g, (forall f, In f fs -> frx f g) -> slot_get su' g = slot_get su g) /\
         (forall f, In f fs -> if novalue f then slot_get su' (cf_name f) = slot_get su (cf_name f)
                               else exists v v', slot_get s (cf_name f) = Some v /\ slot_get su' (cf_name f) = Some v' /\ vrel ct v' v)).
Proof.
  intros Hcl.
  assert (Hnil : forall before B p ipp, blen B <= p ->
    exists B' p', step B p B' p' /\ (TT -> forallb cfield_tight [] = true -> p = blen B -> p' = blen B') /\
    (forall sp fr, (forall j, slot_get sp (FN j) = slot_get s (FN j)) ->
       (forall j, In j (fidxs []) -> slot_get sp (FBitsI j) = slot_get s (FBitsI j)) -> bx fr B p ->
       exists v fr', pack_fields host dl rec_pack cf c [] sp fr ipp = QOk v fr' /\ bx fr' B' p') /\
    (forall post su t0, ext ct before su ->
       exists su' t,
         unpack_fields host (B' ++ post) (rec_unpack (B' ++ post)) lf cf c [] su p ipp t0 = POk (VPkt c su') p' t /\
         ext ct before su' /\
         (forall g, (forall f, In f [] -> frx f g) -> slot_get su' g = slot_get su g) /\
         (forall f, In f [] -> if novalue f then slot_get su' (cf_name f) = slot_get su (cf_name f)
                               else exists v v', slot_get s (cf_name f) = Some v /\ slot_get su' (cf_name f) = Some v' /\ vrel ct v' v))).
  { intros before B p ipp Hp. exists B, p. split; [apply step_refl; exact Hp|]. split; [intros _ _ H; exact H|]. split.
    - intros sp fr _ _ Hb. cbn [pack_fields]. exists (VPkt c sp), fr. auto.
    - intros post su t0 Hx. cbn [unpack_fields]. exists su, t0. split; [reflexivity|]. split; [exact Hx|].
      split; [reflexivity|]. intros f []. }
  induction n as [|n IH]; intros fs before Hro Hnd Hc Hfn Hsub B p ipp Hp.
  { destruct fs; [|discriminate Hro]. apply Hnil. exact Hp. }
  destruct fs as [|f r]; [apply Hnil; exact Hp|]. destruct (isb f) eqn:Eb.
  - (* a bit run *)
    destruct f as [| |i0 bf0 bl0 r0 sh0 mk0 nb d0| | |]; try discriminate Eb.
    cbn [runs_ok take_run] in Hro. destruct (take_run r) as [run' rest] eqn:Et. cbv beta iota zeta in Hro.
    apply andb_true_iff in Hro as [Hrun Hrest].
    destruct (take_run_spec r run' rest Et) as [-> Hbr'].
    set (f := CBits i0 bf0 bl0 r0 sh0 mk0 nb d0) in *. set (run := f :: run') in *.
    assert (Hbrun : Forall (fun f => isb f = true) run) by (constructor; [reflexivity|exact Hbr']).
    assert (Hfx : fidxs (f :: run' ++ rest) = fidxs run ++ fidxs rest).
    { unfold fidxs. rewrite <- flat_map_app. reflexivity. }
    rewrite Hfx in Hnd.
    destruct (nodup_app_disj _ _ Hnd) as [Hndr Hdisj]. pose proof (nodup_app_l _ _ Hnd) as Hndrun.
    assert (Hi0 : In i0 (fidxs run)) by (unfold fidxs; cbn [run flat_map f fidx app]; left; reflexivity).
    change (f :: run' ++ rest) with (run ++ rest) in Hc.
    destruct (run_consistent cf s rest run before Hbrun Hc Hfn Hsub) as (before' & Hc' & Hfn' & Hsub' & Hmf & Hor & Hdef & Hmem).
    destruct (run_okx cf c s i0 bf0 bl0 r0 sh0 mk0 nb d0 run' Hrun Hndrun Hbrun Hmf B p Hp) as (B1 & p1 & Hst1 & Hl1 & Hpk1 & Hu1).
    assert (Hp1 : blen B1 <= p1) by apply Hst1.
    destruct (IH rest before' Hrest Hndr Hc' Hfn' Hsub' B1 p1 ipp Hp1) as (B' & p' & Hst2 & Hti2 & Hpk2 & Hu2).
    pose proof Hst2 as ((y & EB' & Hy) & _).
    exists B', p'. split; [apply (step_trans B p B1 p1); assumption|]. split.
    { intros HT Htf _. change (f :: run' ++ rest) with (run ++ rest) in Htf. rewrite forallb_app in Htf.
      apply andb_true_iff in Htf as [_ Ht2]. exact (Hti2 HT Ht2 Hl1). }
    split.
    + intros sp fr Hag Hbi Hb. rewrite Hfx in Hbi.
      destruct (Hpk1 sp fr ipp rest Hag (Hbi i0 (in_or_app _ _ _ (or_introl Hi0))) Hb) as (sp1 & fr1 & Hb1 & Hfr1 & E1).
      unfold f. cbn [app] in E1. rewrite E1.
      apply (Hpk2 sp1 fr1); [| |exact Hb1].
      * intros j. rewrite Hfr1 by discriminate. apply Hag.
      * intros j Hj. rewrite Hfr1.
        -- apply Hbi. apply in_or_app. right. exact Hj.
        -- intros E. injection E as ->. exact (Hdisj i0 Hi0 Hj).
    + intros post su t0 Hx. subst B'. rewrite <- (app_assoc B1 y post).
      destruct (Hu1 (y ++ post) su ipp t0 rest) as (su1 & t1 & E1 & Hfr1 & Hmem1).
      unfold f. cbn [app] in E1. rewrite E1.
      assert (Hx1 : ext ct before' su1).
      { intros g w Eg. destruct (Hfn' g w Eg) as [j ->]. destruct (in_dec Z.eq_dec j (fidxs run)) as [Hin|Hnin].
        - exists w. split; [rewrite (Hmem1 j Hin); exact (Hsub' _ _ Eg)|apply vrel_refl].
        - destruct (Hor _ _ Eg) as [(j' & Hj' & Ej)|Eb0].
          + injection Ej as ->. contradiction.
          + destruct (Hx _ _ Eb0) as (w' & Ew' & Hrel). exists w'. split; [|exact Hrel].
            rewrite Hfr1; [exact Ew'|discriminate|]. intros j' Hj' Ej. injection Ej as ->. contradiction. }
      destruct (Hu2 post su1 t1 Hx1) as (su' & t & E2 & Hx2 & Hfr2 & Hall2).
      rewrite <- (app_assoc B1 y post) in E2. rewrite E2.
      exists su', t. split; [reflexivity|].
      assert (Hxb : ext ct before su').
      { intros g w Eg. assert (Hd : slot_get before' g <> None) by (apply Hdef; congruence).
        destruct (slot_get before' g) as [w'|] eqn:Eg'; [|congruence].
        pose proof (Hsub' _ _ Eg') as Es1. pose proof (Hsub _ _ Eg) as Es. assert (w' = w) by congruence. subst w'.
        exact (Hx2 g w Eg'). }
      split; [exact Hxb|]. split.
      * intros g Hg. change (forall f0, In f0 (run ++ rest) -> frx f0 g) in Hg.
        rewrite (Hfr2 g) by (intros f' Hf'; apply Hg; apply in_or_app; right; exact Hf').
        apply Hfr1.
        -- pose proof (Hg f (in_or_app run rest f (or_introl (or_introl eq_refl)))) as H0.
           destruct g; try contradiction; discriminate.
        -- intros j Hj ->. unfold fidxs in Hj. apply in_flat_map in Hj as (f' & Hf' & Hjf).
           pose proof (Hg f' (in_or_app run rest f' (or_introl Hf'))) as H0. cbn [frx] in H0. apply H0.
           rewrite Forall_forall in Hbrun. specialize (Hbrun f' Hf'). unfold vidx.
           destruct f'; try discriminate Hbrun. exact Hjf.
      * intros f' Hin. change (In f' (run ++ rest)) in Hin. apply in_app_or in Hin as [Hin|Hin].
        -- pose proof Hbrun as Hbrun'. rewrite Forall_forall in Hbrun'. specialize (Hbrun' f' Hin).
           destruct f' as [| |i bf bl r1 sh mk nbv d| | |]; try discriminate Hbrun'. cbn [novalue cf_name].
           assert (Hi : In i (fidxs run)).
           { unfold fidxs. apply in_flat_map. eexists. split; [exact Hin|]. left. reflexivity. }
           pose proof (Hmem i Hi) as Hne. destruct (slot_get before' (FN i)) as [v|] eqn:Ev; [|congruence].
           destruct (Hx2 _ _ Ev) as (v' & Ev' & Hrel). exists v, v'. split; [exact (Hsub' _ _ Ev)|]. split; assumption.
        -- specialize (Hall2 f' Hin). destruct (novalue f') eqn:Env; [|exact Hall2]. rewrite Hall2.
           destruct (novalue_name f' Env) as [[i ->]|(i & -> & Hi)].
           ++ apply Hfr1; [discriminate|]. intros; discriminate.
           ++ apply Hfr1; [discriminate|]. intros j Hj E. injection E as ->. apply (Hdisj j Hj).
              unfold fidxs. apply in_flat_map. exists f'. split; assumption.
  - (* any other field *)
    rewrite (runs_ok_nonbits n f r Eb) in Hro.
    unfold fidxs in Hnd. cbn [flat_map] in Hnd. fold (fidxs r) in Hnd.
    destruct (nodup_app_disj _ _ Hnd) as [Hndr Hdisj].
    destruct (fields_cons_step cf f r before s Hc) as (Hcf & Hcr & Hfn1 & Hsub1 & Hdef1 & Hnv1).
    specialize (Hfn1 Hfn). specialize (Hsub1 Hsub).
    destruct (field_okx cf c f before s Hcl Eb Hcf Hfn Hsub B p ipp Hp) as (B1 & p1 & Hst1 & Hti1 & Hpk1 & Hu1).
    assert (Hp1 : blen B1 <= p1) by apply Hst1.
    destruct (IH r (before_after f before s) Hro Hndr Hcr Hfn1 Hsub1 B1 p1 ipp Hp1) as (B' & p' & Hst2 & Hti2 & Hpk2 & Hu2).
    pose proof Hst2 as ((y & EB' & Hy) & _).
    exists B', p'. split; [apply (step_trans B p B1 p1); assumption|]. split.
    { intros HT Htf Hpb. cbn [forallb] in Htf. apply andb_true_iff in Htf as [Ht1 Ht2].
      apply (Hti2 HT Ht2). exact (Hti1 HT Ht1 Hpb). }
    split.
    + intros sp fr Hag Hbi Hb. cbn [pack_fields]. destruct (Hpk1 sp fr Hag Hb) as (sp1 & fr1 & E1 & Hb1 & Hk). rewrite E1.
      apply (Hpk2 sp1 fr1); [| |exact Hb1].
      * intros j. rewrite Hk by (intros; discriminate). apply Hag.
      * intros j Hj. rewrite Hk by (intros; discriminate). apply Hbi. unfold fidxs. cbn [flat_map]. apply in_or_app. right. exact Hj.
    + intros post su t0 Hx. cbn [unpack_fields]. subst B'. rewrite <- (app_assoc B1 y post).
      destruct (Hu1 (y ++ post) su Hx) as (su1 & t1 & E1 & Hx1). rewrite E1.
      destruct (Hu2 post su1 (t0 ++ t1) Hx1) as (su' & t & E2 & Hx2 & Hfr2 & Hall2).
      rewrite <- (app_assoc B1 y post) in E2. rewrite E2.
      exists su', t. split; [reflexivity|].
      assert (Hxb : ext ct before su').
      { intros g w Eg. assert (Hd : slot_get (before_after f before s) g <> None) by (apply Hdef1; congruence).
        destruct (slot_get (before_after f before s) g) as [w'|] eqn:Eg'; [|congruence].
        pose proof (Hsub1 _ _ Eg') as Es1. pose proof (Hsub _ _ Eg) as Es. assert (w' = w) by congruence. subst w'.
        exact (Hx2 g w Eg'). }
      split; [exact Hxb|]. split.
      * intros g Hg. rewrite (Hfr2 g) by (intros f' Hf'; apply Hg; right; exact Hf').
        apply (head_frame cf c _ f su p ipp su1 p1 t1 g E1). apply Hg. left. reflexivity.
      * intros f' [<-|Hin].
        -- destruct (novalue f) eqn:Env.
           ++ rewrite (Hfr2 (cf_name f)) by (apply (novalue_name_frx f r Env Hnd)).
              apply (head_frame cf c _ f su p ipp su1 p1 t1 _ E1). apply novalue_self_frx. exact Env.
           ++ destruct (Hnv1 eq_refl) as [Hb1' Hs1]. destruct (slot_get s (cf_name f)) as [v|] eqn:Hv; [|congruence].
              destruct (Hx2 (cf_name f) v Hb1') as (v' & Ev' & Hrel). exists v, v'. auto.
        -- specialize (Hall2 f' Hin). destruct (novalue f') eqn:Env'; [|exact Hall2]. rewrite Hall2.
           apply (head_frame cf c _ f su p ipp su1 p1 t1 _ E1). exact (novalue_name_frx2 f f' r Env' Hin Hdisj).
Qed.
End LevelX.

(* ------------------------------------------------------------------------------------------ *)
(** * All levels: induction on the fuel                                                        *)
(* ------------------------------------------------------------------------------------------ *)

Lemma clean_novalue (s : slots) (fs : list cfield) (f : cfield) :
  forallb (cfield_clean s) fs = true -> In f fs -> novalue f = true -> slot_get s (cf_name f) = None.
Proof.
  intros H Hin Hn. rewrite forallb_forall in H. specialize (H f Hin).
  destruct f; try discriminate Hn; cbn [cfield_clean cf_name] in *.
  - destruct (slot_get s (FShift i)); [discriminate H|reflexivity].
  - destruct (slot_get s (FN i)); [discriminate H|reflexivity].
Qed.

Theorem pkt_allx (host : bool) (dl : dstate) (ct : ctab) : ct_distinct ct = true -> ct_bits_ok ct = true ->
  forall fuel c s, consistentx fuel ct c s = true -> vclean ct (VPkt c s) = true ->
  pkt_okx ct (pack_pkt fuel host dl ct) (fun raw => unpack_pkt fuel host ct raw) c s.
Proof.
  intros Hdis Hbits. induction fuel as [|fuel IH]; intros c s Hc Hvc; [discriminate|].
  cbn [consistentx] in Hc. destruct (ct_get ct c) as [k|] eqn:Hk; [|discriminate].
  pose proof (ct_get_forallb (fun k => nodupb (fidxs (cc_fields k))) ct c k Hdis Hk) as Hnd. cbv beta in Hnd.
  apply nodupb_NoDup in Hnd.
  pose proof (ct_get_forallb class_bits_ok ct c k Hbits Hk) as Hro. unfold class_bits_ok in Hro.
  destruct (vclean_pkt ct c s Hvc) as [Hclean Hcl]. specialize (Hclean k Hk).
  assert (Hfn0 : only_fn []). { intros f v E. discriminate E. }
  assert (Hsub0 : sub [] s). { intros f v E. discriminate E. }
  intros B p Hp.
  destruct (fields_okx host dl ct (pack_pkt fuel host dl ct) (fun raw => unpack_pkt fuel host ct raw) (consistentx fuel ct) fuel IH
              (cc_conf k) c s Hcl (length (cc_fields k)) (cc_fields k) [] Hro Hnd Hc Hfn0 Hsub0 B p p Hp)
    as (B' & p' & Hst & Hti & Hpk & Hu).
  exists B', p'. split; [exact Hst|]. split.
  { intros HT Hpb. apply (Hti HT); [|exact Hpb].
    exact (ct_get_forallb (fun k => forallb cfield_tight (cc_fields k)) ct c k HT Hk). }
  split.
  - intros fr Hb. cbn [pack_pkt]. rewrite Hk, (bx_cur fr B p Hb). exact (Hpk s fr (fun j => eq_refl) (fun j _ => eq_refl) Hb).
  - intros post. cbn [unpack_pkt]. rewrite Hk.
    destruct (Hu post [] [] (ext_nil ct [])) as (su' & t & E & _ & _ & Hall).
    exists su', t. split; [exact E|].
    rewrite (canon_pkt ct c s k Hk), (canon_pkt ct c su' k Hk). f_equal. apply map_ext_in. intros g Hin. f_equal.
    unfold field_names in Hin. apply in_map_iff in Hin as (f & <- & Hf). specialize (Hall f Hf).
    destruct (novalue f) eqn:Env.
    + rewrite Hall, (clean_novalue s (cc_fields k) f Hclean Hf Env). reflexivity.
    + destruct Hall as (v & v' & A & B0 & Hc' & _). rewrite A, B0. cbn [option_map]. rewrite Hc'. reflexivity.
Qed.

(* ------------------------------------------------------------------------------------------ *)
(** * C02 for the larger language                                                              *)
(* ------------------------------------------------------------------------------------------ *)

(* the statement of notes/stmts/S11_pack_unpack_x.v with two additions, both forced by counterexamples (below):
   the hypothesis [vclean ct (VPkt c s) = true] and the condition [ct_seqtight ct = true] on the exact-end clause *)
Theorem pack_unpack_x : forall fuel host dl ct c s rest,
  ct_distinct ct = true -> ct_bits_ok ct = true -> consistentx fuel ct c s = true -> vclean ct (VPkt c s) = true ->
  wf_bytes rest ->
  exists out v', pack_top fuel host dl ct c s = PBytes out v' /\ wf_bytes out /\
    exists s' e t, unpack_pkt fuel host ct (out ++ rest) c 0 = POk (VPkt c s') e t /\ blen out <= e /\
                   (ct_nomoves ct = true -> ct_seqtight ct = true -> e = blen out) /\
                   visible ct (VPkt c s') = visible ct (VPkt c s).
Proof.
  intros fuel host dl ct c s rest Hdis Hbits Hc Hvc _.
  destruct (pkt_allx host dl ct Hdis Hbits fuel c s Hc Hvc [] 0 ltac:(rewrite DataProofs.blen_nil; lia))
    as (B' & p' & Hst & Hti & Hpk & Hu).
  destruct (Hpk empty bx_empty) as (v' & fr' & E & Hb).
  destruct Hst as ((x & EB & Hx) & Hle & _). cbn [app] in EB. subst x.
  exists B', v'. split.
  - unfold pack_top. rewrite E, (bx_tobytes fr' B' p' Hb). reflexivity.
  - split; [exact Hx|]. destruct (Hu rest) as (s' & t & E' & Hcan).
    exists s', p', t. split; [exact E'|]. split; [exact Hle|]. split; [|exact Hcan].
    intros Hnm Hsq. apply Hti; [exact (ct_tight_of ct Hnm Hsq)|reflexivity].
Qed.

(* ------------------------------------------------------------------------------------------ *)
(** * Refutations: the statement as given is false                                             *)
(* ------------------------------------------------------------------------------------------ *)

Definition S11_as_stated : Prop := forall fuel host dl ct c s rest,
  ct_distinct ct = true -> ct_bits_ok ct = true -> consistentx fuel ct c s = true -> wf_bytes rest ->
  exists out v', pack_top fuel host dl ct c s = PBytes out v' /\ wf_bytes out /\
    exists s' e t, unpack_pkt fuel host ct (out ++ rest) c 0 = POk (VPkt c s') e t /\ blen out <= e /\
                   (ct_nomoves ct = true -> e = blen out) /\
                   visible ct (VPkt c s') = visible ct (VPkt c s).

(* (a) the per-element alignment of a repeated nested packet that writes nothing leaves the cursor beyond the last
   byte although the table has no Move *)
Definition px_cx1_ct : ctab :=
  [(0, pu_mk [CElem 0 (ELeafE (LInt 1 false None VNone));
              CSeq 1 (ERefPkt 1 []) (Some (ELit (VInt 1))) None None (VList []) 2]);
   (1, pu_mk [])].
Definition px_cx1_s : slots := [(FN 0, VInt 7); (FN 1, VList [VPkt 1 []])].
Example nomoves_needs_seqtight :
  ct_nomoves px_cx1_ct = true /\ ct_seqtight px_cx1_ct = false /\ vclean px_cx1_ct (VPkt 0 px_cx1_s) = true /\ ~ S11_as_stated.
Proof.
  split; [reflexivity|]. split; [reflexivity|]. split; [reflexivity|]. intros H.
  destruct (H 3%nat true no_delims px_cx1_ct 0 px_cx1_s [] eq_refl eq_refl eq_refl (Forall_nil _))
    as (out & v' & E & _ & s' & e & t & E' & _ & Hnm & _).
  vm_compute in E. injection E as <- _. vm_compute in E'. injection E' as _ <- _.
  specialize (Hnm eq_refl). vm_compute in Hnm. discriminate Hnm.
Qed.

(* (b) the consistency predicate does not look at the slot named by an Em field (or a Move pseudo-field), the
   parser never sets it, and `visible` shows it *)
Definition px_cx2_ct : ctab :=
  [(0, pu_mk [CElem 0 (ELeafE (LInt 1 false None VNone)); CEm 1; CMove 2 (MConst 1) RCur false;
              CElem 2 (ELeafE (LInt 1 false None VNone))])].
Definition px_cx2_s : slots := [(FN 0, VInt 7); (FN 1, VInt 3); (FN 2, VInt 5)].
Definition px_cx2_s' : slots := [(FN 0, VInt 7); (FShift 2, VInt 3); (FN 2, VInt 5)].
Example visible_needs_vclean :
  vclean px_cx2_ct (VPkt 0 px_cx2_s) = false /\ vclean px_cx2_ct (VPkt 0 px_cx2_s') = false /\ ~ S11_as_stated.
Proof.
  split; [reflexivity|]. split; [reflexivity|]. intros H.
  destruct (H 3%nat true no_delims px_cx2_ct 0 px_cx2_s [] eq_refl eq_refl eq_refl (Forall_nil _))
    as (out & v' & E & _ & s' & e & t & E' & _ & _ & Hvis).
  vm_compute in E. injection E as <- _. vm_compute in E'. injection E' as <- _ _.
  vm_compute in Hvis. discriminate Hvis.
Qed.
Example visible_needs_vclean_shift : ~ S11_as_stated.
Proof.
  intros H.
  destruct (H 3%nat true no_delims px_cx2_ct 0 px_cx2_s' [] eq_refl eq_refl eq_refl (Forall_nil _))
    as (out & v' & E & _ & s' & e & t & E' & _ & _ & Hvis).
  vm_compute in E. injection E as <- _. vm_compute in E'. injection E' as <- _ _.
  vm_compute in Hvis. discriminate Hvis.
Qed.

(* ------------------------------------------------------------------------------------------ *)
(** * Non-vacuity: a declaration and a value with every construct of the language              *)
(* ------------------------------------------------------------------------------------------ *)

Definition px_fd (mv : option (marg * reference * bool)) (b : sfield) : fdecl := {| fd_move := mv; fd_body := b |}.
Definition px_u8 : elem := ELeafE (LInt 1 false None VNone).
Definition px_pc0 : pclass :=
  {| pc_endianness := None; pc_align := None; pc_sbl := None; pc_gen_pack := false; pc_gen_unpack := false; pc_vectorize := true;
     pc_fields := [ px_fd None (SElem px_u8);                                             (* f0: selector / length *)
                    px_fd None (SBits 3 VNone); px_fd None (SBits 5 VNone);                (* f1 f2: a run of 8 bits *)
                    px_fd (Some (MConst 4, RInner, true)) (SElem (ELeafE (LInt 2 false None VNone)));   (* f3 aligned to 4 *)
                    px_fd None (SSeq (ERefPkt 1 []) None (Some (EBin Ge (EUn Len (EField (FN 4))) (EField (FN 0)))) None None (Some 2));
                                                                                          (* f4: until len(f4) >= f0, elements aligned to 2 *)
                    px_fd None SEm;                                                       (* f5 *)
                    px_fd (Some (MConst 1, RCur, false)) (SElem (ERefSel (EChoose (EField (FN 1)) [ELit (VLeaf (LInt 1 false None VNone)); ELit (VLeaf (LInt 2 false None VNone)); ELit (VNew 1 [])]) VNone));
                                                                                          (* f6: shift(1); selected by f1 *)
                    px_fd None (SSeq px_u8 (Some (EField (FN 2))) None None None (Some 3)) (* f7: f2 bytes, each aligned to 3 *)
                  ] |}.
Definition px_pc1 : pclass :=
  {| pc_endianness := None; pc_align := None; pc_sbl := None; pc_gen_pack := false; pc_gen_unpack := false; pc_vectorize := true;
     pc_fields := [ px_fd None (SElem px_u8); px_fd None (SElem (ELeafE (LDataMarker [0] false VNone))) ] |}.
Definition px_ct : ctab :=
  match describe px_pc0, describe px_pc1 with Some k0, Some k1 => [(0, k0); (1, k1)] | _, _ => [] end.
Definition px_inner (a : Z) (b : bytes) : value := VPkt 1 [(FN 0, VInt a); (FN 1, VBytes b)].
Definition px_s : slots :=
  [(FN 0, VInt 2); (FBitsI 1, VInt 0); (FN 1, VInt 2); (FN 2, VInt 2); (FN 3, VInt 513);
   (FN 4, VList [px_inner 1 [65]; px_inner 2 []]); (FN 6, px_inner 9 [66]); (FN 7, VList [VInt 7; VInt 8])].
Definition px_out : bytes := [2; 66; 46; 46; 2; 1; 1; 65; 0; 46; 2; 0; 46; 9; 66; 0; 46; 46; 7; 46; 46; 8].

Example px_ex_hyps :
  ct_distinct px_ct = true /\ ct_bits_ok px_ct = true /\ consistentx 3 px_ct 0 px_s = true /\
  vclean px_ct (VPkt 0 px_s) = true /\ ct_nomoves px_ct = false.
Proof. repeat split; vm_compute; reflexivity. Qed.
Example px_ex_run :
  match pack_top 3 true no_delims px_ct 0 px_s with
  | PBytes out _ =>
      out = px_out /\ blen out = 22 /\
      match unpack_pkt 3 true px_ct (out ++ [9; 9]) 0 0 with
      | POk v e _ => e = 22 /\ visible px_ct v = visible px_ct (VPkt 0 px_s) /\ v <> VPkt 0 px_s
      | _ => False
      end
  | _ => False
  end.
Proof. vm_compute. repeat split. discriminate. Qed.

Print Assumptions pack_unpack_x.
Print Assumptions nomoves_needs_seqtight.
Print Assumptions visible_needs_vclean.
Print Assumptions visible_needs_vclean_shift.
Print Assumptions px_ex_run.
