(* Proofs/Interleave.v -- operations of several threads on DISTINCT packets (C13, "this holds when packets of one class are
   parsed or serialized from several threads").  Granularity: one user operation (construct / parse / re-parse / assign /
   append / pack) is one step; a schedule is any merge of the threads' operation lists.  In the tree world of
   Model/HeapSpec.v every thread observes, under every schedule, exactly what it observes running alone: the same raises, the
   same pack() outputs, the same final packets; through Proofs/HeapAdequacy.v the same holds of the object world. *)
From Coq Require Import ZArith List Bool Lia.
From Bisturi Require Import Base.Bytes Model.Value Model.Decl Model.Unpack Model.Pack Model.Init Model.Codegen Model.Canon Model.Heap Model.HeapSpec
  Proofs.HeapProofs Proofs.HeapAdequacy.
Import ListNotations.
Open Scope Z_scope.

Definition fw_equiv (a b : fworld) : Prop := forall r, fw_get a r = fw_get b r.

(* the names an operation binds / updates and the names it reads *)
Definition wname (o : wop) : Z :=
  match o with WNew r _ | WParse r _ _ _ | WReparse r _ | WSet r _ _ _ | WAppend r _ _ | WPack r => r end.
Definition wreads (o : wop) : list Z :=
  match o with
  | WReparse _ r0 => [r0]
  | WSet _ _ _ (SrcObj r' _) | WAppend _ _ (SrcObj r' _) => [r']
  | _ => []
  end.
Definition touches (o : wop) : list Z := wname o :: wreads o.
Definition names (ops : list wop) : list Z := flat_map touches ops.

(* what the caller of one operation sees: None = it raised; Some (Some b) = pack() returned b; Some None = it returned *)
Definition f_out (host : bool) (ct : ctab) (fw : fworld) (o : wop) : option (option bytes) :=
  match f_step host ct fw o with
  | None => None
  | Some _ =>
      Some (match o with
            | WPack r =>
                match fw_get fw r with
                | Some (VPkt c s) => match pack_any_top FUEL host no_delims ct c s with PBytes b _ => Some b | _ => None end
                | _ => None
                end
            | _ => None
            end)
  end.
Fixpoint f_outs (host : bool) (ct : ctab) (fw : fworld) (ops : list wop) : list (option (option bytes)) :=
  match ops with
  | [] => []
  | o :: r => f_out host ct fw o :: f_outs host ct (f_run1 host ct fw o) r
  end.

(* a schedule: operations tagged with the thread that issues them *)
Definition sched := list (nat * wop).
Definition proj (t : nat) (I : sched) : list wop := map snd (filter (fun x => Nat.eqb (fst x) t) I).
Fixpoint s_outs (host : bool) (ct : ctab) (fw : fworld) (I : sched) : list (nat * option (option bytes)) :=
  match I with
  | [] => []
  | (t, o) :: r => (t, f_out host ct fw o) :: s_outs host ct (f_run1 host ct fw o) r
  end.
Definition outs_of (t : nat) (l : list (nat * option (option bytes))) : list (option (option bytes)) :=
  map snd (filter (fun x => Nat.eqb (fst x) t) l).

(* threads work on distinct packets: no name touched by two different threads *)
Definition distinct_packets (I : sched) : Prop :=
  forall t1 o1 t2 o2 x, In (t1, o1) I -> In (t2, o2) I -> t1 <> t2 -> In x (touches o1) -> In x (touches o2) -> False.

(* ------------------------------------------------------------------------------------------------------------------ *)
(* auxiliary: f_step through the lookups only                                                                          *)
(* ------------------------------------------------------------------------------------------------------------------ *)
Local Opaque complete unpack_any pack_any_top FUEL RFUEL.

Inductive act := ASet (v : value) | AKeep (v : value) | ANop.
Definition f_act (host : bool) (ct : ctab) (g : Z -> option value) (o : wop) : option act :=
  match o with
  | WNew r v =>
      match complete FUEL ct v with
      | Some (VPkt c s) => Some (ASet (VPkt c s))
      | _ => None
      end
  | WParse r c raw off =>
      match unpack_any FUEL host ct raw c off with
      | POk v _ _ => if is_object v then Some (ASet v) else None
      | _ => None
      end
  | WReparse r r0 =>
      match g r0 with
      | Some (VPkt c s) =>
          if Nat.leb (vdepth (VPkt c s)) RFUEL then
            match pack_any_top FUEL host no_delims ct c s with
            | PBytes b _ =>
                match unpack_any FUEL host ct b c 0 with
                | POk v _ _ => if is_object v then Some (ASet v) else None
                | _ => None
                end
            | _ => None
            end
          else None
      | _ => None
      end
  | WSet r p last (SrcLit v) =>
      match g r, complete FUEL ct v with
      | Some t, Some y =>
          match tree_upd t p (fun cont => if is_object cont then assign_at last y cont else None) with
          | Some t' => Some (AKeep t')
          | None => None
          end
      | _, _ => None
      end
  | WAppend r p (SrcLit v) =>
      match g r, complete FUEL ct v with
      | Some t, Some y =>
          match tree_upd t p (fun cont => append_at y cont) with
          | Some t' => Some (AKeep t')
          | None => None
          end
      | _, _ => None
      end
  | WSet _ _ _ (SrcObj _ _) | WAppend _ _ (SrcObj _ _) => None
  | WPack r =>
      match g r with
      | Some (VPkt c s) =>
          if Nat.leb (vdepth (VPkt c s)) RFUEL
          then match pack_any_top FUEL host no_delims ct c s with PBytes _ _ => Some ANop | _ => None end
          else None
      | _ => None
      end
  end.
Definition apply_act (fw : fworld) (r : Z) (a : act) : fworld :=
  match a with ASet v => fw_set fw r v | AKeep v => fw_set_keep fw r v | ANop => fw end.
Definition act_val (a : act) (old : option value) : option value :=
  match a with ASet v => Some v | AKeep v => match old with Some _ => Some v | None => None end | ANop => old end.
Definition out_val (host : bool) (ct : ctab) (g : Z -> option value) (o : wop) : option bytes :=
  match o with
  | WPack r =>
      match g r with
      | Some (VPkt c s) => match pack_any_top FUEL host no_delims ct c s with PBytes b _ => Some b | _ => None end
      | _ => None
      end
  | _ => None
  end.

Lemma f_step_act host ct fw o :
  f_step host ct fw o = option_map (apply_act fw (wname o)) (f_act host ct (fw_get fw) o).
Proof.
  destruct o as [r v|r c raw off|r r0|r p last [v|r' p']|r p [v|r' p']|r];
    cbn [f_step f_act wname apply_act option_map]; try reflexivity;
    repeat match goal with |- context [match ?x with _ => _ end] => destruct x; cbn [option_map apply_act] end; reflexivity.
Qed.

Lemma f_act_local host ct g g' o :
  (forall x, In x (touches o) -> g x = g' x) -> f_act host ct g o = f_act host ct g' o.
Proof.
  intros H. destruct o as [r v|r c raw off|r r0|r p last [v|r' p']|r p [v|r' p']|r]; cbn [f_act]; try reflexivity.
  - rewrite (H r0) by (simpl; auto). reflexivity.
  - rewrite (H r) by (simpl; auto). reflexivity.
  - rewrite (H r) by (simpl; auto). reflexivity.
  - rewrite (H r) by (simpl; auto). reflexivity.
Qed.
Lemma out_val_local host ct g g' o :
  (forall x, In x (touches o) -> g x = g' x) -> out_val host ct g o = out_val host ct g' o.
Proof.
  intros H. destruct o; cbn [out_val]; try reflexivity. rewrite (H r) by (simpl; auto). reflexivity.
Qed.

Lemma fw_get_apply fw r a q :
  fw_get (apply_act fw r a) q = if q =? r then act_val a (fw_get fw r) else fw_get fw q.
Proof.
  destruct a as [v|v|]; cbn [apply_act act_val].
  - apply fw_get_set.
  - apply fw_get_keep.
  - destruct (Z.eqb_spec q r) as [E|E]; [subst; reflexivity | reflexivity].
Qed.

Lemma f_out_act host ct fw o :
  f_out host ct fw o =
  match f_act host ct (fw_get fw) o with None => None | Some _ => Some (out_val host ct (fw_get fw) o) end.
Proof. unfold f_out. rewrite f_step_act. destruct (f_act host ct (fw_get fw) o); reflexivity. Qed.

Lemma run_get host ct fw o q :
  fw_get (f_run1 host ct fw o) q =
  match f_act host ct (fw_get fw) o with
  | Some a => if q =? wname o then act_val a (fw_get fw (wname o)) else fw_get fw q
  | None => fw_get fw q
  end.
Proof.
  unfold f_run1. rewrite f_step_act. destruct (f_act host ct (fw_get fw) o) as [a|]; cbn [option_map]; [|reflexivity].
  apply fw_get_apply.
Qed.

Lemma run_frame host ct fw o q : q <> wname o -> fw_get (f_run1 host ct fw o) q = fw_get fw q.
Proof.
  intros N. rewrite run_get. destruct (f_act host ct (fw_get fw) o); [|reflexivity].
  destruct (Z.eqb_spec q (wname o)); [contradiction | reflexivity].
Qed.

Lemma wname_touches o : In (wname o) (touches o).
Proof. left; reflexivity. Qed.

Lemma f_out_local_aux : forall host ct a b o, (forall x, In x (touches o) -> fw_get a x = fw_get b x) -> f_out host ct a o = f_out host ct b o.
Proof.
  intros host ct a b o H. rewrite !f_out_act. rewrite (f_act_local host ct (fw_get a) (fw_get b) o H).
  rewrite (out_val_local host ct (fw_get a) (fw_get b) o H). reflexivity.
Qed.

(* 1. the tree world only matters through fw_get *)
Theorem f_step_equiv : forall host ct a b o, fw_equiv a b ->
  match f_step host ct a o, f_step host ct b o with
  | Some a', Some b' => fw_equiv a' b'
  | None, None => True
  | _, _ => False
  end.
Proof.
  intros host ct a b o H. rewrite !f_step_act.
  rewrite (f_act_local host ct (fw_get a) (fw_get b) o) by (intros x _; apply H).
  destruct (f_act host ct (fw_get b) o) as [c|]; cbn [option_map]; [|exact I].
  intros q. rewrite !fw_get_apply, !H. reflexivity.
Qed.
Theorem f_out_equiv : forall host ct a b o, fw_equiv a b -> f_out host ct a o = f_out host ct b o.
Proof. intros host ct a b o H. apply f_out_local_aux. intros x _. apply H. Qed.

(* 2. an operation changes the binding of its own name only, and looks at the names it touches only *)
Theorem f_step_frame : forall host ct fw o fw' q, f_step host ct fw o = Some fw' -> q <> wname o -> fw_get fw' q = fw_get fw q.
Proof.
  intros host ct fw o fw' q E N. rewrite <- (run_frame host ct fw o q N). unfold f_run1. rewrite E. reflexivity.
Qed.
Theorem f_out_local : forall host ct a b o, (forall x, In x (touches o) -> fw_get a x = fw_get b x) -> f_out host ct a o = f_out host ct b o.
Proof. exact f_out_local_aux. Qed.
Theorem f_step_local : forall host ct a b o, (forall x, In x (touches o) -> fw_get a x = fw_get b x) ->
  fw_get (f_run1 host ct a o) (wname o) = fw_get (f_run1 host ct b o) (wname o).
Proof.
  intros host ct a b o H. rewrite !run_get. rewrite (f_act_local host ct (fw_get a) (fw_get b) o H).
  rewrite (H (wname o) (wname_touches o)). reflexivity.
Qed.

Lemma run_agree host ct a b o x :
  (forall y, In y (touches o) -> fw_get a y = fw_get b y) -> fw_get a x = fw_get b x ->
  fw_get (f_run1 host ct a o) x = fw_get (f_run1 host ct b o) x.
Proof.
  intros H Hx. destruct (Z.eq_dec x (wname o)) as [E|E].
  - subst x. apply f_step_local; exact H.
  - rewrite !run_frame by exact E. exact Hx.
Qed.

(* 3. operations on distinct packets commute *)
Theorem f_run1_commute : forall host ct fw o1 o2,
  (forall x, In x (touches o1) -> In x (touches o2) -> False) ->
  fw_equiv (f_run1 host ct (f_run1 host ct fw o1) o2) (f_run1 host ct (f_run1 host ct fw o2) o1) /\
  f_out host ct (f_run1 host ct fw o2) o1 = f_out host ct fw o1 /\
  f_out host ct (f_run1 host ct fw o1) o2 = f_out host ct fw o2.
Proof.
  intros host ct fw o1 o2 D.
  assert (F1 : forall x, In x (touches o1) -> fw_get (f_run1 host ct fw o2) x = fw_get fw x).
  { intros x I1. apply run_frame. intros E. subst x. exact (D _ I1 (wname_touches o2)). }
  assert (F2 : forall x, In x (touches o2) -> fw_get (f_run1 host ct fw o1) x = fw_get fw x).
  { intros x I2. apply run_frame. intros E. subst x. exact (D _ (wname_touches o1) I2). }
  split; [|split].
  - intros q. destruct (Z.eq_dec q (wname o1)) as [E1|E1]; [|destruct (Z.eq_dec q (wname o2)) as [E2|E2]].
    + subst q. assert (N : wname o1 <> wname o2).
      { intros E. apply (D (wname o1) (wname_touches o1)). rewrite E. apply wname_touches. }
      rewrite (run_frame host ct _ o2 _ N). symmetry. apply f_step_local. exact F1.
    + subst q. rewrite (run_frame host ct _ o1 _ E1). apply f_step_local. exact F2.
    + rewrite !run_frame by assumption. reflexivity.
  - apply f_out_local. exact F1.
  - apply f_out_local. exact F2.
Qed.

(* ---- schedules ---- *)
Lemma dp_tail x I : distinct_packets (x :: I) -> distinct_packets I.
Proof. intros D t1 o1 t2 o2 y I1 I2. apply (D t1 o1 t2 o2 y); right; assumption. Qed.
Lemma in_proj t o I : In (t, o) I -> In o (proj t I).
Proof.
  intros H. unfold proj. apply in_map_iff. exists (t, o). split; [reflexivity|]. apply filter_In. split; [exact H|].
  cbn [fst]. apply Nat.eqb_refl.
Qed.
Lemma proj_in t o I : In o (proj t I) -> In (t, o) I.
Proof.
  unfold proj. intros H. apply in_map_iff in H. destruct H as [[t' o'] [E H]]. cbn [snd] in E. subst o'.
  apply filter_In in H. destruct H as [H E]. cbn [fst] in E. apply Nat.eqb_eq in E. subst t'. exact H.
Qed.
Lemma names_in x ops : In x (names ops) <-> exists o, In o ops /\ In x (touches o).
Proof. unfold names. apply in_flat_map. Qed.
Lemma proj_cons_eq t o I : proj t ((t, o) :: I) = o :: proj t I.
Proof. unfold proj. cbn [filter fst]. rewrite Nat.eqb_refl. reflexivity. Qed.
Lemma proj_cons_ne t t' o I : t' <> t -> proj t ((t', o) :: I) = proj t I.
Proof. intros N. unfold proj. cbn [filter fst]. apply Nat.eqb_neq in N. rewrite N. reflexivity. Qed.
Lemma outs_cons_eq t v l : outs_of t ((t, v) :: l) = v :: outs_of t l.
Proof. unfold outs_of. cbn [filter fst]. rewrite Nat.eqb_refl. reflexivity. Qed.
Lemma outs_cons_ne t t' v l : t' <> t -> outs_of t ((t', v) :: l) = outs_of t l.
Proof. intros N. unfold outs_of. cbn [filter fst]. apply Nat.eqb_neq in N. rewrite N. reflexivity. Qed.

Lemma isolation_gen host ct : forall (I : sched) fw1 fw2 t, distinct_packets I ->
  (forall x, In x (names (proj t I)) -> fw_get fw1 x = fw_get fw2 x) ->
  outs_of t (s_outs host ct fw1 I) = f_outs host ct fw2 (proj t I) /\
  forall r, In r (names (proj t I)) ->
    fw_get (fold_left (f_run1 host ct) (map snd I) fw1) r = fw_get (fold_left (f_run1 host ct) (proj t I) fw2) r.
Proof.
  induction I as [|[t' o] I IH]; intros fw1 fw2 t D H.
  - split; [reflexivity|]. intros r [].
  - assert (D' := dp_tail _ _ D). cbn [s_outs map snd fold_left].
    destruct (Nat.eq_dec t' t) as [E|E].
    + subst t'. rewrite proj_cons_eq in *. rewrite outs_cons_eq. cbn [f_outs fold_left].
      assert (Ho : forall y, In y (touches o) -> fw_get fw1 y = fw_get fw2 y).
      { intros y Iy. apply H. unfold names. cbn [flat_map]. apply in_or_app. left; exact Iy. }
      assert (H' : forall x, In x (names (proj t I)) -> fw_get (f_run1 host ct fw1 o) x = fw_get (f_run1 host ct fw2 o) x).
      { intros x Ix. apply run_agree; [exact Ho|]. apply H. unfold names. cbn [flat_map]. apply in_or_app. right; exact Ix. }
      destruct (IH (f_run1 host ct fw1 o) (f_run1 host ct fw2 o) t D' H') as [IH1 IH2]. split.
      * rewrite (f_out_local host ct fw1 fw2 o Ho). f_equal. exact IH1.
      * intros r Ir. unfold names in Ir. cbn [flat_map] in Ir. apply in_app_or in Ir. destruct Ir as [Ir|Ir]; [|apply IH2; exact Ir].
        destruct (in_dec Z.eq_dec r (names (proj t I))) as [Ir'|Ir']; [apply IH2; exact Ir'|].
        (* r is touched by o but by no later operation of thread t *)
        assert (G1 : forall (J : sched) fw, distinct_packets ((t, o) :: J) -> ~ In r (names (proj t J)) ->
                   fw_get (fold_left (f_run1 host ct) (map snd J) fw) r = fw_get fw r).
        { clear -Ir. induction J as [|[t2 o2] J IHJ]; intros fw DJ NJ; [reflexivity|]. cbn [map snd fold_left].
          assert (DJ' : distinct_packets ((t, o) :: J)).
          { intros a1 b1 a2 b2 y I1 I2. apply (DJ a1 b1 a2 b2 y); cbn [In] in *; tauto. }
          destruct (Nat.eq_dec t2 t) as [E2|E2].
          - subst t2. rewrite proj_cons_eq in NJ. unfold names in NJ. cbn [flat_map] in NJ.
            rewrite IHJ; [|exact DJ'|intros C; apply NJ; apply in_or_app; right; exact C].
            apply run_frame. intros C. apply NJ. apply in_or_app. left. subst r. apply wname_touches.
          - rewrite proj_cons_ne in NJ by exact E2. rewrite IHJ; [|exact DJ'|exact NJ].
            apply run_frame. intros C. subst r.
            apply (DJ t o t2 o2 (wname o2)); [left; reflexivity | right; left; reflexivity | congruence | exact Ir | apply wname_touches]. }
        assert (G2 : forall ops fw, ~ In r (names ops) -> fw_get (fold_left (f_run1 host ct) ops fw) r = fw_get fw r).
        { clear. induction ops as [|o2 ops IHo]; intros fw N; [reflexivity|]. cbn [fold_left]. unfold names in N. cbn [flat_map] in N.
          rewrite IHo by (intros C; apply N; apply in_or_app; right; exact C).
          apply run_frame. intros C. apply N. apply in_or_app. left. subst r. apply wname_touches. }
        rewrite (G1 I _ D Ir'), (G2 _ _ Ir'). apply run_agree; [exact Ho | apply Ho; exact Ir].
    + rewrite proj_cons_ne in * by exact E. rewrite outs_cons_ne by exact E.
      apply IH; [exact D'|]. intros x Ix. rewrite <- (H x Ix). apply run_frame. intros C. subst x.
      apply names_in in Ix. destruct Ix as [o' [Io' Ix]]. apply proj_in in Io'.
      apply (D t' o t o' (wname o)); [left; reflexivity | right; exact Io' | exact E | apply wname_touches | exact Ix].
Qed.

(* 4. every schedule: each thread sees what it sees running alone, and its packets end as they end when it runs alone *)
Theorem thread_isolation_outs : forall host ct (I : sched) fw t, distinct_packets I ->
  outs_of t (s_outs host ct fw I) = f_outs host ct fw (proj t I).
Proof. intros host ct I fw t D. apply (isolation_gen host ct I fw fw t D). reflexivity. Qed.
Theorem thread_isolation_final : forall host ct (I : sched) fw t r, distinct_packets I -> In r (names (proj t I)) ->
  fw_get (fold_left (f_run1 host ct) (map snd I) fw) r = fw_get (fold_left (f_run1 host ct) (proj t I) fw) r.
Proof. intros host ct I fw t r D. apply (isolation_gen host ct I fw fw t D). reflexivity. Qed.
(* names no thread touches are left alone *)
Theorem schedule_frame : forall host ct (I : sched) fw r, ~ In r (map wname (map snd I)) ->
  fw_get (fold_left (f_run1 host ct) (map snd I) fw) r = fw_get fw r.
Proof.
  intros host ct. induction I as [|[t o] I IH]; intros fw r N; [reflexivity|]. cbn [map snd fold_left] in *.
  rewrite IH by (intros C; apply N; right; exact C). apply run_frame. intros C. apply N. left. symmetry. exact C.
Qed.
(* two schedules of the same threads end in the same world *)
Theorem schedules_agree : forall host ct (I J : sched) fw, distinct_packets I ->
  (forall t, proj t I = proj t J) -> (forall t o, In (t, o) J -> In (t, o) I) ->
  fw_equiv (fold_left (f_run1 host ct) (map snd I) fw) (fold_left (f_run1 host ct) (map snd J) fw).
Proof.
  intros host ct I J fw D P S r.
  assert (DJ : distinct_packets J).
  { intros t1 o1 t2 o2 x I1 I2. apply (D t1 o1 t2 o2 x); apply S; assumption. }
  destruct (in_dec Z.eq_dec r (map wname (map snd I))) as [Ir|Ir].
  - apply in_map_iff in Ir. destruct Ir as [o [E Io]]. apply in_map_iff in Io. destruct Io as [[t o'] [E' Io]].
    cbn [snd] in E'. subst o'. subst r.
    assert (N : In (wname o) (names (proj t I))).
    { apply names_in. exists o. split; [apply in_proj; exact Io | apply wname_touches]. }
    rewrite (thread_isolation_final host ct I fw t _ D N).
    rewrite P in N. rewrite (thread_isolation_final host ct J fw t _ DJ N). rewrite P. reflexivity.
  - rewrite (schedule_frame host ct I fw r Ir). symmetry. apply schedule_frame. intros C. apply Ir.
    apply in_map_iff in C. destruct C as [o [E Io]]. apply in_map_iff in Io. destruct Io as [[t o'] [E' Io]].
    cbn [snd] in E'. subst o'. apply in_map_iff. exists o. split; [exact E|]. apply in_map_iff. exists (t, o).
    split; [reflexivity | apply S; exact Io].
Qed.

(* 5. the object world (Model/Heap.v), through adequacy: under every schedule without user sharing, each live packet of thread t
   reads as the tree it reads as when t runs alone *)
Theorem heap_thread_isolation : forall host ct (I : sched) t r a,
  distinct_packets I -> forallb op_no_share (map snd I) = true -> In r (names (proj t I)) ->
  let wI := fold_left (w_run1 host ct) (map snd I) w_empty in
  let wt := fold_left (w_run1 host ct) (proj t I) w_empty in
  root_get (roots wI) r = Some a ->
  exists a' tr, root_get (roots wt) r = Some a' /\ den (hp wI) (HRef a) tr /\ den (hp wt) (HRef a') tr.
Proof.
  intros host ct I t r a D N Ir wI wt G.
  assert (Nt : forallb op_no_share (proj t I) = true).
  { apply forallb_forall. intros o Io. apply (proj1 (forallb_forall _ _) N).
    apply proj_in in Io. apply in_map_iff. exists (t, o). split; [reflexivity | exact Io]. }
  destruct (adequacy_history host ct (map snd I) N) as [_ AI]. fold wI in AI.
  destruct (adequacy_history host ct (proj t I) Nt) as [At1 At2]. fold wt in At1, At2.
  destruct (AI r a G) as [tr [Ef Rd]].
  rewrite (thread_isolation_final host ct I [] t r D Ir) in Ef.
  destruct (root_get (roots wt) r) as [a'|] eqn:Gt.
  - exists a', tr. split; [reflexivity|]. split; [exists (vdepth tr); apply Rd; lia|].
    destruct (At2 r a' Gt) as [tr' [Ef' Rd']]. rewrite Ef in Ef'. inversion Ef'; subst tr'.
    exists (vdepth tr). apply Rd'. lia.
  - apply At1 in Gt. rewrite Ef in Gt. discriminate.
Qed.

(* non-vacuity: two threads, each building, changing and packing its own packet of the same class *)
Definition il_ct : ctab :=
  [(0, {| cc_conf := empty_conf; cc_gen_pack := false; cc_gen_unpack := false; cc_vectorize := true;
          cc_fields := [CElem 0 (ELeafE (LInt 1 false None (VInt 0))); CElem 1 (ELeafE (LInt 1 false None (VInt 0)))] |})].
Definition il_sched : sched :=
  [(0%nat, WParse 1 0 [7; 8] 0); (1%nat, WParse 2 0 [1; 2] 0); (1%nat, WSet 2 [] (SField (FN 0)) (SrcLit (VInt 9)));
   (0%nat, WPack 1); (1%nat, WPack 2); (0%nat, WSet 1 [] (SField (FN 1)) (SrcLit (VInt 3))); (0%nat, WPack 1)].
Example il_outs : s_outs false il_ct [] il_sched =
  [(0%nat, Some None); (1%nat, Some None); (1%nat, Some None); (0%nat, Some (Some [7; 8])); (1%nat, Some (Some [9; 2]));
   (0%nat, Some None); (0%nat, Some (Some [7; 3]))].
Proof. vm_compute. reflexivity. Qed.

Print Assumptions thread_isolation_outs. Print Assumptions thread_isolation_final. Print Assumptions schedules_agree. Print Assumptions heap_thread_isolation.
