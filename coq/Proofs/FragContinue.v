(* Proofs/FragContinue.v -- C11 for a caller that CATCHES the collision and goes on using the buffer: a rejected operation
   leaves the buffer as it was.  In the model an operation that does not return `Ok` hands back no state at all, so "going on"
   means going on from the state before it; the abstract sparse array does the same.  The refinement of Proofs/FragProofs.v
   carries over: after every such history the buffer still represents the array, the same operations were rejected, and
   the final string is the array's. *)
From Coq Require Import ZArith List Bool Lia.
From Bisturi Require Import Base.Bytes Kernel.Frag Proofs.FragProofs.
Import ListNotations.
Open Scope Z_scope.

(* run a history, skipping (and recording the index of) every operation that raises *)
Fixpoint run_ops_c (s : frs) (ops : list op) (k : Z) : frs * list Z :=
  match ops with
  | [] => (s, [])
  | o :: r =>
      match apply_op s o with
      | Ok s' => run_ops_c s' r (k + 1)
      | _ => let '(s'', bad) := run_ops_c s r (k + 1) in (s'', k :: bad)
      end
  end.
Fixpoint fold_a_c (a : afrs) (ops : list op) (k : Z) : afrs * list Z :=
  match ops with
  | [] => (a, [])
  | o :: r =>
      match a_apply a o with
      | Some a' => fold_a_c a' r (k + 1)
      | None => let '(a'', bad) := fold_a_c a r (k + 1) in (a'', k :: bad)
      end
  end.

(* single operations refine (restating what history_refines gives for one-element histories) *)
Theorem apply_op_refines : forall s a o, R s a -> op_nonneg o ->
  match apply_op s o with
  | Ok s' => exists a', a_apply a o = Some a' /\ R s' a'
  | Collision => a_apply a o = None
  | Crash => False
  end.
Proof.
  intros s a o HR Ho. pose proof (FragProofs.apply_op_refines s a o HR Ho) as H.
  destruct (apply_op s o) as [s'| |]; destruct (a_apply a o) as [a'|]; try contradiction.
  - exists a'. split; [reflexivity|exact H].
  - reflexivity.
Qed.

(* every history in which the caller goes on after collisions: same rejected operations, related final states *)
Theorem history_continue_refines : forall ops s a k, R s a -> Forall op_nonneg ops ->
  R (fst (run_ops_c s ops k)) (fst (fold_a_c a ops k)) /\ snd (run_ops_c s ops k) = snd (fold_a_c a ops k).
Proof.
  induction ops as [|o r IH]; intros s a k HR Hall.
  - cbn. split; [exact HR|reflexivity].
  - inversion Hall as [|o' r' Ho Hr]; subst.
    pose proof (apply_op_refines s a o HR Ho) as H.
    cbn [run_ops_c fold_a_c].
    destruct (apply_op s o) as [s'| |].
    + destruct H as (a' & Ha & HR'). rewrite Ha. apply IH; assumption.
    + rewrite H. specialize (IH s a (k + 1) HR Hr).
      destruct (run_ops_c s r (k + 1)) as [s'' bad] eqn:E1.
      destruct (fold_a_c a r (k + 1)) as [a'' bad'] eqn:E2.
      cbn [fst snd] in *. destruct IH as [IH1 IH2]. split; [exact IH1|]. rewrite IH2. reflexivity.
    + contradiction.
Qed.
Theorem history_continue_bytes : forall ops k, Forall op_nonneg ops ->
  tobytes (fst (run_ops_c empty ops k)) = a_tobytes (fst (fold_a_c aempty ops k)).
Proof.
  intros ops k Hall. apply tobytes_refines.
  apply (history_continue_refines ops empty aempty k R_empty Hall).
Qed.
(* a rejected operation changes nothing: the run with it equals the run without it *)
Theorem rejected_is_noop : forall s o r k, (forall s', apply_op s o <> Ok s') ->
  fst (run_ops_c s (o :: r) k) = fst (run_ops_c s r (k + 1)).
Proof.
  intros s o r k H. cbn [run_ops_c].
  destruct (apply_op s o) as [s'| |] eqn:E.
  - exfalso. apply (H s'). reflexivity.
  - destruct (run_ops_c s r (k + 1)) as [s'' bad]. reflexivity.
  - destruct (run_ops_c s r (k + 1)) as [s'' bad]. reflexivity.
Qed.

Example continue_example :
  run_ops_c empty [OInsert 0 [1; 2]; OInsert 1 [9; 9]; OAppend [3]; OInsert 0 [7]; OAppend [4]] 0 =
    ({| frags := [(0, [1; 2]); (2, [3]); (3, [4])]; begins := [0; 2; 3]; cur := 4 |}, [1; 3]) /\
  tobytes (fst (run_ops_c empty [OInsert 0 [1; 2]; OInsert 1 [9; 9]; OAppend [3]; OInsert 0 [7]; OAppend [4]] 0)) = [1; 2; 3; 4].
Proof. vm_compute. split; reflexivity. Qed.

Print Assumptions history_continue_refines.
Print Assumptions history_continue_bytes.
