(* Proofs/IntCodecProofs.v -- properties of the Int codec model (Kernel/IntCodec.v): positional
   value, decode/encode round trips, range rejection, strictness of the unpack step, endianness
   decision table.  Stdlib only, no axioms. *)
From Coq Require Import ZArith List Bool Lia ZifyBool.
From Bisturi Require Import Base.Bytes Kernel.IntCodec.
Import ListNotations.
Open Scope Z_scope.
Ltac Zify.zify_post_hook ::= Z.to_euclidean_division_equations.

(* ------------------------------------------------------------------------------------------ *)
(* positional value                                                                           *)
(* ------------------------------------------------------------------------------------------ *)

Lemma be_val_app : forall acc a b, be_val acc (a ++ b) = be_val (be_val acc a) b.
Proof.
  intros acc a; revert acc; induction a as [|x a IH]; intros acc b; cbn [be_val app]; auto.
Qed.

Lemma be_enc_len : forall n v, length (be_enc n v) = n.
Proof.
  induction n as [|n IH]; intros v; cbn [be_enc]; auto.
  rewrite app_length, IH; cbn [length]; lia.
Qed.

Lemma be_enc_wf : forall n v, wf_bytes (be_enc n v).
Proof.
  induction n as [|n IH]; intros v; cbn [be_enc].
  - constructor.
  - apply Forall_app; split; [apply IH|].
    constructor; [|constructor]. unfold wf_byte. lia.
Qed.

Lemma be_val_acc : forall acc bs, be_val acc bs = acc * 256 ^ Z.of_nat (length bs) + be_val 0 bs.
Proof.
  intros acc bs; revert acc; induction bs as [|b r IH]; intros acc.
  - cbn [be_val length]. change (256 ^ Z.of_nat 0) with 1. lia.
  - cbn [be_val length]. rewrite IH. rewrite (IH (0 * 256 + b)).
    rewrite Nat2Z.inj_succ, Z.pow_succ_r by lia. lia.
Qed.

Lemma be_val_enc : forall n v, 0 <= v < 256 ^ Z.of_nat n -> be_val 0 (be_enc n v) = v.
Proof.
  induction n as [|n IH]; intros v Hv.
  - change (256 ^ Z.of_nat 0) with 1 in Hv. cbn [be_enc be_val]. lia.
  - cbn [be_enc]. rewrite be_val_app. cbn [be_val].
    rewrite IH.
    + lia.
    + rewrite Nat2Z.inj_succ, Z.pow_succ_r in Hv by lia.
      split; [apply Z.div_pos; lia | apply Z.div_lt_upper_bound; lia].
Qed.

Lemma be_val_bound : forall bs, wf_bytes bs -> 0 <= be_val 0 bs < 256 ^ Z.of_nat (length bs).
Proof.
  induction bs as [|b r IH] using rev_ind; intros H.
  - cbn [be_val length]. change (256 ^ Z.of_nat 0) with 1. lia.
  - apply Forall_app in H as [Hr Hb]. inversion Hb as [|? ? Hb1 _]; subst. unfold wf_byte in Hb1.
    rewrite be_val_app. cbn [be_val]. rewrite app_length. cbn [length].
    replace (Z.of_nat (length r + 1)) with (Z.succ (Z.of_nat (length r))) by lia.
    rewrite Z.pow_succ_r by lia. specialize (IH Hr). lia.
Qed.

Lemma be_enc_val : forall bs, wf_bytes bs -> be_enc (length bs) (be_val 0 bs) = bs.
Proof.
  induction bs as [|b r IH] using rev_ind; intros H.
  - reflexivity.
  - apply Forall_app in H as [Hr Hb]. inversion Hb as [|? ? Hb1 _]; subst. unfold wf_byte in Hb1.
    rewrite app_length. cbn [length]. replace (length r + 1)%nat with (S (length r)) by lia.
    cbn [be_enc]. rewrite be_val_app. cbn [be_val].
    replace ((be_val 0 r * 256 + b) / 256) with (be_val 0 r) by lia.
    rewrite IH by assumption.
    f_equal. f_equal. lia.
Qed.

(* little-endian positional sum *)
Fixpoint le_val (bs : bytes) : Z :=
  match bs with
  | [] => 0
  | b :: r => b + 256 * le_val r
  end.

Lemma unsigned_val_little : forall bs, unsigned_val false bs = le_val bs.
Proof.
  unfold unsigned_val. induction bs as [|b r IH].
  - reflexivity.
  - cbn [rev le_val]. rewrite be_val_app. cbn [be_val]. rewrite IH. lia.
Qed.

Lemma unsigned_val_big_cons : forall b r,
  unsigned_val true (b :: r) = b * 256 ^ Z.of_nat (length r) + unsigned_val true r.
Proof.
  intros b r. unfold unsigned_val. cbn [be_val]. rewrite be_val_acc. lia.
Qed.

(* ------------------------------------------------------------------------------------------ *)
(* helpers                                                                                    *)
(* ------------------------------------------------------------------------------------------ *)

Lemma pow256 : forall k, 256 ^ Z.of_nat k = 2 ^ (8 * Z.of_nat k).
Proof.
  intros k. rewrite Z.pow_mul_r by lia. reflexivity.
Qed.

Lemma pow256_n : forall n, 0 <= n -> 256 ^ Z.of_nat (Z.to_nat n) = 2 ^ (8 * n).
Proof.
  intros n Hn. rewrite pow256, Z2Nat.id by lia. reflexivity.
Qed.

Lemma pow2_half : forall n, 1 <= n -> 2 ^ (8 * n) = 2 * 2 ^ (8 * n - 1).
Proof.
  intros n Hn. rewrite <- Z.pow_succ_r by lia. f_equal. lia.
Qed.

Lemma mod_lift : forall v M, - M <= v < 0 -> v mod M = v + M.
Proof.
  intros v M H. symmetry. apply Z.mod_unique with (q := -1); lia.
Qed.

(* the byte string put in most-significant-first order *)
Definition msf (big : bool) (bs : bytes) : bytes := if big then bs else rev bs.

Lemma msf_invol : forall big bs, msf big (msf big bs) = bs.
Proof. intros [|] bs; unfold msf; [reflexivity | apply rev_involutive]. Qed.

Lemma msf_length : forall big bs, length (msf big bs) = length bs.
Proof. intros [|] bs; unfold msf; [reflexivity | apply rev_length]. Qed.

Lemma msf_wf : forall big bs, wf_bytes bs -> wf_bytes (msf big bs).
Proof. intros [|] bs H; unfold msf; [exact H | apply Forall_rev; exact H]. Qed.

Lemma blen_msf : forall big bs, blen (msf big bs) = blen bs.
Proof. intros; unfold blen; rewrite msf_length; reflexivity. Qed.

Lemma unsigned_val_msf : forall big bs, unsigned_val big bs = be_val 0 (msf big bs).
Proof. reflexivity. Qed.

Lemma unsigned_val_bound : forall n big bs, blen bs = n -> wf_bytes bs ->
  0 <= unsigned_val big bs < 2 ^ (8 * n).
Proof.
  intros n big bs Hl Hwf. rewrite unsigned_val_msf.
  pose proof (be_val_bound (msf big bs) (msf_wf big bs Hwf)) as Hb.
  rewrite msf_length, pow256 in Hb. unfold blen in Hl. rewrite Hl in Hb. exact Hb.
Qed.

(* ------------------------------------------------------------------------------------------ *)
(* decode                                                                                     *)
(* ------------------------------------------------------------------------------------------ *)

Lemma decode_short : forall n s big bs, blen bs <> n -> decode n s big bs = None.
Proof.
  intros n s big bs H. unfold decode.
  destruct (Z.eqb_spec (blen bs) n) as [E|E]; [contradiction|reflexivity].
Qed.

Lemma decode_unsigned : forall n big bs, blen bs = n ->
  decode n false big bs = Some (unsigned_val big bs).
Proof.
  intros n big bs H. unfold decode. rewrite H, Z.eqb_refl. reflexivity.
Qed.

Lemma decode_signed : forall n big bs, 1 <= n -> blen bs = n -> wf_bytes bs ->
  decode n true big bs =
  Some (let u := unsigned_val big bs in
        if 128 <=? hd 0 (if big then bs else rev bs) then u - 2 ^ (8 * n) else u).
Proof.
  intros n big bs Hn Hl Hwf. unfold decode. rewrite Hl, Z.eqb_refl.
  cbn zeta. cbn [andb]. f_equal.
  match goal with |- context [hd 0 ?t] => change t with (msf big bs) end.
  rewrite unsigned_val_msf.
  pose proof (msf_wf big bs Hwf) as Hwf'.
  pose proof (blen_msf big bs) as Hl'. rewrite Hl in Hl'.
  destruct (msf big bs) as [|b r] eqn:E.
  - unfold blen in Hl'. cbn [length] in Hl'. lia.
  - cbn [hd be_val]. rewrite be_val_acc.
    pose proof (Forall_inv Hwf') as Hb. pose proof (Forall_inv_tail Hwf') as Hr.
    pose proof (be_val_bound r Hr) as Hbr. unfold wf_byte in Hb.
    unfold blen in Hl'. cbn [length] in Hl'.
    replace (8 * n - 1) with (7 + 8 * Z.of_nat (length r)) by lia.
    replace (8 * n) with (8 + 8 * Z.of_nat (length r)) by lia.
    rewrite (Z.pow_add_r 2 8) by lia. change (2 ^ 8) with 256.
    rewrite Z.pow_add_r by lia. rewrite <- pow256.
    change (2 ^ 7) with 128.
    set (P := 256 ^ Z.of_nat (length r)) in *.
    set (x := be_val 0 r) in *.
    replace ((0 * 256 + b) * P + x) with (b * P + x) by lia.
    destruct (Z.leb_spec (128 * P) (b * P + x)) as [H1|H1];
      destruct (Z.leb_spec 128 b) as [H2|H2]; try reflexivity; exfalso; nia.
Qed.

(* ------------------------------------------------------------------------------------------ *)
(* encode                                                                                     *)
(* ------------------------------------------------------------------------------------------ *)

Lemma encode_range : forall n s big v,
  (v < int_lo n s \/ int_hi n s <= v) -> encode n s big v = None.
Proof.
  intros n s big v H. unfold encode.
  destruct (Z.leb_spec (int_lo n s) v) as [H1|H1];
    destruct (Z.ltb_spec v (int_hi n s)) as [H2|H2]; cbn [andb]; try reflexivity; lia.
Qed.

Lemma encode_some_range : forall n s big v bs,
  encode n s big v = Some bs -> int_lo n s <= v < int_hi n s.
Proof.
  intros n s big v bs H. unfold encode in H.
  destruct (Z.leb_spec (int_lo n s) v) as [H1|H1];
    destruct (Z.ltb_spec v (int_hi n s)) as [H2|H2]; cbn [andb] in H; try discriminate; lia.
Qed.

Lemma encode_in_range : forall n s big v, int_lo n s <= v < int_hi n s ->
  encode n s big v = Some (msf big (be_enc (Z.to_nat n) (v mod 2 ^ (8 * n)))).
Proof.
  intros n s big v H. unfold encode.
  destruct (Z.leb_spec (int_lo n s) v) as [H1|H1];
    destruct (Z.ltb_spec v (int_hi n s)) as [H2|H2]; cbn [andb]; try lia. reflexivity.
Qed.

(* the unsigned image of an in-range value, and how decode's sign adjustment undoes it *)
Lemma sign_adjust : forall n s v, 1 <= n -> int_lo n s <= v < int_hi n s ->
  let u := v mod 2 ^ (8 * n) in
  0 <= u < 2 ^ (8 * n) /\
  (if s && (2 ^ (8 * n - 1) <=? u) then u - 2 ^ (8 * n) else u) = v.
Proof.
  intros n s v Hn Hv. cbn zeta.
  pose proof (pow2_half n Hn) as HM.
  assert (0 < 2 ^ (8 * n - 1)) as HH by (apply Z.pow_pos_nonneg; lia).
  set (M := 2 ^ (8 * n)) in *. set (H := 2 ^ (8 * n - 1)) in *.
  unfold int_lo, int_hi in Hv. fold H in Hv. fold M in Hv.
  destruct s; cbn [andb].
  - destruct (Z.ltb_spec v 0) as [Hneg|Hpos].
    + rewrite (mod_lift v M) by lia.
      destruct (Z.leb_spec H (v + M)); lia.
    + rewrite (Z.mod_small v M) by lia.
      destruct (Z.leb_spec H v); lia.
  - rewrite (Z.mod_small v M) by lia. lia.
Qed.

Lemma decode_encode : forall n s big v, 1 <= n -> int_lo n s <= v < int_hi n s ->
  exists bs, encode n s big v = Some bs /\ blen bs = n /\ wf_bytes bs /\
             decode n s big bs = Some v.
Proof.
  intros n s big v Hn Hv.
  eexists. split; [apply encode_in_range; exact Hv|].
  pose proof (sign_adjust n s v Hn Hv) as [Hu Hadj]. cbn zeta in Hu, Hadj.
  set (u := v mod 2 ^ (8 * n)) in *.
  assert (blen (msf big (be_enc (Z.to_nat n) u)) = n) as Hlen.
  { rewrite blen_msf. unfold blen. rewrite be_enc_len. lia. }
  split; [exact Hlen|]. split; [apply msf_wf, be_enc_wf|].
  unfold decode. rewrite Hlen, Z.eqb_refl. cbn zeta.
  rewrite unsigned_val_msf, msf_invol.
  rewrite be_val_enc by (rewrite pow256_n by lia; exact Hu).
  rewrite Hadj. reflexivity.
Qed.

Lemma encode_decode : forall n s big bs, 1 <= n -> blen bs = n -> wf_bytes bs ->
  exists v, decode n s big bs = Some v /\ int_lo n s <= v < int_hi n s /\
            encode n s big v = Some bs.
Proof.
  intros n s big bs Hn Hl Hwf.
  pose proof (unsigned_val_bound n big bs Hl Hwf) as Hu.
  pose proof (pow2_half n Hn) as HM.
  assert (0 < 2 ^ (8 * n - 1)) as HH by (apply Z.pow_pos_nonneg; lia).
  unfold decode. rewrite Hl, Z.eqb_refl. cbn zeta.
  set (u := unsigned_val big bs) in *.
  eexists. split; [reflexivity|].
  set (v := if s && (2 ^ (8 * n - 1) <=? u) then u - 2 ^ (8 * n) else u).
  assert (int_lo n s <= v < int_hi n s /\ v mod 2 ^ (8 * n) = u) as [Hr Hmod].
  { unfold v, int_lo, int_hi.
    set (M := 2 ^ (8 * n)) in *. set (H := 2 ^ (8 * n - 1)) in *.
    destruct s; cbn [andb].
    - destruct (Z.leb_spec H u) as [Hge|Hlt].
      + split; [lia|]. rewrite (mod_lift (u - M) M) by lia. lia.
      + split; [lia|]. apply Z.mod_small; lia.
    - split; [lia|]. apply Z.mod_small; lia. }
  split; [exact Hr|].
  rewrite (encode_in_range n s big v Hr). rewrite Hmod. f_equal.
  unfold u. rewrite unsigned_val_msf.
  replace (Z.to_nat n) with (length (msf big bs)).
  2:{ rewrite msf_length. unfold blen in Hl. lia. }
  rewrite be_enc_val by (apply msf_wf; exact Hwf).
  apply msf_invol.
Qed.

Lemma encode_injective : forall n s big v1 v2 bs, 1 <= n ->
  encode n s big v1 = Some bs -> encode n s big v2 = Some bs -> v1 = v2.
Proof.
  intros n s big v1 v2 bs Hn H1 H2.
  destruct (decode_encode n s big v1 Hn (encode_some_range _ _ _ _ _ H1)) as (b1 & E1 & _ & _ & D1).
  destruct (decode_encode n s big v2 Hn (encode_some_range _ _ _ _ _ H2)) as (b2 & E2 & _ & _ & D2).
  rewrite H1 in E1. rewrite H2 in E2.
  injection E1 as <-. injection E2 as <-.
  rewrite D1 in D2. injection D2 as ->. reflexivity.
Qed.

(* ------------------------------------------------------------------------------------------ *)
(* the unpack step                                                                            *)
(* ------------------------------------------------------------------------------------------ *)

Lemma slice_blen : forall raw offset n, 0 <= offset -> 0 <= n ->
  blen (slice raw offset (offset + n)) = Z.min n (Z.max 0 (blen raw - offset)).
Proof.
  intros raw offset n Ho Hn. unfold blen, slice.
  rewrite firstn_length, skipn_length.
  replace (offset + n - offset) with n by lia. lia.
Qed.

(* general form, valid for n = 0 too: the bound on the data only follows for n >= 1 (for n = 0
   the empty slice decodes whatever the offset: see int_unpack_zero_past_end below) *)
Lemma int_unpack_strict0 : forall n s big raw offset v o',
  0 <= offset -> 0 <= n -> int_unpack n s big raw offset = Some (v, o') ->
  o' = offset + n /\ (1 <= n \/ offset <= blen raw -> offset + n <= blen raw) /\
  decode n s big (slice raw offset (offset + n)) = Some v /\
  blen (slice raw offset (offset + n)) = n.
Proof.
  intros n s big raw offset v o' Ho Hn H. unfold int_unpack in H.
  destruct (decode n s big (slice raw offset (offset + n))) as [v'|] eqn:D; [|discriminate].
  injection H as -> <-.
  assert (blen (slice raw offset (offset + n)) = n) as Hl.
  { destruct (Z.eq_dec (blen (slice raw offset (offset + n))) n) as [E|E]; [exact E|].
    rewrite (decode_short _ _ _ _ E) in D. discriminate. }
  split; [reflexivity|]. split; [|split; [reflexivity|exact Hl]].
  rewrite slice_blen in Hl by lia. lia.
Qed.

Lemma int_unpack_strict : forall n s big raw offset v o',
  0 <= offset -> 1 <= n -> int_unpack n s big raw offset = Some (v, o') ->
  o' = offset + n /\ offset + n <= blen raw /\
  decode n s big (slice raw offset (offset + n)) = Some v /\
  blen (slice raw offset (offset + n)) = n.
Proof.
  intros n s big raw offset v o' Ho Hn H.
  destruct (int_unpack_strict0 n s big raw offset v o' Ho ltac:(lia) H) as (A & B & C & D).
  repeat split; auto.
Qed.

(* the statement with 0 <= n and the unconditional bound is false: a zero-byte field "decodes"
   at an offset past the end of the data *)
Example int_unpack_zero_past_end :
  int_unpack 0 false true [] 5 = Some (0, 5) /\ ~ (5 + 0 <= blen []).
Proof. split; [vm_compute; reflexivity | vm_compute; intros H; apply H; reflexivity]. Qed.

Lemma int_unpack_short : forall n s big raw offset, 0 <= offset -> 1 <= n ->
  blen raw < offset + n -> int_unpack n s big raw offset = None.
Proof.
  intros n s big raw offset Ho Hn H. unfold int_unpack.
  rewrite decode_short; [reflexivity|].
  rewrite slice_blen by lia. lia.
Qed.

(* ------------------------------------------------------------------------------------------ *)
(* endianness and the struct path                                                             *)
(* ------------------------------------------------------------------------------------------ *)

Lemma resolve_table : forall host,
  (* the field's own endianness wins whatever the class says *)
  (forall c, is_bigendian (resolve_endianness (Some EBig) c) host = true) /\
  (forall c, is_bigendian (resolve_endianness (Some ENetwork) c) host = true) /\
  (forall c, is_bigendian (resolve_endianness (Some ELittle) c) host = false) /\
  (forall c, is_bigendian (resolve_endianness (Some EOther) c) host = false) /\
  (forall c, is_bigendian (resolve_endianness (Some ELocal) c) host = host) /\
  (* field None: the class value, same rules *)
  is_bigendian (resolve_endianness None (Some EBig)) host = true /\
  is_bigendian (resolve_endianness None (Some ENetwork)) host = true /\
  is_bigendian (resolve_endianness None (Some ELittle)) host = false /\
  is_bigendian (resolve_endianness None (Some EOther)) host = false /\
  is_bigendian (resolve_endianness None (Some ELocal)) host = host /\
  (* neither: big *)
  is_bigendian (resolve_endianness None None) host = true.
Proof.
  intros host. repeat split; reflexivity.
Qed.

Lemma has_struct_code_spec : forall n,
  has_struct_code n = true <-> (n = 1 \/ n = 2 \/ n = 4 \/ n = 8).
Proof.
  intros n. unfold has_struct_code. lia.
Qed.

(* ------------------------------------------------------------------------------------------ *)
(* non-vacuity                                                                                *)
(* ------------------------------------------------------------------------------------------ *)

Example codec_3_signed_little :
  encode 3 true false (-2) = Some [254; 255; 255] /\
  decode 3 true false [254; 255; 255] = Some (-2) /\
  encode 3 true false 74565 = Some [69; 35; 1] /\
  decode 3 true false [69; 35; 1] = Some 74565 /\
  encode 3 true false 8388608 = None /\
  encode 3 true false (-8388608) = Some [0; 0; 128] /\
  decode 3 true false [0; 0] = None.
Proof. vm_compute. repeat split; reflexivity. Qed.

Print Assumptions decode_encode.
Print Assumptions encode_decode.
Print Assumptions encode_range.
Print Assumptions encode_injective.
Print Assumptions int_unpack_strict.
Print Assumptions int_unpack_strict0.
Print Assumptions int_unpack_short.
Print Assumptions decode_signed.
